#!/bin/sh
# Runs the repository's pinned baseline suite with the verification guard OFF and compares the
# result with /root/.vp/BASELINE.json (stable_pass). Prints the names of stable tests that did not pass.
REPO_DIR=${REPO_DIR:-/repo}
cd "$REPO_DIR" || exit 2
OUT=${1:-/tmp/baseline-run}
mkdir -p "$OUT"
cargo nextest run --workspace --no-fail-fast --tool-config-file pb:/w/lib/nextest.toml --profile pb --test-threads 8 --offline ${NEXTEST_EXTRA:-} >"$OUT/log.txt" 2>&1
J=$(find "$REPO_DIR/target/nextest/pb" -name '*.xml' | head -1)
python3 - "$J" <<'PY'
import json,sys,xml.etree.ElementTree as ET
b=json.load(open('/root/.vp/BASELINE.json'))
stable=set(b['stable_pass'])
t=ET.parse(sys.argv[1]).getroot()
passed=set();failed=set()
for ts in t.iter('testsuite'):
    for tc in ts.iter('testcase'):
        name=tc.get('classname','')+'::'+tc.get('name','')
        bad=any(ch.tag in('failure','error') for ch in tc)
        (failed if bad else passed).add(name)
def norm(s):
    return s
missing=[s for s in stable if s not in passed]
print('stable',len(stable),'passed_now',len(passed),'failed_now',len(failed),'stable_not_passed',len(missing))
for m in sorted(missing)[:40]: print('  NOT-PASSED',m)
PY
