#!/usr/bin/env python3
"""Regenerates /verif/MANIFEST.json from the table below (single source of truth)."""
import json, subprocess, sys

CHECKS = {
    "C01": (
        "exploration",
        "Seeded search over generated multi-instance pre-states, honest data-driven programs, candidate sets and K arrival schedules (permutations, duplicate deliveries, a second interleaved transaction, both scheduler kinds, rule registration orders, batches on both sides of the 1024 threshold) on the real Engine; K-way bit equality of snapshot/receipt/patch/post-state plus an independent reference tick model (canonical order, greedy independent set, interpretation against the pre-state, canonical merge and application). Evidence, not proof.",
        "Trusts the harness's reference model and honest-footprint derivation (written from the specs); programs are generated data run by one interpreter rule.",
        "deterministic simulation: seeded arrival schedules and duplicate deliveries, reference-model refinement + K-way equality",
        "DESIGN.md §5 C01",
    ),
    "C02": (
        "exploration",
        "Real worker threads of the parallel executors run under a scripted claim controller (hook H1): a seeded tape decides which parked worker claims each (instance, shard) work unit, for 1..8 (thorough: up to 32) workers and all five execution policies; every schedule must commit bit-identically to the 1-worker run and to the reference model. Seeded search over assignments (drawn without replacement when the space is tiny); not exhaustive.",
        "Assumes workers share only the atomic claim counter (crate forbids unsafe), so every observable interleaving is a claim order; the controller reports baton overlap as a harness error.",
        "deterministic simulation: controlled thread scheduling (seeded claim tapes over real threads), equality with serial baseline",
        "DESIGN.md §5 C02",
    ),
    "C14": (
        "exploration",
        "A generated honest tick plus one violator program (omits exactly one read/write access it performs, writes another instance, emits an instance op, optionally panics) placed at seeded canonical positions, work units and workers (claim tapes); the commit must unwind with the matching violation and leave the pre-state untouched; an unflagged omitted write is a violation exactly when the guarded location's observable content changed (attribution completeness). Seeded search; evidence, not proof.",
        "Requires enforcement compiled in (simulator builds warp-core with debug assertions); trusts the harness's conservative honest-footprint derivation and reference applier.",
        "deterministic simulation: fault injection of dishonest programs under seeded worker schedules, pre-state restoration oracle",
        "DESIGN.md §5 C14",
    ),
    # id: (level category, level text, level note, technique, design ref)
    "C18": (
        "exploration",
        "Seeded search over emission sets, channel policies, delivery orders and injected duplicate deliveries against the real MaterializationBus (also through a real Engine commit); K-way equality of report/digest/frame bytes plus an independent reference bus. A clean batch is evidence, not proof; <=7-emission order spaces are sampled without replacement.",
        "Trusts the harness's RefBus reading of the ADR-0003 policies; emission producers are modelled as a delivery order (the bus is !Sync, so there is no thread interleaving to simulate).",
        "deterministic simulation: seeded delivery schedules + duplicate-delivery faults, reference-model oracle",
        "DESIGN.md §5 C18",
    ),
}

NOT_APPLICABLE = {
    "C12": "pure functions of a value/byte string (codec bijectivity): no schedule, clock, fault or interleaving for a simulator to control; deciding it is input generation/byte-space search, outside this technique (DESIGN §6)",
    "C13": "hostile-input totality of pure decoders: a fuzzing/isolated-process property with no simulated nondeterminism; fault-facing readers are exercised under C10/C11/C20 only (DESIGN §6)",
    "C19": "pure arithmetic bit-stability across build profiles: nothing to schedule or fault (DESIGN §6)",
}

PENDING_REASON = "check not built yet in this tree (planned: DESIGN §5); not claimed until its simulation is committed and clean"

ALL = [f"C{n:02d}" for n in range(1, 21)]


def main():
    hooks_commits = subprocess.run(
        ["git", "-C", "/repo", "log", "--format=%H %s", "--grep", "^verif hooks:"],
        capture_output=True, text=True).stdout.strip().splitlines()
    checks = []
    for pid in ALL:
        if pid not in CHECKS:
            continue
        cat, text, note, tech, ref = CHECKS[pid]
        checks.append({
            "property_id": pid,
            "quick_cmd": f"./check {pid} --tier quick",
            "thorough_cmd": f"./check {pid} --tier thorough",
            "evidence_file": f"/verif/evidence/{pid}.json",
            "replay_cmd_template": f"./check {pid} --replay {{path}}",
            "engine": "echo-sim",
            "level_claimed": {"category": cat, "text": text, "design_ref": ref},
            "level_note": note,
            "technique": tech,
        })
    na = []
    for pid in ALL:
        if pid in CHECKS:
            continue
        na.append({"property_id": pid, "reason": NOT_APPLICABLE.get(pid, PENDING_REASON)})
    manifest = {
        "version": 1,
        "setup_cmd": "cd /verif/sim && CARGO_NET_OFFLINE=true cargo build --offline",
        "hooks": {
            "guard": "cargo feature `echo_verif` of crate warp-core (off by default)",
            "enable": "the simulator crate /verif/sim depends on /repo/crates/warp-core by path with features [native_rule_bootstrap, trusted_runtime, host_test, echo_verif]; ./check rebuilds it from /repo's working tree on every invocation",
            "baseline_off_cmd": "cd /repo && cargo nextest run --workspace --no-fail-fast --tool-config-file pb:/w/lib/nextest.toml --profile pb --test-threads 8 --offline || cargo test --workspace --no-fail-fast --offline",
            "source_commits": [l.split()[0] for l in hooks_commits][::-1],
            "add_only": True,
        },
        "engines": [{
            "name": "echo-sim",
            "path": "/verif/sim",
            "serves_properties": [c["property_id"] for c in checks],
            "kind_free_text": "seeded deterministic simulator (one VERIF_SEED -> one exactly repeatable batch): scenario = explicit decision tape (schedules, crash points, fault plans) executed against the real crates; reference-model oracles; greedy structure-aware shrinking; replay files",
        }],
        "checks": checks,
        "not_applicable": na,
        "notes": "Exit codes: 0 held, 1 VIOLATION line, 2 harness/build error. Known findings: /verif/known_findings.json (never written at run time). Determinism selftest: ./selftest. See DESIGN.md.",
    }
    json.dump(manifest, open("/verif/MANIFEST.json", "w"), indent=1)
    print("wrote MANIFEST.json with", len(checks), "checks")


if __name__ == "__main__":
    main()
