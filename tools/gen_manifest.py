#!/usr/bin/env python3
"""Regenerates /verif/MANIFEST.json from the table below (single source of truth)."""
import json, subprocess, sys

CHECKS = {
    "C01": (
        "exploration",
        "Seeded search over generated multi-instance pre-states, honest data-driven programs, candidate sets and K arrival schedules (permutations, duplicate deliveries, a second interleaved transaction, both scheduler kinds, rule registration orders, batches on both sides of the 1024 threshold) on the real Engine; K-way bit equality of snapshot/receipt/patch/post-state plus an independent reference tick model (canonical order, greedy independent set, interpretation against the pre-state, canonical merge and application). Evidence, not proof.",
        "Trusts the harness's reference model and honest-footprint derivation (written from the specs); programs are generated data run by one interpreter rule.",
        "deterministic simulation: seeded arrival schedules and duplicate deliveries, reference-model refinement + K-way equality",
        "DESIGN.md §5 C01",
    ),
    "C02": (
        "exploration",
        "Real worker threads of the parallel executors run under a scripted claim controller (hook H1): a seeded tape decides which parked worker claims each (instance, shard) work unit, for 1..8 (thorough: up to 32) workers on the engine path and 1..32 workers under all five execution policies, with scopes spread over all 256 virtual shards and programs that may write one location twice (the tick must then be refused under every schedule); every schedule must commit bit-identically to the 1-worker run and to the reference model. Seeded search over assignments (drawn without replacement when the space is tiny); not exhaustive.",
        "Assumes workers share only the atomic claim counter (crate forbids unsafe), so every observable interleaving is a claim order; the controller reports baton overlap as a harness error.",
        "deterministic simulation: controlled thread scheduling (seeded claim tapes over real threads), equality with serial baseline",
        "DESIGN.md §5 C02",
    ),
    "C03": (
        "exploration",
        "Seeded histories of enqueue (incl. last-wins re-enqueue) / drain / reserve / finalize calls over 1-3 interleaved transactions on both scheduler implementations through the raw-scheduler hook (H2), with adversarial sort keys (shared 30-byte prefixes, single 16-bit digit differences, equal scope/different rule), batches 0..5000 around the 1024 threshold and a stratified block of all access x access pairs; oracle = independent greedy-independent-set reference (drain order, dedupe winner, admission, no marking on rejection, no cross-talk between transactions) plus exact blocker witnesses and TickReceipt::try_from_retained_parts on the engine path. Evidence, not proof.",
        "Trusts the harness's RefScheduler (written from scheduler-warp-core.md); rule ids are generated so that compact-id order equals rule-id byte order, as the engine guarantees.",
        "deterministic simulation: seeded call histories and transaction interleavings, reference-model refinement, two-implementation differential",
        "DESIGN.md §5 C03",
    ),
    "C04": (
        "exploration",
        "Multi-tick engine histories of generated programs: every committed patch is replayed on a clone of its pre-state with no rule callback, jump_to_tick must reproduce every recorded state, and patches are delivered with faults (op removed/duplicated/altered/reordered, wrong base) which must be rejected, change the root, or be harmless; plus ordered pairs of well-formed states (independent or related by chains of single semantic edits incl. portal/instance evolution) through the crate-private diff (H3): no third state. Seeded search; evidence, not proof.",
        "Trusts the reference applier and the reachable-projection function of the harness; well-formed = buildable by the reference applier.",
        "deterministic simulation: seeded tick histories with patch-delivery fault injection, reference-state oracle",
        "DESIGN.md §5 C04",
    ),
    "C06": (
        "exploration",
        "Chains of single semantic edits (reachable and unreachable) over generated multi-instance states, each state rebuilt through 2-4 construction histories (canonical patches, shuffled single-op application with junk inserted/removed, same-id edge migrations): the store root, the columnar accumulator root (H4) and the accumulator-after-ops root must agree; roots and reachable projections must correspond one-to-one within the run; columnar snapshot bytes must be layout-independent and read back to the same state. Seeded search; evidence, not proof.",
        "Trusts the harness's reachability definition (merkle-commit.md); hash collisions between distinct generated projections are treated as impossible. No fault kind applies.",
        "deterministic simulation: seeded construction histories and edit chains, two-implementation differential + reference projection oracle",
        "DESIGN.md §5 C06",
    ),
    "C20": (
        "fault_enumeration",
        "Seeded op histories against the real MemoryTier/DiskTier (real files on tmpfs), RetainedBlobIndex (also on a simulator-owned evicting store), FilesystemWscStore (stage/crash/reopen/commit) and the three WAL export profiles (record sets produced by a real FilesystemWalStore), with file faults between ops (flip, truncate, extend, delete, replace-by-directory, leftover temp, torn blob/envelope/marker) and every referenced blob withheld or corrupted in turn; oracle = reference map per surface checked after every op. Fault kinds are enumerated per generated artefact, positions are sampled; evidence, not proof.",
        "Trusts the harness's RefCas/reference maps and its reading of the on-disk layouts; a BlobStore that returns wrong bytes under RetainedBlobIndex is out of scope; causal-anchor admissions cannot be generated through the public API.",
        "deterministic simulation: seeded op histories with disk/blob-store fault injection and simulated crash between stage and commit, reference-model oracle",
        "DESIGN.md §5 C20",
    ),
    "C09": (
        "fault_enumeration",
        "Seeded op tapes (deliver / pass / poke / resolve) over 1-3 worldlines x 1-4 heads with poisonous intents (executor panic, undeclared access, cross-instance write, instance op, inapplicable op) aimed at seeded heads and passes, runtime pokes (frontier tick overflow, missing root instance, global tick overflow; hook H7) and trusted fault resolution. On every failed pass all top-level fields of the runtime, the provenance service and the engine must equal their pre-pass fingerprints except fault evidence; successful passes must follow the reference coordinator (canonical head order, admitted counts, +1 tick per committing head, +1 global tick, idle heads untouched); quarantine and resolution are checked on later passes. Failure kinds are enumerated, positions sampled; evidence, not proof.",
        "Fingerprints are digests of the {:#?} rendering per top-level field (covers private indexes); fault scope is taken from the recorded fault, not prescribed.",
        "deterministic simulation: seeded delivery/pass schedules with fault injection at arbitrary heads and passes, pre-pass fingerprint restoration oracle + reference coordinator",
        "DESIGN.md §5 C09",
    ),
    "C17": (
        "fault_enumeration",
        "Seeded interleavings of request/claim/settle/reconcile/observe ops (valid and invalid arguments) over 1-6 request ids on the real protocol functions, against a simulator-owned WalStorePort with a durable line (3/4 of runs) and the real FilesystemWalStore with crash images taken at I/O points (H5; 1/4 of runs). Faults: append error, flush error before/after durability (lost ack), process death at every frame/flush point and after any op with all/none/part of the un-flushed tail surviving, repeated crash-recover cycles, ops against a poisoned coordinator. Oracle: reference lifecycle per id advanced only by the harness's own durability model; at most one distinct grant; durable-before-grant; recovered index/root/outstanding grants equal a fault-free twin that executed exactly the durable ops; retries answered from retained results without growing the log; recovery idempotent. Fault kinds enumerated, positions sampled; evidence, not proof.",
        "Trusts the harness's durable-line model and its independent log scan; v1 transactions have one frame, so 'frame k' is always frame 0; crashes while filesystem recovery rewrites the segment belong to C10.",
        "deterministic simulation: seeded op interleavings with store fault and crash injection at every frame/flush point, refinement against a durable-prefix twin",
        "DESIGN.md §5 C17",
    ),
    "C10": (
        "fault_enumeration",
        "Seeded op tapes (submit / stage / tick / restart incl. idle sessions / manifest session) on a real TrustedRuntimeHost with an installed contract package whose mutation rule is the data-driven interpreter, over the real FilesystemWalStore on tmpfs. Faults: process death at any I/O point (H5: segment append begin/written/synced, ledger and manifest temp+rename, recovery rewrite created/synced/renamed/removed) with six torn-length classes, leftover temp prefixes and kept/undone renames, up to 3 crash-recover cycles incl. crashes during recovery; the four FilesystemWalFaultTargets plus a blocked ledger write; hook-free prefix sweep of the final segment against every coexisting ledger version. Oracle: refinement against a crash-free twin of the durable prefix decided by the harness's own record parser (acked ⊆ durable ⊆ attempted; explicit observable list; no rule callback during recovery; idempotent recovery; identical continuation and duplicate answers; failed op invisible and retry succeeds). Crash points are enumerated by ordinal and sampled; evidence, not proof.",
        "Crash model is prefix-only per file (no page-level reordering of unsynced writes); one worldline and one writer head (the filesystem store refuses multi-head tick batches); trusts the harness's on-disk record parser.",
        "deterministic simulation: crash/restart at arbitrary I/O points with torn writes and store faults, refinement against a durable-prefix twin",
        "DESIGN.md §5 C10",
    ),
    "C11": (
        "fault_enumeration",
        "Logs produced by crash-free C10 workloads (1-12 transactions, ledger, optional manifest) damaged on a copy by one explicit plan entry each: bit flips, aligned zeroing, truncation plus garbage, in-record payload flips with and without recomputed outer digest, record and transaction delete / duplicate / adjacent swap, cross-log record and transaction transplants from a donor log generated in the same scenario (incl. same-shaped multi-epoch donors spliced at the same position), commit markers re-labelled to a transaction kind of another append authority with recomputed digests, ledger and manifest flips and substitution. Oracle on recover_wal_segment_bytes, recover_filesystem_store (both modes), doctor_filesystem_store, validate_filesystem_manifest and TrustedRuntimeHost::enable_runtime_wal: typed error / obstruction, or Ok with a committed-transaction list that is a prefix of the original; never a panic, a non-prefix history, or a host differing from the twin of that prefix. Thorough adds every single-bit flip and record-level edit on small logs. Two open known findings (spliced transactions, deleted leading transactions) are reported as KNOWN-FINDING lines; their classes are narrowed by shape (a foreign writer epoch inside the retained ledger range, or a hole in the middle of the log, is reported as a violation).",
        "For whole-record edits L1 and L2 coincide (records keep a valid outer digest); L3 forgery (recomputed inner checksums) is generated only for commit markers re-labelled across append authorities (the frames then contradict the marker); hang detection relies on bounded inputs.",
        "deterministic simulation: storage corruption and cross-log splice injection on real logs, prefix-of-committed-history oracle",
        "DESIGN.md §5 C11",
    ),
    "C07": (
        "exploration",
        "Real histories from the runtime world (1-2 worldlines, 3-12 passes, thorough up to 40) with seeded checkpoint placements (live and replayed), then a seeded op tape over cursors (fresh/reused, reader/writer, pins), seek_to forward/backward/past the end, step under every PlaybackMode, add_checkpoint, ProvenanceService::fork and fork_strand with the same ops on the child, replay_worldline_state_at with fresh/live/replayed bases; for histories <= 5 ticks (start, target, checkpoint subset) triples are drawn without replacement (small spaces exhausted). Oracle (a) replay vs live: abstract state, state root, commit ids at every reported tick; (b) replay vs replay: any two paths to the same tick yield identical Debug text of the whole WorldlineState; typed errors only for unservable targets and cursor unchanged after them. No fault kind applies. Evidence, not proof.",
        "The interpreter rules emit no materialization channels, so last_materialization/outputs are always empty in replay comparisons; fork children are not extended beyond the fork tick (C15).",
        "deterministic simulation: seeded seek/step/fork/checkpoint schedules over recorded histories, replay-vs-live and replay-vs-replay equality",
        "DESIGN.md §5 C07",
    ),
    "C08": (
        "exploration",
        "A multiset of intents (incl. exact duplicates, route aliases, same bytes with different kind or causal-parent set, unroutable targets) is delivered to fresh worlds under 3-9 schedules that share an epoch partition: any order within an epoch, 0-3 retries per envelope in its own or a later epoch, plain ingest and the ticketed submit path, eligibility changes, and a clean restart rebuilt through restore_witnessed_submission_persistence + restore_causal_runtime_history. Two further surfaces: a standalone HeadInbox driven by Ingest / SetPolicy / Admit tapes (policy changes between admissions) and the legacy graph inbox (Engine::ingest_intent / dispatch_next_intent / commit) with retries while pending and after the commit, each against its own reference and a reordered/retrying twin. Oracle: K-way equality of pending sets, step records, provenance entries and final fingerprints (arrival-order metadata masked narrowly), step-by-step RefRuntime (Accepted then Duplicate with the same submission id, batch = lowest ids up to the budget), at-most-once per (head, ingress id), ingress id = documented formula. Evidence, not proof.",
        "Masked as arrival metadata: per-record submission_generation and the retained first-arrival route alias; inbox policy cannot be changed on a registered head (no public access), so policy changes run on a standalone HeadInbox; restart is modelled without TrustedRuntimeHost (that is C10).",
        "deterministic simulation: seeded message reordering, duplication (retries), delay and restart, K-way schedule equality + reference inbox model",
        "DESIGN.md §5 C08",
    ),
    "C05": (
        "fault_enumeration",
        "Real multi-worldline, multi-head histories (with a sibling history sharing a prefix, checkpoints, a fork, a BTR and an exported suffix bundle) attacked by 5-20 explicit tampers per scenario: every ProvenanceEntry field (51 kinds incl. each parent-ref field, op/slot removal, duplication, reordering, header digests, receipts, outputs, atom writes), entry swap/duplication/truncation, transplants from another worldline and from the sibling history, initial boundary and u0, 9 checkpoint, 12 BTR and 12 suffix alterations, at forgery levels L1 (field only), L2 (+ recomputable digests) and L3 (+ own commit id, non-tip only). Delivered through a TamperStore handed to PlaybackCursor::seek_to/step, through a ProvenanceService rebuilt entry by entry via append_local_commit (then replay, add_checkpoint, fork, validate_btr) and through import_suffix/admission. Oracle: typed error / obstruction, or Ok with an identical verified state (reachable state, state root and every chain link per target); unbound metadata is counted, not flagged. Kinds enumerated, positions sampled; evidence, not proof.",
        "A fully re-hashed replacement of the store's last entry (or a bundle with all digests recomputed) is a different valid history by definition (its commit id is the external trust anchor) and is never generated; single-alteration model (no coordinated multi-entry forgery).",
        "deterministic simulation: byzantine storage/transport (seeded tamper plans through the store seam and the append path), verified-state equality oracle",
        "DESIGN.md §5 C05",
    ),
    "C15": (
        "fault_enumeration",
        "A base worldline with history, up to 3-4 strands forked at seeded ticks (shared/author-only postures, forks at settlement entries, re-forks), parent and child ticks interleaved by the seeded order with programs steered to disjoint / read-overlapping / write-overlapping (same and different value) slot sets, settlement under default and plural policies incl. re-settlement and support pins. Faults: the settlement fail point (H6) armed at every step of execution, late- and early-failing fork_strand requests. Oracle: fork prefix/heads/receipt faithfulness, per-lane isolation digests after every op, plan determinism and purity, settle == plan, never-overwrite / imported values / conflict artifacts from the real patches' slot sets, parent replayable from U0 after settlement, all fingerprints restored and no shell retained after an injected failure, same settlement succeeds afterwards. Fault positions enumerated per settlement; evidence, not proof.",
        "Strands forked from strands, drop_strand, several intents per lane per tick and multi-instance states are not generated.",
        "deterministic simulation: seeded lane interleavings with fail-point injection at every settlement step, reference slot oracle + restoration fingerprints",
        "DESIGN.md §5 C15",
    ),
    "C16": (
        "exploration",
        "Seeded tapes of deliver / pass / fork / checkpoint / observe over 1-3 worldlines: reads of every frame x projection pairing (valid and invalid), frontier / explicit / future ticks, unknown worldlines, builtin and authored plans, a registered data-driven contract query observer, budgets and rights, and observe_optic over every focus, coordinate (incl. full provenance coordinates with right and wrong commit hashes), aperture and budget shape; every historical request is re-issued after every later commit, fork and checkpoint. Oracle: runtime/provenance/engine fingerprints identical around every read; same request twice gives equal artifacts, ABI encodings and hashes; a Tick(t) reading equals the recorded facts of entry t and the replayed state, unchanged at every later time (observation-time fields only monotone); unservable requests get typed errors that name the request's own coordinate. Fault: in a third of the runs every first ask is also issued against an older copy of the provenance service next to the live runtime (retained history lags the runtime): a typed refusal or exactly the full-history reading. Evidence, not proof.",
        "Recorded-truth payloads are empty because the interpreter emits no materialization channels; contract / retained-evidence envelope parts are absent (no contract package installed); at most one fork per run.",
        "deterministic simulation: reads interleaved with commits and forks under seeded schedules, read-only fingerprints + coordinate-binding oracle",
        "DESIGN.md §5 C16",
    ),
    "C14": (
        "exploration",
        "A generated honest tick plus one violator program (omits exactly one read/write access it performs, writes another instance, emits an instance op, optionally panics) placed at seeded canonical positions, work units and workers (claim tapes), in ticks of 1-9 rewrites and (1 in 50) among 4096-5000 honest rewrites of one instance; the commit must unwind with the matching violation and leave the pre-state untouched; an unflagged omitted write is a violation exactly when the guarded location's observable content changed (attribution completeness). Seeded search; evidence, not proof.",
        "Requires enforcement compiled in (simulator builds warp-core with debug assertions); trusts the harness's conservative honest-footprint derivation and reference applier.",
        "deterministic simulation: fault injection of dishonest programs under seeded worker schedules, pre-state restoration oracle",
        "DESIGN.md §5 C14",
    ),
    # id: (level category, level text, level note, technique, design ref)
    "C18": (
        "exploration",
        "Seeded search over emission sets, channel policies, delivery orders and injected duplicate deliveries against the real MaterializationBus (also through a real Engine commit); K-way equality of report/digest/frame bytes plus an independent reference bus. A clean batch is evidence, not proof; <=7-emission order spaces are sampled without replacement.",
        "Trusts the harness's RefBus reading of the ADR-0003 policies; emission producers are modelled as a delivery order (the bus is !Sync, so there is no thread interleaving to simulate).",
        "deterministic simulation: seeded delivery schedules + duplicate-delivery faults, reference-model oracle",
        "DESIGN.md §5 C18",
    ),
}

NOT_APPLICABLE = {
    "C12": "pure functions of a value/byte string (codec bijectivity): no schedule, clock, fault or interleaving for a simulator to control; deciding it is input generation/byte-space search, outside this technique (DESIGN §6)",
    "C13": "hostile-input totality of pure decoders: a fuzzing/isolated-process property with no simulated nondeterminism; fault-facing readers are exercised under C10/C11/C20 only (DESIGN §6)",
    "C19": "pure arithmetic bit-stability across build profiles: nothing to schedule or fault (DESIGN §6)",
}

PENDING_REASON = "check not built yet in this tree (planned: DESIGN §5); not claimed until its simulation is committed and clean"

ALL = [f"C{n:02d}" for n in range(1, 21)]


def main():
    hooks_commits = subprocess.run(
        ["git", "-C", "/repo", "log", "--format=%H %s", "--grep", "^verif hooks:"],
        capture_output=True, text=True).stdout.strip().splitlines()
    checks = []
    for pid in ALL:
        if pid not in CHECKS:
            continue
        cat, text, note, tech, ref = CHECKS[pid]
        checks.append({
            "property_id": pid,
            "quick_cmd": f"./check {pid} --tier quick",
            "thorough_cmd": f"./check {pid} --tier thorough",
            "evidence_file": f"/verif/evidence/{pid}.json",
            "replay_cmd_template": f"./check {pid} --replay {{path}}",
            "engine": "echo-sim",
            "level_claimed": {"category": cat, "text": text, "design_ref": ref},
            "level_note": note,
            "technique": tech,
        })
    na = []
    for pid in ALL:
        if pid in CHECKS:
            continue
        na.append({"property_id": pid, "reason": NOT_APPLICABLE.get(pid, PENDING_REASON)})
    manifest = {
        "version": 1,
        "setup_cmd": "cd /verif/sim && CARGO_NET_OFFLINE=true cargo build --offline",
        "hooks": {
            "guard": "cargo feature `echo_verif` of crate warp-core (off by default)",
            "enable": "the simulator crate /verif/sim depends on /repo/crates/warp-core by path with features [native_rule_bootstrap, trusted_runtime, host_test, echo_verif]; ./check rebuilds it from /repo's working tree on every invocation",
            "baseline_off_cmd": "cd /repo && cargo nextest run --workspace --no-fail-fast --tool-config-file pb:/w/lib/nextest.toml --profile pb --test-threads 8 --offline || cargo test --workspace --no-fail-fast --offline",
            "source_commits": [l.split()[0] for l in hooks_commits][::-1],
            "add_only": True,
        },
        "engines": [{
            "name": "echo-sim",
            "path": "/verif/sim",
            "serves_properties": [c["property_id"] for c in checks],
            "kind_free_text": "seeded deterministic simulator (one VERIF_SEED -> one exactly repeatable batch): scenario = explicit decision tape (schedules, crash points, fault plans) executed against the real crates; reference-model oracles; greedy structure-aware shrinking; replay files",
        }],
        "checks": checks,
        "not_applicable": na,
        "notes": "Exit codes: 0 held, 1 VIOLATION line, 2 harness/build error. Known findings: /verif/known_findings.json (never written at run time). Determinism selftest: ./selftest. See DESIGN.md.",
    }
    json.dump(manifest, open("/verif/MANIFEST.json", "w"), indent=1)
    print("wrote MANIFEST.json with", len(checks), "checks")


if __name__ == "__main__":
    main()
