#!/usr/bin/env python3
"""Regenerates /verif/MANIFEST.json from the table below (single source of truth)."""
import json, subprocess, sys

CHECKS = {
    # id: (level category, level text, level note, technique, design ref)
    "C18": (
        "exploration",
        "Seeded search over emission sets, channel policies, delivery orders and injected duplicate deliveries against the real MaterializationBus (also through a real Engine commit); K-way equality of report/digest/frame bytes plus an independent reference bus. A clean batch is evidence, not proof; <=7-emission order spaces are sampled without replacement.",
        "Trusts the harness's RefBus reading of the ADR-0003 policies; emission producers are modelled as a delivery order (the bus is !Sync, so there is no thread interleaving to simulate).",
        "deterministic simulation: seeded delivery schedules + duplicate-delivery faults, reference-model oracle",
        "DESIGN.md §5 C18",
    ),
}

NOT_APPLICABLE = {
    "C12": "pure functions of a value/byte string (codec bijectivity): no schedule, clock, fault or interleaving for a simulator to control; deciding it is input generation/byte-space search, outside this technique (DESIGN §6)",
    "C13": "hostile-input totality of pure decoders: a fuzzing/isolated-process property with no simulated nondeterminism; fault-facing readers are exercised under C10/C11/C20 only (DESIGN §6)",
    "C19": "pure arithmetic bit-stability across build profiles: nothing to schedule or fault (DESIGN §6)",
}

PENDING_REASON = "check not built yet in this tree (planned: DESIGN §5); not claimed until its simulation is committed and clean"

ALL = [f"C{n:02d}" for n in range(1, 21)]


def main():
    hooks_commits = subprocess.run(
        ["git", "-C", "/repo", "log", "--format=%H %s", "--grep", "^verif hooks:"],
        capture_output=True, text=True).stdout.strip().splitlines()
    checks = []
    for pid in ALL:
        if pid not in CHECKS:
            continue
        cat, text, note, tech, ref = CHECKS[pid]
        checks.append({
            "property_id": pid,
            "quick_cmd": f"./check {pid} --tier quick",
            "thorough_cmd": f"./check {pid} --tier thorough",
            "evidence_file": f"/verif/evidence/{pid}.json",
            "replay_cmd_template": f"./check {pid} --replay {{path}}",
            "engine": "echo-sim",
            "level_claimed": {"category": cat, "text": text, "design_ref": ref},
            "level_note": note,
            "technique": tech,
        })
    na = []
    for pid in ALL:
        if pid in CHECKS:
            continue
        na.append({"property_id": pid, "reason": NOT_APPLICABLE.get(pid, PENDING_REASON)})
    manifest = {
        "version": 1,
        "setup_cmd": "cd /verif/sim && CARGO_NET_OFFLINE=true cargo build --offline",
        "hooks": {
            "guard": "cargo feature `echo_verif` of crate warp-core (off by default)",
            "enable": "the simulator crate /verif/sim depends on /repo/crates/warp-core by path with features [native_rule_bootstrap, trusted_runtime, host_test, echo_verif]; ./check rebuilds it from /repo's working tree on every invocation",
            "baseline_off_cmd": "cd /repo && cargo nextest run --workspace --no-fail-fast --tool-config-file pb:/w/lib/nextest.toml --profile pb --test-threads 8 --offline || cargo test --workspace --no-fail-fast --offline",
            "source_commits": [l.split()[0] for l in hooks_commits][::-1],
            "add_only": True,
        },
        "engines": [{
            "name": "echo-sim",
            "path": "/verif/sim",
            "serves_properties": [c["property_id"] for c in checks],
            "kind_free_text": "seeded deterministic simulator (one VERIF_SEED -> one exactly repeatable batch): scenario = explicit decision tape (schedules, crash points, fault plans) executed against the real crates; reference-model oracles; greedy structure-aware shrinking; replay files",
        }],
        "checks": checks,
        "not_applicable": na,
        "notes": "Exit codes: 0 held, 1 VIOLATION line, 2 harness/build error. Known findings: /verif/known_findings.json (never written at run time). Determinism selftest: ./selftest. See DESIGN.md.",
    }
    json.dump(manifest, open("/verif/MANIFEST.json", "w"), indent=1)
    print("wrote MANIFEST.json with", len(checks), "checks")


if __name__ == "__main__":
    main()
