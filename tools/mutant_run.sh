#!/bin/sh
# usage: tools/mutant_run.sh <patch.diff> <ID> [runs] [extra echo-sim args...]
# Applies a patch to a SCRATCH worktree of /repo (never to /repo itself), builds a scratch copy of the
# simulator against it and runs the property's check there. Prints the check's last lines and
# "MUTANT-RESULT <patch> <ID> exit=<code>". Used for sensitivity runs and for confirming seeded changes.
PATCH=$(readlink -f "$1"); ID=$2; RUNS=${3:-}; shift 3 2>/dev/null
WT=${MUT_WT:-/tmp/mut-repo}; SIM=${MUT_SIM:-/tmp/mut-sim}; TGT=${MUT_TGT:-/tmp/mut-tgt}; VR=${MUT_VR:-/tmp/mut-vr}
set -e
if [ ! -d "$WT" ]; then git -C /repo worktree add -q --detach "$WT" HEAD; fi
git -C "$WT" checkout -q --detach "$(git -C /repo rev-parse HEAD)" 2>/dev/null || true
git -C "$WT" checkout -q -- . && git -C "$WT" clean -fdq crates
if [ "$PATCH" != "/dev/null" ] && [ -n "$PATCH" ]; then git -C "$WT" apply "$PATCH"; fi
mkdir -p "$SIM" "$VR"
rsync -a --delete --exclude target /verif/sim/ "$SIM"/
sed -i "s#/repo/crates#$WT/crates#g" "$SIM/Cargo.toml"
cp /verif/known_findings.json "$VR"/ ; rm -rf "$VR/findings"; cp -r /verif/findings "$VR"/ 2>/dev/null || true
set +e
cd "$SIM"
if ! CARGO_TARGET_DIR="$TGT" cargo build --offline >"$TGT.log" 2>&1; then
  tail -n 30 "$TGT.log"; echo "MUTANT-RESULT $(basename "$PATCH") $ID exit=build-failed"
  git -C "$WT" checkout -q -- . ; exit 2
fi
if [ -n "$RUNS" ]; then RUNARG="--runs $RUNS"; else RUNARG=""; fi
VERIF_ROOT="$VR" "$TGT/debug/echo-sim" check "$ID" $RUNARG "$@" 2>&1 | tail -n 6
code=$?
# exit status of the pipeline's first command is lost in sh; recompute from output
if grep -q "^VIOLATION" "$VR/last.out" 2>/dev/null; then :; fi
echo "MUTANT-RESULT $(basename "$(dirname "$PATCH")")/$(basename "$PATCH") $ID"
git -C "$WT" checkout -q -- . && git -C "$WT" clean -fdq crates
