#!/bin/sh
# usage: confirm_seeded.sh <ID-i> <worktree> <demo test name>
# Confirms a seeded change produced by an independent sub-agent: demo passes on the clean scratch
# worktree, fails with the patch, and the pinned suite still passes with the patch applied.
K=$1; WT=$2; DEMO=$3; D=/tmp/adv-out/$K; CRATE=${DEMO_CRATE:-warp-core}
FEAT="--features native_rule_bootstrap,trusted_runtime,host_test"; [ "${DEMO_CRATE:-warp-core}" = "warp-core" ] || FEAT=""
set -x
git -C "$WT" checkout -q -- . && git -C "$WT" clean -fdq crates
cp "$D/demo.rs" "$WT/crates/$CRATE/tests/$DEMO.rs"
cd "$WT" || exit 2
cargo test -p $CRATE --offline -j 8 $FEAT --test "$DEMO" >"$D/confirm-demo-clean.log" 2>&1; echo "demo-clean exit=$?" >"$D/confirm.txt"
git -C "$WT" apply "$D/patch.diff" || { echo "patch does not apply" >>"$D/confirm.txt"; exit 1; }
cargo test -p $CRATE --offline -j 8 $FEAT --test "$DEMO" >"$D/confirm-demo-patched.log" 2>&1; echo "demo-patched exit=$?" >>"$D/confirm.txt"
rm -f "$WT/crates/$CRATE/tests/$DEMO.rs"
REPO_DIR="$WT" /verif/tools/run_baseline.sh "$D/confirm-suite" >>"$D/confirm.txt" 2>&1
git -C "$WT" checkout -q -- . && git -C "$WT" clean -fdq crates
set +x
cat "$D/confirm.txt"
