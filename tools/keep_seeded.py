#!/usr/bin/env python3
"""usage: keep_seeded.py <ID-i> <property> <caught-by comma list> <needs text>
Copies a confirmed seeded change from /tmp/adv-out/<ID-i>/ to /verif/seeded/<ID-i>/ with meta.json."""
import sys, json, os, shutil, re
k, prop, caught, needs = sys.argv[1], sys.argv[2], sys.argv[3], sys.argv[4]
src = f'/tmp/adv-out/{k}'; dst = f'/verif/seeded/{k}'
os.makedirs(dst, exist_ok=True)
for f in ('patch.diff', 'demo.rs', 'notes.md'):
    if os.path.exists(f'{src}/{f}'): shutil.copy(f'{src}/{f}', f'{dst}/{f}')
confirm = open(f'{src}/confirm.txt').read() if os.path.exists(f'{src}/confirm.txt') else ''
meta = {
    "id": k, "breaks_property": prop,
    "needs_to_manifest": needs,
    "origin": "independent sub-agent given only the property text and a scratch worktree of /repo",
    "confirmed_by_me": {
        "demo_on_clean_tree": "pass" if "demo-clean exit=0" in confirm else "NOT CONFIRMED",
        "demo_with_patch": "fail" if "demo-patched exit=101" in confirm else "NOT CONFIRMED",
        "pinned_suite_with_patch": (re.search(r"stable \d+ passed_now \d+ failed_now \d+ stable_not_passed \d+", confirm) or [""])[0] if confirm else "",
        "how": "tools/confirm_seeded.sh in a scratch worktree: demo test (features native_rule_bootstrap,trusted_runtime,host_test) on clean tree and with patch; cargo nextest --workspace pinned suite with patch compared against BASELINE.json stable_pass",
    },
    "caught_by_checks": [c for c in caught.split(',') if c],
    "how_checks_were_run": "tools/mutant_run.sh seeded/%s/patch.diff <ID> (scratch worktree + scratch simulator build; /repo untouched)" % k,
}
json.dump(meta, open(f'{dst}/meta.json', 'w'), indent=1)
print('kept', k, meta['confirmed_by_me'])
