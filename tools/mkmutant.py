#!/usr/bin/env python3
"""usage: mkmutant.py <name> <file relative to repo> <<< JSON {"old": "...", "new": "..."}
Creates /verif/mutants/<name>.diff from a single textual replacement, using the scratch worktree."""
import sys, json, subprocess
name, rel = sys.argv[1], sys.argv[2]
spec = json.load(sys.stdin)
wt = '/tmp/mut-repo'
subprocess.run(['git','-C',wt,'checkout','-q','--detach',subprocess.run(['git','-C','/repo','rev-parse','HEAD'],capture_output=True,text=True).stdout.strip()])
subprocess.run(['git','-C',wt,'checkout','-q','--','.'])
p = f'{wt}/{rel}'
s = open(p).read()
assert s.count(spec['old']) == 1, (name, s.count(spec['old']))
open(p,'w').write(s.replace(spec['old'], spec['new']))
d = subprocess.run(['git','-C',wt,'diff'],capture_output=True,text=True).stdout
open(f'/verif/mutants/{name}.diff','w').write(d)
subprocess.run(['git','-C',wt,'checkout','-q','--','.'])
print('wrote', name, len(d.splitlines()), 'lines')
