//! Seeded PRNG: the only source of randomness in the simulator.
//! `run_seed = splitmix64(VERIF_SEED ^ fnv(property id) ^ run_index)`; xoshiro256** stream.

#[derive(Clone, Debug)]
pub struct Rng {
    s: [u64; 4],
}

pub fn splitmix64(x: &mut u64) -> u64 {
    *x = x.wrapping_add(0x9E37_79B9_7F4A_7C15);
    let mut z = *x;
    z = (z ^ (z >> 30)).wrapping_mul(0xBF58_476D_1CE4_E5B9);
    z = (z ^ (z >> 27)).wrapping_mul(0x94D0_49BB_1331_11EB);
    z ^ (z >> 31)
}

pub fn fnv64(s: &str) -> u64 {
    let mut h: u64 = 0xcbf2_9ce4_8422_2325;
    for b in s.bytes() {
        h ^= u64::from(b);
        h = h.wrapping_mul(0x0000_0100_0000_01B3);
    }
    h
}

pub fn run_seed(verif_seed: u64, prop: &str, run_index: u64) -> u64 {
    let mut x = verif_seed ^ fnv64(prop).rotate_left(17) ^ run_index.wrapping_mul(0xD6E8_FEB8_6659_FD93);
    splitmix64(&mut x)
}

impl Rng {
    pub fn new(seed: u64) -> Self {
        let mut x = seed;
        let s = [
            splitmix64(&mut x),
            splitmix64(&mut x),
            splitmix64(&mut x),
            splitmix64(&mut x),
        ];
        Self { s }
    }

    pub fn next_u64(&mut self) -> u64 {
        let result = self.s[1].wrapping_mul(5).rotate_left(7).wrapping_mul(9);
        let t = self.s[1] << 17;
        self.s[2] ^= self.s[0];
        self.s[3] ^= self.s[1];
        self.s[1] ^= self.s[2];
        self.s[0] ^= self.s[3];
        self.s[2] ^= t;
        self.s[3] = self.s[3].rotate_left(45);
        result
    }

    /// Uniform in 0..n (n > 0).
    pub fn below(&mut self, n: u64) -> u64 {
        debug_assert!(n > 0);
        // Multiply-shift; bias is negligible for simulation purposes and deterministic.
        ((u128::from(self.next_u64()) * u128::from(n)) >> 64) as u64
    }

    pub fn usize_below(&mut self, n: usize) -> usize {
        self.below(n as u64) as usize
    }

    /// Uniform in lo..=hi.
    pub fn range(&mut self, lo: u64, hi: u64) -> u64 {
        debug_assert!(lo <= hi);
        lo + self.below(hi - lo + 1)
    }

    pub fn urange(&mut self, lo: usize, hi: usize) -> usize {
        self.range(lo as u64, hi as u64) as usize
    }

    /// True with probability num/den.
    pub fn chance(&mut self, num: u64, den: u64) -> bool {
        self.below(den) < num
    }

    pub fn pick<'a, T>(&mut self, xs: &'a [T]) -> &'a T {
        &xs[self.usize_below(xs.len())]
    }

    pub fn shuffle<T>(&mut self, xs: &mut [T]) {
        for i in (1..xs.len()).rev() {
            let j = self.usize_below(i + 1);
            xs.swap(i, j);
        }
    }

    pub fn bytes(&mut self, n: usize) -> Vec<u8> {
        (0..n).map(|_| self.next_u64() as u8).collect()
    }

    /// Weighted index choice.
    pub fn weighted(&mut self, weights: &[u32]) -> usize {
        let total: u64 = weights.iter().map(|w| u64::from(*w)).sum();
        let mut x = self.below(total.max(1));
        for (i, w) in weights.iter().enumerate() {
            let w = u64::from(*w);
            if x < w {
                return i;
            }
            x -= w;
        }
        weights.len() - 1
    }

    pub fn fork(&mut self) -> Rng {
        Rng::new(self.next_u64())
    }
}
