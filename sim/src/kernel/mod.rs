//! Simulation kernel: scenario trait, batch runner, shrinker, replay files,
//! known-findings protocol and evidence writer.

pub mod rng;

use std::collections::{BTreeMap, BTreeSet};
use std::panic::{catch_unwind, AssertUnwindSafe};
use std::path::{Path, PathBuf};
use std::sync::atomic::{AtomicBool, AtomicU64, Ordering};
use std::sync::Mutex;
use std::time::Instant;

use serde::de::DeserializeOwned;
use serde::{Deserialize, Serialize};

pub use rng::Rng;

pub const DEFAULT_SEED: u64 = 20_260_923;

#[derive(Clone, Copy, Debug, PartialEq, Eq, Serialize, Deserialize)]
pub enum Tier {
    Quick,
    Thorough,
}

impl Tier {
    pub fn name(self) -> &'static str {
        match self {
            Tier::Quick => "quick",
            Tier::Thorough => "thorough",
        }
    }
}

/// Result of executing one scenario.
#[derive(Clone, Debug, PartialEq, Eq, Serialize, Deserialize)]
pub enum Outcome {
    Ok,
    Violation { class: String, detail: String },
}

impl Outcome {
    pub fn violation(class: impl Into<String>, detail: impl Into<String>) -> Self {
        Outcome::Violation {
            class: class.into(),
            detail: detail.into(),
        }
    }
    pub fn class(&self) -> Option<&str> {
        match self {
            Outcome::Ok => None,
            Outcome::Violation { class, .. } => Some(class),
        }
    }
}

/// Convenience: `check!(ctx-free)` style early return helper.
#[macro_export]
macro_rules! ensure {
    ($cond:expr, $class:expr, $($fmt:tt)*) => {
        if !($cond) {
            return $crate::kernel::Outcome::violation($class, format!($($fmt)*));
        }
    };
}

/// Per-run context: counters (fault kinds fired, reach probes, logical time),
/// non-triviality signature and a trace digest used by the determinism selftest.
pub struct RunCtx {
    pub stats: BTreeMap<String, u64>,
    pub signatures: Vec<u64>,
    trace: blake3::Hasher,
    pub scratch: Option<PathBuf>,
    pub tier: Tier,
}

impl RunCtx {
    pub fn new(tier: Tier) -> Self {
        Self {
            stats: BTreeMap::new(),
            signatures: Vec::new(),
            trace: blake3::Hasher::new(),
            scratch: None,
            tier,
        }
    }
    /// Increment a counter.
    pub fn count(&mut self, key: &str, n: u64) {
        *self.stats.entry(key.to_owned()).or_insert(0) += n;
    }
    pub fn hit(&mut self, key: &str) {
        self.count(key, 1);
    }
    /// Record bytes into the trace digest (event log of the run).
    pub fn trace(&mut self, bytes: &[u8]) {
        self.trace.update(&(bytes.len() as u64).to_le_bytes());
        self.trace.update(bytes);
    }
    pub fn trace_str(&mut self, s: &str) {
        self.trace(s.as_bytes());
    }
    /// Mark the run as non-trivial with a signature; distinct signatures are counted.
    pub fn nontrivial(&mut self, sig: &[u8]) {
        let h = blake3::hash(sig);
        let mut b = [0u8; 8];
        b.copy_from_slice(&h.as_bytes()[..8]);
        self.signatures.push(u64::from_le_bytes(b));
    }
    pub fn trace_digest(&self) -> [u8; 32] {
        *self.trace.clone().finalize().as_bytes()
    }
    /// Per-run scratch directory on tmpfs (created lazily).
    pub fn scratch_dir(&mut self) -> PathBuf {
        if let Some(p) = &self.scratch {
            return p.clone();
        }
        static COUNTER: AtomicU64 = AtomicU64::new(0);
        let base = scratch_base();
        let n = COUNTER.fetch_add(1, Ordering::Relaxed);
        let p = base.join(format!("r{n}"));
        let _ = std::fs::remove_dir_all(&p);
        std::fs::create_dir_all(&p).unwrap_or_else(|e| harness_error(&format!("scratch dir {p:?}: {e}")));
        self.scratch = Some(p.clone());
        p
    }
}

impl Drop for RunCtx {
    fn drop(&mut self) {
        if let Some(p) = &self.scratch {
            let _ = std::fs::remove_dir_all(p);
        }
    }
}

pub fn scratch_base() -> PathBuf {
    let root = if Path::new("/dev/shm").is_dir() {
        PathBuf::from("/dev/shm")
    } else {
        std::env::temp_dir()
    };
    root.join(format!("echo-sim-{}", std::process::id()))
}

pub fn harness_error(msg: &str) -> ! {
    eprintln!("HARNESS-ERROR: {msg}");
    let _ = std::fs::remove_dir_all(scratch_base());
    std::process::exit(2);
}

/// One property's simulated scenario: all choices are data.
pub trait Scenario: Serialize + DeserializeOwned + Clone + Send + Sync + 'static {
    /// Draw a scenario. The PRNG is consumed only here.
    fn generate(rng: &mut Rng, tier: Tier, avoid_known: bool) -> Self;
    /// Pure function of `self` and the code under test.
    fn execute(&self, ctx: &mut RunCtx) -> Outcome;
    /// Structure-aware smaller variants.
    fn shrink_candidates(&self) -> Vec<Self> {
        Vec::new()
    }
    /// Compact description for evidence samples.
    fn sample(&self) -> serde_json::Value {
        let v = serde_json::to_value(self).unwrap_or(serde_json::Value::Null);
        truncate_json(v, 0)
    }
}

fn truncate_json(v: serde_json::Value, depth: usize) -> serde_json::Value {
    use serde_json::Value;
    match v {
        Value::Array(a) => {
            let n = a.len();
            let keep = if depth == 0 { 12 } else { 6 };
            let mut out: Vec<Value> = a.into_iter().take(keep).map(|x| truncate_json(x, depth + 1)).collect();
            if n > keep {
                out.push(Value::String(format!("… {} more", n - keep)));
            }
            Value::Array(out)
        }
        Value::Object(m) => Value::Object(m.into_iter().map(|(k, x)| (k, truncate_json(x, depth + 1))).collect()),
        Value::String(s) if s.len() > 96 => Value::String(format!("{}…({} chars)", &s[..96], s.len())),
        other => other,
    }
}

/// Static description of a property check.
#[derive(Clone, Debug)]
pub struct PropertySpec {
    pub id: &'static str,
    pub level: &'static str,
    pub rule: &'static str,
    pub quick_runs: u64,
    pub thorough_runs: u64,
    pub real_components: &'static [&'static str],
    pub stub_components: &'static [&'static str],
    pub assumptions: &'static [&'static str],
    /// Fault kinds this property injects (keys under stats prefix `fault.`); empty if none apply.
    pub fault_kinds: &'static [&'static str],
}

#[derive(Clone, Debug)]
pub struct Options {
    pub tier: Tier,
    pub seed: u64,
    pub runs: Option<u64>,
    pub jobs: usize,
    pub replay: Option<PathBuf>,
    pub verif_root: PathBuf,
    pub max_wall_s: Option<f64>,
    pub write_evidence: bool,
    /// Build variant label (thorough tier runs extra build profiles); evidence goes to <ID>.<variant>.json.
    pub variant: Option<String>,
}

#[derive(Clone, Debug, Serialize, Deserialize)]
pub struct KnownFinding {
    pub property: String,
    /// "open" (suppresses exactly this class, prints KNOWN-FINDING) or "fixed" (suppresses nothing).
    pub status: String,
    /// Violation class (exact match).
    pub class: String,
    pub what: String,
    #[serde(default)]
    pub commit: Option<String>,
    /// Replay file (relative to /verif) that demonstrates the finding.
    #[serde(default)]
    pub replay: Option<String>,
}

pub fn load_known_findings(root: &Path) -> Vec<KnownFinding> {
    let p = root.join("known_findings.json");
    match std::fs::read(&p) {
        Ok(bytes) => {
            #[derive(Deserialize)]
            struct File {
                findings: Vec<KnownFinding>,
            }
            match serde_json::from_slice::<File>(&bytes) {
                Ok(f) => f.findings,
                Err(e) => harness_error(&format!("known_findings.json: {e}")),
            }
        }
        Err(_) => Vec::new(),
    }
}

#[derive(Serialize, Deserialize)]
pub struct ReplayFile<S> {
    pub property: String,
    pub verif_seed: u64,
    pub run_index: u64,
    pub class: String,
    pub detail: String,
    pub shrink_steps: u64,
    pub scenario: S,
}

struct RunResult {
    outcome: Outcome,
    stats: BTreeMap<String, u64>,
    signatures: Vec<u64>,
    digest: [u8; 32],
}

fn panic_message(p: &(dyn std::any::Any + Send)) -> String {
    if let Some(s) = p.downcast_ref::<&str>() {
        (*s).to_owned()
    } else if let Some(s) = p.downcast_ref::<String>() {
        s.clone()
    } else {
        "non-string panic payload".to_owned()
    }
}

pub fn catch<R>(f: impl FnOnce() -> R) -> Result<R, String> {
    catch_unwind(AssertUnwindSafe(f)).map_err(|p| panic_message(&*p))
}

fn execute_caught<S: Scenario>(s: &S, tier: Tier) -> RunResult {
    let mut ctx = RunCtx::new(tier);
    let outcome = match catch_unwind(AssertUnwindSafe(|| s.execute(&mut ctx))) {
        Ok(o) => o,
        Err(p) => {
            let msg = panic_message(&*p);
            let first = msg.lines().next().unwrap_or("").chars().take(80).collect::<String>();
            Outcome::violation(format!("uncaught_panic:{first}"), msg)
        }
    };
    ctx.trace_str(&format!("{outcome:?}"));
    RunResult {
        outcome,
        stats: std::mem::take(&mut ctx.stats),
        signatures: std::mem::take(&mut ctx.signatures),
        digest: ctx.trace_digest(),
    }
}

fn gen_scenario<S: Scenario>(spec: &PropertySpec, opts: &Options, i: u64) -> S {
    let seed = rng::run_seed(opts.seed, spec.id, i);
    let mut rng = Rng::new(seed);
    // Half of the runs steer around shapes of listed open findings (masking rule, DESIGN §7).
    let avoid = i % 2 == 1;
    S::generate(&mut rng, opts.tier, avoid)
}

/// Greedy shrinking while the same violation class persists.
fn shrink<S: Scenario>(start: S, class: &str, tier: Tier) -> (S, Outcome, u64) {
    let t0 = Instant::now();
    let mut best = start;
    let mut best_outcome = execute_caught(&best, tier).outcome;
    let mut execs = 0u64;
    let mut steps = 0u64;
    'outer: loop {
        if execs > 2000 || t0.elapsed().as_secs_f64() > 60.0 {
            break;
        }
        for cand in best.shrink_candidates() {
            execs += 1;
            let r = execute_caught(&cand, tier);
            if r.outcome.class() == Some(class) {
                best = cand;
                best_outcome = r.outcome;
                steps += 1;
                continue 'outer;
            }
            if execs > 2000 || t0.elapsed().as_secs_f64() > 60.0 {
                break 'outer;
            }
        }
        break;
    }
    (best, best_outcome, steps)
}

pub fn json_size<S: Serialize>(s: &S) -> usize {
    serde_json::to_vec(s).map(|v| v.len()).unwrap_or(usize::MAX)
}

/// Entry point used by every property module.
pub fn run_property<S: Scenario>(spec: &PropertySpec, opts: &Options) -> i32 {
    if let Some(path) = &opts.replay {
        return replay_file::<S>(spec, opts, path);
    }
    let known = load_known_findings(&opts.verif_root);
    let open_classes: BTreeSet<String> = known
        .iter()
        .filter(|k| k.property == spec.id && k.status == "open")
        .map(|k| k.class.clone())
        .collect();

    let total = opts.runs.unwrap_or(match opts.tier {
        Tier::Quick => spec.quick_runs,
        Tier::Thorough => spec.thorough_runs,
    });
    let t0 = Instant::now();
    let next = AtomicU64::new(0);
    let stop = AtomicBool::new(false);
    let results: Mutex<BTreeMap<u64, RunResult>> = Mutex::new(BTreeMap::new());
    let jobs = opts.jobs.max(1);
    std::thread::scope(|sc| {
        for _ in 0..jobs {
            sc.spawn(|| loop {
                if stop.load(Ordering::Relaxed) {
                    break;
                }
                let i = next.fetch_add(1, Ordering::Relaxed);
                if i >= total {
                    break;
                }
                if let Some(max) = opts.max_wall_s {
                    if t0.elapsed().as_secs_f64() > max {
                        stop.store(true, Ordering::Relaxed);
                        break;
                    }
                }
                let s: S = gen_scenario(spec, opts, i);
                let r = execute_caught(&s, opts.tier);
                let mut g = results.lock().unwrap_or_else(|p| p.into_inner());
                g.insert(i, r);
            });
        }
    });
    let results = results.into_inner().unwrap_or_else(|p| p.into_inner());
    let wall = t0.elapsed().as_secs_f64();

    // Aggregate in run-index order (independent of thread timing).
    let mut stats: BTreeMap<String, u64> = BTreeMap::new();
    let mut sigs: BTreeSet<u64> = BTreeSet::new();
    let mut first_violation: Option<(u64, Outcome)> = None;
    let mut known_hits: BTreeMap<String, u64> = BTreeMap::new();
    let mut new_violations = 0u64;
    let mut class_hist: BTreeMap<String, u64> = BTreeMap::new();
    let mut case_events = 0u64;
    let mut batch_digest = blake3::Hasher::new();
    for (i, r) in &results {
        batch_digest.update(&i.to_le_bytes());
        batch_digest.update(&r.digest);
        for (k, v) in &r.stats {
            *stats.entry(k.clone()).or_insert(0) += v;
        }
        sigs.extend(r.signatures.iter().copied());
        case_events += (r.signatures.len() as u64).max(1);
        if let Outcome::Violation { class, .. } = &r.outcome {
            *class_hist.entry(class.clone()).or_insert(0) += 1;
            if open_classes.contains(class) {
                *known_hits.entry(class.clone()).or_insert(0) += 1;
            } else {
                new_violations += 1;
                let wanted = std::env::var("VERIF_ONLY_CLASS").ok();
                if first_violation.is_none() && wanted.as_deref().is_none_or(|w| class.contains(w)) {
                    first_violation = Some((*i, r.outcome.clone()));
                }
            }
        }
    }
    let evaluations = results.len() as u64;

    // Samples: first few scenarios of the batch, regenerated from their seeds.
    let mut samples = Vec::new();
    for i in 0..evaluations.min(3) {
        let s: S = gen_scenario(spec, opts, i);
        samples.push(serde_json::json!({"run_index": i, "run_seed": rng::run_seed(opts.seed, spec.id, i), "scenario": s.sample()}));
    }

    let mut exit = 0;
    let mut replay_path: Option<PathBuf> = None;
    if let Some((i, outcome)) = &first_violation {
        let class = outcome.class().unwrap_or("").to_owned();
        let s: S = gen_scenario(spec, opts, *i);
        let before = json_size(&s);
        let (min, min_outcome, steps) = shrink(s, &class, opts.tier);
        let after = json_size(&min);
        let detail = match &min_outcome {
            Outcome::Violation { detail, .. } => detail.clone(),
            Outcome::Ok => String::new(),
        };
        let dir = opts.verif_root.join("replays").join(spec.id);
        let _ = std::fs::create_dir_all(&dir);
        let path = dir.join(format!("{}-{}.json", opts.seed, i));
        let file = ReplayFile {
            property: spec.id.to_owned(),
            verif_seed: opts.seed,
            run_index: *i,
            class: class.clone(),
            detail: detail.clone(),
            shrink_steps: steps,
            scenario: min.clone(),
        };
        match serde_json::to_vec_pretty(&file) {
            Ok(bytes) => {
                if let Err(e) = std::fs::write(&path, bytes) {
                    harness_error(&format!("cannot write replay {path:?}: {e}"));
                }
            }
            Err(e) => harness_error(&format!("cannot serialise replay: {e}")),
        }
        // Confirm the replay in-process from the file bytes (fresh deserialisation).
        let confirm = load_replay::<S>(&path);
        let r = execute_caught(&confirm.scenario, opts.tier);
        if r.outcome.class() != Some(class.as_str()) {
            harness_error(&format!(
                "replay mismatch for {}: expected class {class}, got {:?}",
                path.display(),
                r.outcome
            ));
        }
        eprintln!(
            "violation class={class} run_index={i} shrunk {before}->{after} bytes in {steps} steps\n  detail: {}",
            detail.lines().take(12).collect::<Vec<_>>().join("\n  ")
        );
        println!("VIOLATION property={} replay={}", spec.id, path.display());
        replay_path = Some(path);
        exit = 1;
    }

    // Known findings: re-execute each listed open finding's replay; print the line if it still reproduces.
    let mut known_lines = Vec::new();
    for k in known.iter().filter(|k| k.property == spec.id && k.status == "open") {
        let mut reproduced = known_hits.get(&k.class).copied().unwrap_or(0) > 0;
        if let Some(rp) = &k.replay {
            let p = opts.verif_root.join(rp);
            if let Some(f) = try_load_replay::<S>(&p) {
                let r = execute_caught(&f.scenario, opts.tier);
                match r.outcome.class() {
                    Some(c) if c == k.class => reproduced = true,
                    Some(c) if !open_classes.contains(c) => {
                        // The listed scenario now fails differently: that is a new violation.
                        println!("VIOLATION property={} replay={}", spec.id, p.display());
                        exit = 1;
                        new_violations += 1;
                    }
                    _ => {}
                }
            }
        }
        if reproduced {
            println!("KNOWN-FINDING: property={} {}", spec.id, k.what);
            known_lines.push(k.what.clone());
        } else {
            eprintln!("note: listed finding no longer reproduces: {} ({})", k.class, k.what);
        }
    }

    // Fixed findings suppress nothing: their recorded scenarios are re-executed as regressions and
    // any violation they show is reported again.
    let mut regressions_checked = 0u64;
    for k in known.iter().filter(|k| k.property == spec.id && k.status == "fixed") {
        if let Some(rp) = &k.replay {
            let p = opts.verif_root.join(rp);
            if let Some(f) = try_load_replay::<S>(&p) {
                let r = execute_caught(&f.scenario, opts.tier);
                regressions_checked += 1;
                if let Some(c) = r.outcome.class() {
                    if !open_classes.contains(c) {
                        eprintln!("fixed finding returned: class={c} scenario={}", p.display());
                        println!("VIOLATION property={} replay={}", spec.id, p.display());
                        exit = 1;
                        new_violations += 1;
                    }
                }
            }
        }
    }

    if opts.write_evidence {
        let faults: BTreeMap<&String, &u64> = stats.iter().filter(|(k, _)| k.starts_with("fault.")).collect();
        let reach: BTreeMap<&String, &u64> = stats.iter().filter(|(k, _)| k.starts_with("reach.")).collect();
        let time: BTreeMap<&String, &u64> = stats.iter().filter(|(k, _)| k.starts_with("time.")).collect();
        let other: BTreeMap<&String, &u64> = stats
            .iter()
            .filter(|(k, _)| !k.starts_with("fault.") && !k.starts_with("reach.") && !k.starts_with("time."))
            .collect();
        let runs_per_hour = if wall > 0.0 { (evaluations as f64) * 3600.0 / wall } else { 0.0 };
        let ev = serde_json::json!({
            "property_id": spec.id,
            "tier": opts.tier.name(),
            "seed": opts.seed,
            "level": spec.level,
            "coverage": {
                // cases = executions judged by the oracle; a run may contain several (one per schedule / tick /
                // state pair that was signed as non-trivial), so this is >= simulated_runs
                "evaluations": case_events.max(evaluations),
                "distinct_nontrivial": sigs.len() as u64,
                "rule": spec.rule,
                "samples": samples,
                "exhaustive": false,
                "simulated_runs": evaluations,
                "seeds": evaluations,
                "runs_per_hour": runs_per_hour.round(),
                "seeds_per_hour": runs_per_hour.round(),
                "jobs": jobs,
                "build_variant": opts.variant.clone().unwrap_or_else(|| "default (opt-level 2, debug assertions on)".to_owned()),
                "logical_time_covered": time,
                "faults_fired": faults,
                "fault_kinds_defined": spec.fault_kinds,
                "reach_probes": reach,
                "other_counters": other,
                "batch_trace_digest": hex::encode(batch_digest.finalize().as_bytes()),
                "components_real": spec.real_components,
                "components_stub": spec.stub_components,
                "known_finding_hits": known_hits,
                "violation_classes_seen": class_hist,
                "known_findings_reported": known_lines,
                "fixed_finding_regressions_rechecked": regressions_checked,
                "avoidance_mode_runs": evaluations / 2,
                "replay": replay_path.as_ref().map(|p| p.display().to_string()),
            },
            "assumptions": spec.assumptions,
            "wall_s": wall,
            "violations": new_violations,
        });
        let dir = opts.verif_root.join("evidence");
        let _ = std::fs::create_dir_all(&dir);
        let path = match &opts.variant {
            Some(v) => dir.join(format!("{}.{}.json", spec.id, v)),
            None => dir.join(format!("{}.json", spec.id)),
        };
        match serde_json::to_vec_pretty(&ev) {
            Ok(b) => {
                if let Err(e) = std::fs::write(&path, b) {
                    harness_error(&format!("cannot write evidence {path:?}: {e}"));
                }
            }
            Err(e) => harness_error(&format!("evidence json: {e}")),
        }
    }
    eprintln!(
        "{} tier={} seed={} runs={} distinct_nontrivial={} wall={:.1}s violations={} known_hits={:?} classes={:?}",
        spec.id,
        opts.tier.name(),
        opts.seed,
        evaluations,
        sigs.len(),
        wall,
        new_violations,
        known_hits,
        class_hist
    );
    let _ = std::fs::remove_dir_all(scratch_base());
    exit
}

/// Tolerant loader for recorded finding scenarios: a file written for an older scenario format is
/// skipped with a note (it never turns into an alarm or a harness error).
pub fn try_load_replay<S: Scenario>(path: &Path) -> Option<ReplayFile<S>> {
    let bytes = std::fs::read(path).ok()?;
    match serde_json::from_slice(&bytes) {
        Ok(f) => Some(f),
        Err(e) => {
            eprintln!("note: recorded scenario {} does not parse with the current format ({e}); skipped", path.display());
            None
        }
    }
}

pub fn load_replay<S: Scenario>(path: &Path) -> ReplayFile<S> {
    let bytes = std::fs::read(path).unwrap_or_else(|e| harness_error(&format!("read {path:?}: {e}")));
    serde_json::from_slice(&bytes).unwrap_or_else(|e| harness_error(&format!("parse {path:?}: {e}")))
}

fn replay_file<S: Scenario>(spec: &PropertySpec, opts: &Options, path: &Path) -> i32 {
    let f = load_replay::<S>(path);
    let r = execute_caught(&f.scenario, opts.tier);
    let r2 = execute_caught(&f.scenario, opts.tier);
    if r.digest != r2.digest || r.outcome != r2.outcome {
        harness_error("replay is not deterministic (two executions differ)");
    }
    let _ = std::fs::remove_dir_all(scratch_base());
    match &r.outcome {
        Outcome::Ok => {
            eprintln!("replay {}: no violation (recorded class was {})", path.display(), f.class);
            0
        }
        Outcome::Violation { class, detail } => {
            eprintln!("replay {}: class={class}\n  {}", path.display(), detail.lines().take(20).collect::<Vec<_>>().join("\n  "));
            let known = load_known_findings(&opts.verif_root);
            if let Some(k) = known.iter().find(|k| k.property == spec.id && k.status == "open" && &k.class == class) {
                println!("KNOWN-FINDING: property={} {}", spec.id, k.what);
                return 0;
            }
            println!("VIOLATION property={} replay={}", spec.id, path.display());
            1
        }
    }
}

/// Determinism selftest: every seed executed twice in this process; returns a digest over all
/// run digests so that separate processes / job counts can be compared by the wrapper.
pub fn selftest<S: Scenario>(spec: &PropertySpec, opts: &Options) -> i32 {
    let total = opts.runs.unwrap_or(300);
    let next = AtomicU64::new(0);
    let out: Mutex<BTreeMap<u64, [u8; 32]>> = Mutex::new(BTreeMap::new());
    let bad = AtomicU64::new(0);
    std::thread::scope(|sc| {
        for _ in 0..opts.jobs.max(1) {
            sc.spawn(|| loop {
                let i = next.fetch_add(1, Ordering::Relaxed);
                if i >= total {
                    break;
                }
                let a: S = gen_scenario(spec, opts, i);
                let b: S = gen_scenario(spec, opts, i);
                let ja = serde_json::to_vec(&a).unwrap_or_default();
                let jb = serde_json::to_vec(&b).unwrap_or_default();
                let ra = execute_caught(&a, opts.tier);
                // Round-trip through the replay encoding before the second execution.
                let b2: S = serde_json::from_slice(&jb).unwrap_or_else(|e| harness_error(&format!("scenario round-trip: {e}")));
                let rb = execute_caught(&b2, opts.tier);
                if ja != jb || ra.digest != rb.digest || ra.outcome != rb.outcome || ra.stats != rb.stats {
                    bad.fetch_add(1, Ordering::Relaxed);
                    eprintln!("NONDETERMINISM property={} run_index={i}: {:?} vs {:?}", spec.id, ra.outcome, rb.outcome);
                }
                let mut h = blake3::Hasher::new();
                h.update(&ra.digest);
                h.update(format!("{:?}{:?}", ra.outcome, ra.stats).as_bytes());
                out.lock().unwrap_or_else(|p| p.into_inner()).insert(i, *h.finalize().as_bytes());
            });
        }
    });
    let mut h = blake3::Hasher::new();
    for (i, d) in out.into_inner().unwrap_or_else(|p| p.into_inner()) {
        h.update(&i.to_le_bytes());
        h.update(&d);
    }
    println!("SELFTEST property={} runs={} digest={}", spec.id, total, hex::encode(h.finalize().as_bytes()));
    let _ = std::fs::remove_dir_all(scratch_base());
    if bad.load(Ordering::Relaxed) > 0 {
        2
    } else {
        0
    }
}
