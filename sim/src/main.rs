//! echo-sim: deterministic simulation with fault injection for flyingrobots/echo.
//! CLI: echo-sim check <ID> [--tier quick|thorough] [--seed N] [--runs N] [--jobs N] [--replay FILE] [--no-evidence]
//!      echo-sim selftest <ID> [--runs N] [--jobs N]

pub mod kernel;
pub mod model;
pub mod props;
pub mod world;

use std::path::PathBuf;

use kernel::{Options, Tier};

macro_rules! dispatch {
    ($id:expr, $mode:expr, $opts:expr, { $($name:literal => $m:ident :: $t:ident),* $(,)? }) => {
        match $id {
            $( $name => match $mode {
                Mode::Check => kernel::run_property::<props::$m::$t>(&props::$m::SPEC, $opts),
                Mode::Selftest => kernel::selftest::<props::$m::$t>(&props::$m::SPEC, $opts),
            }, )*
            other => {
                eprintln!("unknown property {other}");
                2
            }
        }
    };
}

#[derive(Clone, Copy)]
enum Mode {
    Check,
    Selftest,
}

fn main() {
    // Panics are expected inside runs (dishonest programs, injected crashes); keep stderr quiet.
    if std::env::var_os("VERIF_PANIC_TRACE").is_none() {
        std::panic::set_hook(Box::new(|_| {}));
    }
    let args: Vec<String> = std::env::args().skip(1).collect();
    if args.len() < 2 {
        eprintln!("usage: echo-sim check|selftest <ID> [options]");
        std::process::exit(2);
    }
    let mode = match args[0].as_str() {
        "check" => Mode::Check,
        "selftest" => Mode::Selftest,
        _ => {
            eprintln!("unknown command {}", args[0]);
            std::process::exit(2);
        }
    };
    let id = args[1].clone();
    let env_tier = std::env::var("VERIF_TIER").ok();
    let mut opts = Options {
        tier: if env_tier.as_deref() == Some("thorough") { Tier::Thorough } else { Tier::Quick },
        seed: std::env::var("VERIF_SEED").ok().and_then(|s| s.trim().parse::<u64>().ok()).unwrap_or(kernel::DEFAULT_SEED),
        runs: None,
        jobs: std::thread::available_parallelism().map(|n| n.get()).unwrap_or(8).min(16),
        replay: None,
        verif_root: std::env::var_os("VERIF_ROOT").map(PathBuf::from).unwrap_or_else(|| PathBuf::from("/verif")),
        max_wall_s: None,
        write_evidence: true,
        variant: None,
    };
    let mut i = 2;
    while i < args.len() {
        let need = |i: usize| -> String {
            args.get(i + 1).cloned().unwrap_or_else(|| {
                eprintln!("missing value for {}", args[i]);
                std::process::exit(2)
            })
        };
        match args[i].as_str() {
            "--tier" => {
                opts.tier = if need(i) == "thorough" { Tier::Thorough } else { Tier::Quick };
                i += 2;
            }
            "--seed" => {
                opts.seed = need(i).parse().unwrap_or(kernel::DEFAULT_SEED);
                i += 2;
            }
            "--runs" => {
                opts.runs = need(i).parse().ok();
                i += 2;
            }
            "--jobs" => {
                opts.jobs = need(i).parse().unwrap_or(1);
                i += 2;
            }
            "--max-wall" => {
                opts.max_wall_s = need(i).parse().ok();
                i += 2;
            }
            "--replay" => {
                opts.replay = Some(PathBuf::from(need(i)));
                i += 2;
            }
            "--variant" => {
                opts.variant = Some(need(i));
                i += 2;
            }
            "--no-evidence" => {
                opts.write_evidence = false;
                i += 1;
            }
            other => {
                eprintln!("unknown option {other}");
                std::process::exit(2);
            }
        }
    }
    // Thorough batches are bounded in wall-clock time as well as in runs (the evidence records the
    // runs actually made); an explicit --max-wall overrides the bound.
    if opts.tier == Tier::Thorough && opts.max_wall_s.is_none() && opts.replay.is_none() {
        opts.max_wall_s = Some(3000.0);
    }
    let code = dispatch!(id.as_str(), mode, &opts, {
        "C01" => c01::C01,
        "C02" => c02::C02,
        "C03" => c03::C03,
        "C04" => c04::C04,
        "C05" => c05::C05,
        "C06" => c06::C06,
        "C07" => c07::C07,
        "C08" => c08::C08,
        "C09" => c09::C09,
        "C10" => c10::C10,
        "C11" => c11::C11,
        "C14" => c14::C14,
        "C15" => c15::C15,
        "C16" => c16::C16,
        "C17" => c17::C17,
        "C18" => c18::C18,
        "C20" => c20::C20,
    });
    std::process::exit(code);
}
