//! C15 — speculative lanes fork faithfully and settle lawfully.
//!
//! Scheduled parties: clients delivering program-carrying intents to a base worldline ("parent",
//! lane 0) and to the child worldlines of up to three strands, one scheduler pass per `Tick` op with
//! a seeded subset of lanes, interleaved with `fork_strand` at a seeded tick of the parent history
//! (shared and author-only postures), `SettlementService::compare / plan / settle` under the
//! default and the plural policy, re-forks after settlement and support pins.
//! Faults: the H6 fail point `settlement.exec` armed at chosen steps of the settlement execution
//! (after each appended decision, after the braid-shell append), and `fork_strand` requests that
//! are rejected after provenance was already forked (duplicate strand id, posture rejection, head
//! of the wrong worldline, wrong head count) or before (existing child worldline, tick out of range).
//! Oracle: see `exec.rs` (fork faithfulness, lane isolation, plan purity, never-overwrite, imported
//! values, replayability, atomic failure).

mod exec;
mod gen;
mod slots;

use serde::{Deserialize, Serialize};

use crate::kernel::{Outcome, PropertySpec, Rng, RunCtx, Scenario, Tier};
use crate::world::prog::Prog;
use crate::world::runtime::WorldSpec;

pub const SPEC: PropertySpec = PropertySpec {
    id: "C15",
    level: "fault_enumeration",
    rule: "scenario = base worldline (1-2 heads, 2-4 data nodes, 1-3 edges) + op tape: parent history, Fork at a seeded tick (shared / author-only, optionally preceded by a rejected fork request), Tick ops delivering one program per chosen lane (parent and/or strand children; programs steered to disjoint / read-overlapping / write-overlapping same-or-different-value slot sets), Settle (default or plural policy, fail point armed at chosen execution steps before the real settle), Pin/Unpin; non-trivial = a settlement with >=1 decision was planned after both lanes ticked since the fork, or a failure was injected into a settlement with >=1 decision; distinct = hash of scenario",
    quick_runs: 6_000,
    thorough_runs: 60_000,
    real_components: &[
        "WorldlineRuntime::fork_strand / pin_support / unpin_support",
        "ProvenanceService::fork, replay_worldline_state(_at), checkpoint_for/restore, braid shell retention",
        "StrandRegistry, Strand::live_basis_report",
        "SettlementService::compare / plan / settle (+_with_policy)",
        "SchedulerCoordinator::super_tick + Engine (ticks on parent and child lanes)",
    ],
    stub_components: &["application rules: data-driven interpreter; programs are generated data"],
    assumptions: &[
        "slots a lane read/wrote are taken from in_slots/out_slots of the real tick patches; slots the parent changed additionally include every slot whose abstract value differs between the fork basis and the pre-settlement parent",
        "an entry whose ops the reference applier cannot apply to the current parent is not required to be imported even when footprints are disjoint",
        "read-overlapping entries may be imported (the statement only forbids overwriting parent changes)",
        "fail point fires inside the execution closure; the error value it returns is an existing SettlementError variant and is not interpreted",
        "a settlement may be refused as a whole (e.g. a repeated plural settlement of the same strand: PluralArtifactAlreadyBound); a refusal must leave every fingerprint unchanged; failures are injected only into settlements that succeed on copies of runtime and provenance",
        "unchanged = BLAKE3 of the {:?} text of WorldlineRuntime / ProvenanceService (private indexes included); differing top-level fields are named from the {:#?} fingerprints of world::runtime",
        "settling an author-only strand must be refused with NonSharedStrand and change nothing; compare is allowed for every posture",
    ],
    fault_kinds: &[
        "fault.settlement_failpoint.step1",
        "fault.settlement_failpoint.step2",
        "fault.settlement_failpoint.step3",
        "fault.settlement_failpoint.step4",
        "fault.settlement_failpoint.step5plus",
        "fault.settlement_failpoint.shell_step",
        "fault.fork_late_failure",
        "fault.fork_early_rejection",
    ],
};

/// One program delivered to one lane before a pass. Lane 0 is the parent, lane k >= 1 the child
/// worldline of the strand with id k.
#[derive(Clone, Debug, Serialize, Deserialize, PartialEq, Eq)]
pub struct LaneProg {
    pub lane: u8,
    /// Parent only: index of the writer head (taken modulo the number of parent heads).
    pub head: u8,
    pub kind: u8,
    pub prog: Prog,
}

#[derive(Clone, Copy, Debug, Serialize, Deserialize, PartialEq, Eq)]
pub enum ForkFault {
    /// Re-uses the id of a live strand: rejected by the very last step (after provenance fork,
    /// worldline and head registration).
    DupStrandId,
    /// Shared posture without admission scope: rejected by `Strand::new` after the provenance fork.
    BadPosture,
    /// Writer head keyed to the parent worldline (INV-S8).
    WrongHeadWorldline,
    TwoHeads,
    NoHeads,
    /// Child worldline id of a live strand (or the parent itself): rejected by the provenance fork.
    DupChildWorldline,
    /// Fork tick beyond the parent history.
    TickOutOfRange,
}

#[derive(Clone, Debug, Serialize, Deserialize, PartialEq, Eq)]
pub struct ForkOp {
    /// Strand id (>= 1), unique within the scenario.
    pub id: u8,
    /// Fork tick = tick_sel modulo the parent history length at that point.
    pub tick_sel: u16,
    pub shared: bool,
    /// A request that must be rejected, issued before the real one.
    pub fault: Option<ForkFault>,
}

#[derive(Clone, Debug, Serialize, Deserialize, PartialEq, Eq)]
pub struct SettleOp {
    pub strand: u8,
    pub plural: bool,
    /// Use `plan`/`settle` (default policy only) instead of the `_with_policy` entry points.
    pub plain_api: bool,
    /// Execution steps (modulo decisions+1) at which a failure is injected, one settle attempt each,
    /// before the real settlement.
    pub fail_steps: Vec<u8>,
}

#[derive(Clone, Debug, Serialize, Deserialize, PartialEq, Eq)]
pub enum Op {
    /// Deliver each program to its lane, then one scheduler pass.
    Tick(Vec<LaneProg>),
    Fork(ForkOp),
    Settle(SettleOp),
    Pin { owner: u8, target: u8, tick_sel: u16 },
    Unpin { owner: u8, target: u8 },
}

#[derive(Clone, Debug, Serialize, Deserialize)]
pub struct C15 {
    pub world: WorldSpec,
    pub ops: Vec<Op>,
}

impl Scenario for C15 {
    fn generate(rng: &mut Rng, tier: Tier, avoid: bool) -> Self {
        gen::generate(rng, tier, avoid)
    }

    fn execute(&self, ctx: &mut RunCtx) -> Outcome {
        exec::execute(self, ctx)
    }

    fn shrink_candidates(&self) -> Vec<Self> {
        let mut out = Vec::new();
        // drop a whole strand: its fork and every op that names it
        let strand_ids: Vec<u8> = self.ops.iter().filter_map(|o| if let Op::Fork(f) = o { Some(f.id) } else { None }).collect();
        for id in &strand_ids {
            let mut s = self.clone();
            s.ops = s
                .ops
                .into_iter()
                .filter_map(|o| match o {
                    Op::Fork(f) if f.id == *id => None,
                    Op::Settle(x) if x.strand == *id => None,
                    Op::Pin { owner, target, .. } | Op::Unpin { owner, target } if owner == *id || target == *id => None,
                    Op::Tick(mut ps) => {
                        ps.retain(|p| p.lane != *id);
                        if ps.is_empty() {
                            None
                        } else {
                            Some(Op::Tick(ps))
                        }
                    }
                    other => Some(other),
                })
                .collect();
            out.push(s);
        }
        // drop one op
        for i in 0..self.ops.len() {
            let mut s = self.clone();
            s.ops.remove(i);
            out.push(s);
        }
        for (oi, op) in self.ops.iter().enumerate() {
            match op {
                Op::Fork(f) => {
                    if f.fault.is_some() {
                        let mut s = self.clone();
                        if let Op::Fork(x) = &mut s.ops[oi] {
                            x.fault = None;
                        }
                        out.push(s);
                    }
                    if f.tick_sel > 0 {
                        let mut s = self.clone();
                        if let Op::Fork(x) = &mut s.ops[oi] {
                            x.tick_sel = 0;
                        }
                        out.push(s);
                    }
                }
                Op::Settle(x) => {
                    if !x.fail_steps.is_empty() {
                        let mut s = self.clone();
                        if let Op::Settle(y) = &mut s.ops[oi] {
                            y.fail_steps.clear();
                        }
                        out.push(s);
                        if x.fail_steps.len() > 1 {
                            for k in 0..x.fail_steps.len() {
                                let mut s = self.clone();
                                if let Op::Settle(y) = &mut s.ops[oi] {
                                    y.fail_steps.remove(k);
                                }
                                out.push(s);
                            }
                        }
                    }
                    if x.plural {
                        let mut s = self.clone();
                        if let Op::Settle(y) = &mut s.ops[oi] {
                            y.plural = false;
                        }
                        out.push(s);
                    }
                }
                Op::Tick(ps) => {
                    if ps.len() > 1 {
                        for k in 0..ps.len() {
                            let mut s = self.clone();
                            if let Op::Tick(y) = &mut s.ops[oi] {
                                y.remove(k);
                            }
                            out.push(s);
                        }
                    }
                    for (pi, p) in ps.iter().enumerate() {
                        if p.prog.steps.len() > 1 {
                            for si in 0..p.prog.steps.len() {
                                let mut s = self.clone();
                                if let Op::Tick(y) = &mut s.ops[oi] {
                                    y[pi].prog.steps.remove(si);
                                }
                                out.push(s);
                            }
                        }
                    }
                }
                Op::Pin { .. } | Op::Unpin { .. } => {}
            }
        }
        // simpler world
        if self.world.workers > 1 || self.world.legacy {
            let mut s = self.clone();
            s.world.workers = 1;
            s.world.legacy = false;
            out.push(s);
        }
        if let Some(wl) = self.world.worldlines.first() {
            if wl.heads.len() > 1 {
                let mut s = self.clone();
                s.world.worldlines[0].heads.truncate(1);
                s.world.worldlines[0].heads[0].default = true;
                out.push(s);
            }
            if let Some(inst) = wl.state.insts.first() {
                if !inst.node_atts.is_empty() || !inst.edge_atts.is_empty() {
                    let mut s = self.clone();
                    s.world.worldlines[0].state.insts[0].node_atts.clear();
                    s.world.worldlines[0].state.insts[0].edge_atts.clear();
                    out.push(s);
                }
            }
        }
        out
    }
}
