//! C14 — undeclared access never commits.
//!
//! A C01/C02 tick of honest programs plus exactly one *violator* whose declared footprint omits
//! exactly one access it performs (or that writes into another instance / emits an instance-level
//! op / additionally panics). Its scope places it at any canonical position and in any work unit;
//! worker count and claim tape (hook H1) put it on any worker. Oracle: the commit unwinds with a
//! violation naming the omitted access and nothing of the tick is visible; an omitted *write*
//! access that is not flagged is a violation exactly when the location it guards changed
//! (attribution completeness, black-box).

use serde::{Deserialize, Serialize};
use warp_core::{EdgeId, NodeId, ViolationKind};

use crate::kernel::{harness_error, Outcome, PropertySpec, Rng, RunCtx, Scenario, Tier};
use crate::model::refstate::{RefKey, RefState};
use crate::props::c01::{check_against_reference, gen_tick, knobs};
use crate::props::c02::gen_tape;
use crate::world::gen::{gen_prog, StateSpec};
use crate::world::ids;
use crate::world::prog::{Access, Decl, FpClass, Step, N};
use crate::world::rules::N_RULES;
use crate::world::tick::{ref_tick, run_tick, Cand, EngineCfg, TickResult};

pub const SPEC: PropertySpec = PropertySpec {
    id: "C14",
    level: "exploration",
    rule: "scenario = honest tick (as C01/C02) + one violator program (omits exactly one read or write access it performs / cross-instance write / instance-level op / each optionally followed by a panic) at a seeded canonical position and (instance, shard) work unit + worker count + claim tape (H1); non-trivial = the violator was accepted by the scheduler and executed next to >=1 honest accepted rewrite; distinct = (violation kind, omitted access class, position, worker that ran it, tick)",
    quick_runs: 6_000,
    thorough_runs: 300_000,
    real_components: &["footprint_guard (check_node_read/check_edge_read/check_attachment_read/check_op/op_write_targets)", "guarded GraphView", "parallel::exec::execute_item_enforced / PoisonedDelta", "Engine::commit_with_receipt merge + unwind"],
    stub_components: &["application rules: data-driven interpreter with a declared-footprint mode per program", "OS thread scheduler: claim controller baton"],
    assumptions: &["enforcement is compiled in (the simulator builds warp-core with debug assertions)", "the honest footprint derivation of the harness is the conservative reading of what each op can change in the pre-tick state"],
    fault_kinds: &["fault.undeclared_read", "fault.undeclared_write", "fault.cross_instance_write", "fault.instance_op", "fault.executor_panic"],
};

#[derive(Clone, Debug, Serialize, Deserialize, PartialEq, Eq)]
pub enum Dishonesty {
    Omit { class: FpClass, k: u8 },
    CrossWarp { w: u8 },
    InstanceOp { w: u8 },
    DeleteInstance { w: u8 },
    /// honest footprint, but the executor panics after emitting
    PanicOnly,
}

#[derive(Clone, Debug, Serialize, Deserialize)]
pub struct C14 {
    pub state: StateSpec,
    pub cands: Vec<Cand>,
    /// index into cands of the violator
    pub violator: usize,
    pub dishonesty: Dishonesty,
    pub also_panic: bool,
    pub workers: usize,
    pub tape: Vec<u16>,
    pub legacy: bool,
}

impl Scenario for C14 {
    fn generate(rng: &mut Rng, _tier: Tier, avoid: bool) -> Self {
        let n_small = rng.urange(0, 8);
        let (mut state, mut cands) = gen_tick(rng, avoid, false, n_small);
        // Large single-instance tick (1 in 50): the violator among >= 4096 honest rewrites of one
        // instance - enforcement must not depend on the size or shape of the tick.
        let huge = rng.chance(1, 50);
        if huge {
            cands.retain(|c| c.w == 0);
            let count = *rng.pick(&[4096u16, 4200, 5000]);
            let m = *rng.pick(&[1u8, 4, 16, 200]);
            state.insts[0].filler = Some((1000, count, m));
            for k in 1000..1000 + count {
                cands.push(Cand { rule: 0, w: 0, k, shard: (k % u16::from(m)) as u8 });
            }
        }
        // the violator: non-conditional program
        let mut kn = knobs(rng, avoid);
        kn.absent_16 = 0;
        kn.max_steps = rng.urange(1, 4);
        let wi = if huge { 0 } else { rng.usize_below(state.insts.len()) };
        let rule = rng.below(u64::from(N_RULES)) as u8;
        let mut prog = gen_prog(rng, &state, wi, rule, 0x4000_0000, &kn);
        prog.steps.retain(|s| !matches!(s, Step::IfEdge { .. }));
        if prog.steps.is_empty() {
            prog.steps.push(Step::ReadNode(N::D(0)));
        }
        let this_w = state.insts[wi].w;
        let other_w = (this_w + 1 + rng.below(2) as u8) % ids::N_WARPS;
        let dishonesty = match rng.weighted(&[10, 2, 1, 1, 1]) {
            0 => Dishonesty::Omit {
                class: *rng.pick(&[FpClass::NRead, FpClass::NWrite, FpClass::ERead, FpClass::EWrite, FpClass::ARead, FpClass::AWrite]),
                k: rng.below(8) as u8,
            },
            1 => Dishonesty::CrossWarp { w: other_w },
            2 => Dishonesty::InstanceOp { w: rng.below(u64::from(ids::N_WARPS)) as u8 },
            3 => Dishonesty::DeleteInstance { w: other_w },
            _ => Dishonesty::PanicOnly,
        };
        // make sure a program asked to omit a class actually performs an access of that class
        if let Dishonesty::Omit { class, .. } = &dishonesty {
            let n = N::D(rng.below(u64::from(kn.node_pool.max(1))) as u8);
            let e = rng.below(u64::from(kn.edge_pool.max(1))) as u8;
            let have = |steps: &[Step], f: &dyn Fn(&Step) -> bool| steps.iter().any(f);
            match class {
                FpClass::NRead if !have(&prog.steps, &|s| matches!(s, Step::ReadNode(_) | Step::ReadAdj(_) | Step::CountAdjInto { .. } | Step::NodeInfoInto { .. })) => prog.steps.insert(0, if rng.chance(1, 2) { Step::ReadNode(n) } else { Step::ReadAdj(n) }),
                FpClass::ERead if !have(&prog.steps, &|s| matches!(s, Step::HasEdge(_) | Step::EdgeFlagInto { .. })) => prog.steps.insert(0, Step::HasEdge(e)),
                FpClass::ARead if !have(&prog.steps, &|s| matches!(s, Step::ReadNodeAtt(_) | Step::ReadEdgeAtt(_) | Step::CopyNodeAtt { .. } | Step::CopyEdgeAttInto { .. })) => {
                    prog.steps.insert(0, if rng.chance(1, 2) { Step::ReadNodeAtt(n) } else { Step::ReadEdgeAtt(e) })
                }
                _ => {}
            }
        }
        match &dishonesty {
            Dishonesty::Omit { class, k } => prog.decl = Decl::Omit { class: *class, k: *k },
            Dishonesty::CrossWarp { w } => prog.steps.push(Step::CrossWarpUpsert { w: *w, n: N::D(0), ty: 1 }),
            Dishonesty::InstanceOp { w } => prog.steps.push(Step::InstanceOp { w: *w }),
            Dishonesty::DeleteInstance { w } => prog.steps.push(Step::DeleteInstance { w: *w }),
            Dishonesty::PanicOnly => {}
        }
        let also_panic = matches!(dishonesty, Dishonesty::PanicOnly) || rng.chance(1, 4);
        if also_panic {
            prog.steps.push(Step::Panic);
        }
        let k = 500 + rng.below(200) as u16;
        let shard = rng.below(4) as u8;
        state.insts[wi].progs.push((k, shard, prog));
        cands.push(Cand { rule, w: this_w, k, shard });
        let violator = cands.len() - 1;
        let workers = rng.urange(1, 4);
        let tape = gen_tape(rng, workers, cands.len() + workers + 1);
        C14 { state, cands, violator, dishonesty, also_panic, workers, tape, legacy: rng.chance(1, 6) }
    }

    fn execute(&self, ctx: &mut RunCtx) -> Outcome {
        let pre = match self.state.build_ref() {
            Ok(p) => p,
            Err(e) => return Outcome::violation("harness:ref_state_build", e),
        };
        let reference = ref_tick(&pre, &self.cands);
        let Some(vc) = self.cands.get(self.violator) else { return Outcome::Ok };
        let vpos = reference.order.iter().position(|c| c.cand == *vc);
        let v_accepted = vpos.is_some_and(|p| reference.accepted[p]);
        let arrival: Vec<usize> = (0..self.cands.len()).collect();
        let cfg = EngineCfg { legacy_scheduler: self.legacy, workers: self.workers, rule_order: (0..N_RULES).collect(), other_tx: vec![] };
        let obs = match run_tick(&self.state, &self.cands, &arrival, &cfg, if self.workers > 1 { Some(&self.tape) } else { None }) {
            Ok(o) => o,
            Err(e) => return Outcome::violation("state_construction_failed", e),
        };
        if obs.overlap {
            harness_error("claim controller overlap");
        }
        ctx.count("time.ticks", 1);
        ctx.trace_str(&format!("{:?}", obs.claim_log));
        if !v_accepted {
            // The violator never executes: the tick must behave like an honest tick.
            ctx.hit("reach.violator_not_admitted");
            if reference.post.is_err() {
                return Outcome::Ok;
            }
            return match check_against_reference(&pre, &reference, &obs, ctx) {
                Ok(()) => Outcome::Ok,
                Err(v) => v,
            };
        }
        let vref = &reference.order[vpos.unwrap_or(0)];
        let honest_accepted = reference.accepted.iter().filter(|a| **a).count().saturating_sub(1);
        // which dishonesty actually takes effect?
        let expected: Expected = match &self.dishonesty {
            Dishonesty::Omit { .. } => match vref.omitted {
                None => Expected::NothingWrong,
                Some(a) => Expected::Omitted(a),
            },
            Dishonesty::CrossWarp { w } => Expected::Kind(format!("{:?}", ViolationKind::CrossWarpEmission { op_warp: ids::warp(*w) })),
            Dishonesty::InstanceOp { .. } | Dishonesty::DeleteInstance { .. } => Expected::Kind(format!("{:?}", ViolationKind::UnauthorizedInstanceOp)),
            Dishonesty::PanicOnly => Expected::NothingWrong,
        };
        match &expected {
            Expected::Omitted(a) => match a.class() {
                FpClass::NRead | FpClass::ERead | FpClass::ARead => ctx.hit("fault.undeclared_read"),
                _ => ctx.hit("fault.undeclared_write"),
            },
            Expected::Kind(k) if k.starts_with("CrossWarp") => ctx.hit("fault.cross_instance_write"),
            Expected::Kind(_) => ctx.hit("fault.instance_op"),
            Expected::NothingWrong => {}
        }
        if self.also_panic {
            ctx.hit("fault.executor_panic");
        }
        if honest_accepted >= 1 {
            let worker = obs.claim_log.iter().flatten().next().copied().unwrap_or(0);
            let sig = format!("{:?}|{:?}|{}|{}|{}", self.dishonesty, vref.omitted.map(|a| a.class()), vpos.unwrap_or(0), worker, serde_json::to_string(&self.cands).unwrap_or_default());
            ctx.nontrivial(sig.as_bytes());
        }
        if self.workers > 1 {
            ctx.hit("reach.violator_with_parallel_workers");
        }
        let unchanged = obs.post == pre;
        if matches!(obs.result, TickResult::ValidatorDisagreement(_)) {
            ctx.hit("reach.incrate_validator_disagreement");
            return Outcome::Ok;
        }
        match (&expected, &obs.result) {
            // --- must be flagged ---
            (Expected::Kind(k), TickResult::Violation { kind, .. }) => {
                if kind != k {
                    return Outcome::violation("wrong_violation_reported", format!("expected {k}, got {kind}"));
                }
                if !unchanged {
                    return Outcome::violation("failed_tick_visible", "state changed although the commit unwound".to_owned());
                }
                Outcome::Ok
            }
            (Expected::Kind(k), other) => Outcome::violation("illegal_op_not_flagged", format!("expected violation {k}, got {}", short(other))),
            (Expected::Omitted(a), TickResult::Violation { kind, with_panic }) => {
                let exp = expected_kind(a);
                if *kind != exp {
                    return Outcome::violation("wrong_violation_reported", format!("omitted {a:?}: expected {exp}, got {kind}"));
                }
                let is_write = matches!(a.class(), FpClass::NWrite | FpClass::EWrite | FpClass::AWrite);
                if is_write && self.also_panic != *with_panic {
                    return Outcome::violation("panic_payload_lost", format!("also_panic={} but with_panic={with_panic}", self.also_panic));
                }
                if !unchanged {
                    return Outcome::violation("failed_tick_visible", "state changed although the commit unwound".to_owned());
                }
                Outcome::Ok
            }
            (Expected::Omitted(a), TickResult::Committed(_)) => {
                let is_write = matches!(a.class(), FpClass::NWrite | FpClass::EWrite | FpClass::AWrite);
                if !is_write {
                    return Outcome::violation(format!("undeclared_read_committed:{:?}", a.class()), format!("omitted {a:?} was read and the tick committed"));
                }
                // Attribution completeness: a missing write declaration that is not demanded is a
                // violation exactly when the guarded location's observable content changed.
                if location_changed(a, vc, &pre, &obs.post) {
                    let shape = if is_prev_source_only(a, vref, vc) { "reparent_previous_source" } else { "other" };
                    Outcome::violation(
                        format!("undeclared_write_committed:{:?}:{shape}", a.class()),
                        format!("omitted {a:?}; the tick committed and the guarded location changed"),
                    )
                } else {
                    ctx.hit("reach.unflagged_write_on_unchanged_location");
                    Outcome::Ok
                }
            }
            (Expected::Omitted(a), TickResult::Panic(_)) if self.also_panic && is_prev_source_only(a, vref, vc) => {
                // The guard does not demand the previous source node of a re-parented edge (see the
                // `reparent_previous_source` class); here the program's own panic failed the tick, so
                // nothing was committed and nothing is violated in this run.
                ctx.hit("reach.prev_source_omission_hidden_by_panic");
                if !unchanged {
                    return Outcome::violation("failed_tick_visible", "state changed although the commit unwound (panic)".to_owned());
                }
                Outcome::Ok
            }
            (Expected::Omitted(a), TickResult::Panic(p)) => {
                // acceptable only if the program panics by itself before performing the access: our Panic step is last,
                // so a bare panic means the violation was lost.
                Outcome::violation("violation_lost_behind_panic", format!("omitted {a:?}; got bare panic {p}"))
            }
            (Expected::Omitted(a), TickResult::EngineErr(e)) => {
                // The merged ops may legitimately fail to apply only if the reference says so.
                if reference.post.is_err() {
                    ctx.hit("reach.violator_tick_errors_anyway");
                    Outcome::Ok
                } else {
                    Outcome::violation("undeclared_access_not_flagged", format!("omitted {a:?}; engine returned {e}"))
                }
            }
            // --- nothing wrong with the footprint ---
            (Expected::NothingWrong, TickResult::Violation { kind, .. }) => Outcome::violation("honest_program_flagged", format!("no access omitted, but flagged: {kind}")),
            (Expected::NothingWrong, TickResult::Panic(_)) => {
                if !self.also_panic {
                    return Outcome::violation("commit_panicked", format!("{}", short(&obs.result)));
                }
                if !unchanged {
                    return Outcome::violation("failed_tick_visible", "state changed although the commit unwound (panic)".to_owned());
                }
                Outcome::Ok
            }
            (_, TickResult::ValidatorDisagreement(_)) => Outcome::Ok,
            (Expected::NothingWrong, _) => {
                if self.also_panic {
                    return Outcome::violation("executor_panic_swallowed", format!("program panics but commit returned {}", short(&obs.result)));
                }
                if reference.post.is_err() {
                    return Outcome::Ok;
                }
                match check_against_reference(&pre, &reference, &obs, ctx) {
                    Ok(()) => Outcome::Ok,
                    Err(v) => v,
                }
            }
        }
    }

    fn shrink_candidates(&self) -> Vec<Self> {
        let mut out = Vec::new();
        // large ticks: drop halves / quarters of the other candidates first
        if self.cands.len() > 32 {
            let others: Vec<usize> = (0..self.cands.len()).filter(|i| *i != self.violator).collect();
            for parts in [2usize, 4, 8] {
                let chunk = others.len().div_ceil(parts);
                for c in others.chunks(chunk.max(1)) {
                    let drop: std::collections::BTreeSet<usize> = c.iter().copied().collect();
                    let mut s = self.clone();
                    s.cands = self.cands.iter().enumerate().filter(|(i, _)| !drop.contains(i)).map(|(_, c)| c.clone()).collect();
                    s.violator = self.violator - drop.iter().filter(|i| **i < self.violator).count();
                    out.push(s);
                }
            }
        }
        for ci in 0..self.cands.len() {
            if ci == self.violator {
                continue;
            }
            let mut s = self.clone();
            s.cands.remove(ci);
            if ci < s.violator {
                s.violator -= 1;
            }
            out.push(s);
        }
        if self.workers > 1 {
            let mut s = self.clone();
            s.workers = 1;
            out.push(s);
        }
        if self.also_panic && !matches!(self.dishonesty, Dishonesty::PanicOnly) {
            let mut s = self.clone();
            s.also_panic = false;
            for inst in &mut s.state.insts {
                for (_, _, p) in &mut inst.progs {
                    if p.nonce == 0x4000_0000 {
                        p.steps.retain(|st| !matches!(st, Step::Panic));
                    }
                }
            }
            out.push(s);
        }
        for (ii, inst) in self.state.insts.iter().enumerate() {
            for (pi, (_, _, p)) in inst.progs.iter().enumerate() {
                if p.steps.len() > 1 {
                    for si in 0..p.steps.len() {
                        if matches!(p.steps[si], Step::Panic | Step::CrossWarpUpsert { .. } | Step::InstanceOp { .. } | Step::DeleteInstance { .. }) {
                            continue;
                        }
                        let mut s = self.clone();
                        s.state.insts[ii].progs[pi].2.steps.remove(si);
                        out.push(s);
                    }
                }
            }
        }
        for ii in 0..self.state.insts.len() {
            let mut s = self.clone();
            if s.state.insts[ii].edge_atts.pop().is_some() {
                out.push(s);
            }
            let mut s = self.clone();
            if s.state.insts[ii].node_atts.pop().is_some() {
                out.push(s);
            }
        }
        out
    }
}

enum Expected {
    NothingWrong,
    Omitted(Access),
    Kind(String),
}

fn short(r: &TickResult) -> String {
    match r {
        TickResult::Committed(_) => "Committed".to_owned(),
        other => format!("{other:?}"),
    }
}

fn expected_kind(a: &Access) -> String {
    let k = match a {
        Access::NRead(n) => ViolationKind::NodeReadNotDeclared(*n),
        Access::NWrite(n) => ViolationKind::NodeWriteNotDeclared(*n),
        Access::ERead(e) => ViolationKind::EdgeReadNotDeclared(*e),
        Access::EWrite(e) => ViolationKind::EdgeWriteNotDeclared(*e),
        Access::ARead(k) => ViolationKind::AttachmentReadNotDeclared(*k),
        Access::AWrite(k) => ViolationKind::AttachmentWriteNotDeclared(*k),
    };
    format!("{k:?}")
}

/// Did the observable content guarded by write access `a` change between `pre` and `post`?
/// NWrite(n): node record or out-adjacency of n; EWrite(e): edge record/existence; AWrite(k): attachment.
fn location_changed(a: &Access, vc: &Cand, pre: &RefState, post: &RefState) -> bool {
    let w = ids::warp(vc.w).0;
    let (Some(p), Some(q)) = (pre.inst.get(&w), post.inst.get(&w)) else { return true };
    match a {
        Access::NWrite(NodeId(n)) => {
            let adj = |i: &crate::model::refstate::RefInst| -> Vec<([u8; 32], [u8; 32], [u8; 32])> {
                i.edges.iter().filter(|(_, (f, _, _))| f == n).map(|(id, (_, t, ty))| (*id, *t, *ty)).collect()
            };
            p.nodes.get(n) != q.nodes.get(n) || adj(p) != adj(q)
        }
        Access::EWrite(EdgeId(e)) => p.edges.get(e) != q.edges.get(e),
        Access::AWrite(k) => match crate::model::refstate::key_of(k) {
            Ok(RefKey::Node(_, n)) => p.node_att.get(&n) != q.node_att.get(&n),
            Ok(RefKey::Edge(_, e)) => p.edge_att.get(&e) != q.edge_att.get(&e),
            Err(_) => true,
        },
        _ => false,
    }
}

/// True when the omitted NWrite is only there because an upsert re-parents an existing edge away
/// from that node (the guard attributes `record.from` and the edge id only).
fn is_prev_source_only(a: &Access, vref: &crate::world::tick::RefCand, vc: &Cand) -> bool {
    let Access::NWrite(n) = a else { return false };
    let w = ids::warp(vc.w);
    let none = |_: &EdgeId| None;
    let without_prev = crate::world::prog::honest_accesses(&vref.prog, w, &vc.scope(), &none, false);
    !without_prev.contains(&Access::NWrite(*n))
}
