//! C06 — the state root commits to exactly the reachable state.
//!
//! The simulator's contribution here is the *construction-history* dimension: the same abstract
//! state is reached through different op orders / storage layouts (shuffled single-op application
//! with junk inserted and removed, same-id edge migrations), and related states are produced by
//! chains of single semantic edits. Oracles: (a) the engine's two state-root implementations agree
//! on every state, also after applying op lists to the columnar accumulator (hook H4); (b) equal
//! reachable projections ⇔ equal roots across all states of the run; (c) columnar snapshot bytes are
//! layout-independent and read back to the same state.

use std::collections::BTreeMap;

use serde::{Deserialize, Serialize};
use warp_core::wsc::{build_one_warp_input, validate_wsc, write_wsc_one_warp, WscFile};
use warp_core::{NodeKey, WarpState};

use crate::kernel::{catch, Outcome, PropertySpec, Rng, RunCtx, Scenario, Tier};
use crate::model::refstate::{abs, RefAtt, RefState};
use crate::world::gen::{gen_state, StateSpec};
use crate::world::ids;
use crate::world::states::{build_shuffled, build_with_migrations, edit_spec, state_root};

pub const SPEC: PropertySpec = PropertySpec {
    id: "C06",
    level: "exploration",
    rule: "scenario = base multi-instance state + chain of 1-8 single semantic edits (reachable or unreachable: node/edge type, edge target/source, attachment type/bytes/presence, portal open, instance delete) + 2-4 construction histories per state (canonical patches, shuffled single-op application with junk, same-id edge migrations); non-trivial = >=2 distinct reachable projections in the run; distinct = hash of scenario",
    quick_runs: 12_000,
    thorough_runs: 600_000,
    real_components: &["snapshot::compute_state_root (via WorldlineState::state_root)", "snapshot_accum::SnapshotAccumulator from_warp_state/apply_ops/build (H4)", "tick_patch::diff_state (H3) as op-list source", "wsc::build_one_warp_input / write_wsc_one_warp / WscFile::from_bytes / validate_wsc", "GraphStore"],
    stub_components: &[],
    assumptions: &["reachability = nodes via out-edges from the root, instances via Descend attachments on reachable nodes and on edges leaving reachable nodes (merkle-commit.md)", "a 256-bit hash collision between two different generated projections is treated as impossible"],
    fault_kinds: &[],
};

#[derive(Clone, Debug, Serialize, Deserialize)]
pub struct C06 {
    pub base: StateSpec,
    /// states[i+1] = states[i] + one edit
    pub chain: Vec<StateSpec>,
    pub labels: Vec<String>,
    pub order_seeds: Vec<u64>,
}

impl Scenario for C06 {
    fn generate(rng: &mut Rng, _tier: Tier, _avoid: bool) -> Self {
        let pool = *rng.pick(&[3u8, 4, 6]);
        let base = gen_state(rng, pool);
        let mut chain = Vec::new();
        let mut labels = Vec::new();
        let mut cur = base.clone();
        for _ in 0..rng.urange(1, 8) {
            let mut trial = cur.clone();
            let l = edit_spec(rng, &mut trial);
            if l != "none" && trial.build_ref().is_ok() {
                cur = trial;
                chain.push(cur.clone());
                labels.push(l.to_owned());
            }
        }
        let order_seeds = (0..rng.urange(1, 3)).map(|_| rng.next_u64()).collect();
        C06 { base, chain, labels, order_seeds }
    }

    fn execute(&self, ctx: &mut RunCtx) -> Outcome {
        let root = self.base.root_key();
        let warps = self.base.warps();
        let mut by_root: BTreeMap<[u8; 32], RefState> = BTreeMap::new();
        let mut by_proj: Vec<(RefState, [u8; 32])> = Vec::new();
        let mut prev: Option<WarpState> = None;
        let specs: Vec<&StateSpec> = std::iter::once(&self.base).chain(self.chain.iter()).collect();
        for (si, spec) in specs.iter().enumerate() {
            let label = if si == 0 { "base" } else { self.labels.get(si - 1).map_or("edit", String::as_str) };
            let canonical = match spec.build() {
                Ok(s) => s,
                Err(e) => return Outcome::violation("state_construction_failed", e),
            };
            let reference = match spec.build_ref() {
                Ok(r) => r,
                Err(e) => return Outcome::violation("harness:ref_state_build", e),
            };
            if abs(&canonical, &warps) != reference {
                return Outcome::violation("state_construction_mismatch", format!("state #{si}"));
            }
            let r0 = match state_root(&canonical, root) {
                Ok(r) => r,
                Err(e) => return Outcome::violation("state_root_uncomputable", e),
            };
            ctx.count("time.states", 1);
            ctx.trace(&r0);
            // (a) second implementation agrees
            let acc = match catch(|| warp_core::verif::accumulator_state_root(&canonical, &root)) {
                Ok(a) => a,
                Err(p) => return Outcome::violation("accumulator_panicked", p),
            };
            if acc != r0 {
                return Outcome::violation("state_root_implementations_disagree", format!("state #{si} ({label}): store root {} accumulator root {}", hex::encode(r0), hex::encode(acc)));
            }
            // accumulator after applying the op list that leads from the previous state to this one
            if let Some(p) = &prev {
                let ops = warp_core::verif::diff_state(p, &canonical);
                let mut replay = p.clone();
                if warp_core::verif::apply_ops(&mut replay, &ops).is_ok() && abs(&replay, &warps) == reference {
                    let after = match catch(|| warp_core::verif::accumulator_root_after_ops(p, ops.clone(), &root)) {
                        Ok(a) => a,
                        Err(pn) => return Outcome::violation("accumulator_apply_ops_panicked", pn),
                    };
                    if after != r0 {
                        return Outcome::violation(
                            "accumulator_after_ops_disagrees",
                            format!("state #{si} ({label}): store root {} accumulator-after-ops root {}; {} ops", hex::encode(r0), hex::encode(after), ops.len()),
                        );
                    }
                    ctx.hit("reach.accumulator_apply_ops_checked");
                }
            }
            // (b) construction-history independence
            let mut variants: Vec<(&'static str, WarpState)> = Vec::new();
            for (oi, seed) in self.order_seeds.iter().enumerate() {
                match build_shuffled(spec, *seed, oi % 2 == 0) {
                    Ok(s) => variants.push(("shuffled", s)),
                    Err(e) => return Outcome::violation("alternative_construction_failed", e),
                }
            }
            match build_with_migrations(spec) {
                Ok(s) => variants.push(("migrations", s)),
                Err(e) => return Outcome::violation("alternative_construction_failed", e),
            }
            let wsc0 = wsc_all(&canonical, spec);
            for (name, v) in &variants {
                if abs(v, &warps) != reference {
                    return Outcome::violation("alternative_construction_mismatch", format!("{name}: abstract state differs for state #{si}"));
                }
                match state_root(v, root) {
                    Ok(r) if r == r0 => {}
                    Ok(r) => return Outcome::violation("root_depends_on_construction_history", format!("state #{si} via {name}: {} vs {}", hex::encode(r), hex::encode(r0))),
                    Err(e) => return Outcome::violation("state_root_uncomputable", e),
                }
                let a2 = match catch(|| warp_core::verif::accumulator_state_root(v, &root)) {
                    Ok(a) => a,
                    Err(p) => return Outcome::violation("accumulator_panicked", p),
                };
                if a2 != r0 {
                    return Outcome::violation("accumulator_root_depends_on_construction_history", format!("state #{si} via {name}"));
                }
                let w = wsc_all(v, spec);
                if w != wsc0 {
                    return Outcome::violation("wsc_bytes_depend_on_construction_history", format!("state #{si} via {name}"));
                }
                ctx.hit("reach.construction_history_compared");
            }
            // (c) WSC round trip
            if let Err(v) = wsc_roundtrip(&wsc0, &reference, spec) {
                return v;
            }
            // (b') root <-> reachable projection, both directions
            let proj = reference.reachable_projection(&root.warp_id.0, &root.local_id.0);
            if let Some(other) = by_root.get(&r0) {
                if *other != proj {
                    return Outcome::violation("different_reachable_states_same_root", format!("state #{si} ({label}) collides with an earlier state of the run"));
                }
            }
            for (p, r) in &by_proj {
                if *p == proj && *r != r0 {
                    return Outcome::violation("same_reachable_state_different_root", format!("state #{si} ({label}): unreachable content or layout leaks into the root"));
                }
                if *p != proj && *r == r0 {
                    return Outcome::violation("different_reachable_states_same_root", format!("state #{si} ({label}): a reachable change ({label}) did not change the root"));
                }
            }
            if si > 0 {
                let (pp, _) = &by_proj[by_proj.len() - 1];
                if *pp == proj {
                    ctx.hit("reach.unreachable_edit");
                } else {
                    ctx.hit("reach.reachable_edit");
                }
                ctx.hit(&format!("reach.edit.{label}"));
            }
            by_root.insert(r0, proj.clone());
            by_proj.push((proj, r0));
            prev = Some(canonical);
        }
        if by_root.len() >= 2 {
            ctx.nontrivial(&serde_json::to_vec(self).unwrap_or_default());
        }
        Outcome::Ok
    }

    fn shrink_candidates(&self) -> Vec<Self> {
        let mut out = Vec::new();
        if !self.chain.is_empty() {
            let mut s = self.clone();
            s.chain.pop();
            s.labels.pop();
            out.push(s);
            // drop the base: start from the first chain element
            let mut s = self.clone();
            s.base = s.chain.remove(0);
            s.labels.remove(0);
            out.push(s);
        }
        if self.order_seeds.len() > 1 {
            let mut s = self.clone();
            s.order_seeds.pop();
            out.push(s);
        }
        if self.chain.is_empty() {
            for b in crate::props::c04::shrink_spec(&self.base) {
                let mut s = self.clone();
                s.base = b;
                out.push(s);
            }
        }
        out
    }
}

/// Columnar snapshot bytes of every instance (one WSC file per instance).
fn wsc_all(state: &WarpState, spec: &StateSpec) -> Vec<Vec<u8>> {
    let mut out = Vec::new();
    for inst in &spec.insts {
        let w = ids::warp(inst.w);
        let Some(store) = state.store(&w) else { continue };
        let input = build_one_warp_input(store, ids::root_node(inst.w));
        out.push(write_wsc_one_warp(&input, [7u8; 32], 3).unwrap_or_default());
    }
    out
}

fn wsc_roundtrip(files: &[Vec<u8>], reference: &RefState, spec: &StateSpec) -> Result<(), Outcome> {
    for (inst, bytes) in spec.insts.iter().zip(files) {
        let w = ids::warp(inst.w);
        let Some(exp) = reference.inst.get(&w.0) else { continue };
        let file = match catch(|| WscFile::from_bytes(bytes.clone())) {
            Ok(Ok(f)) => f,
            Ok(Err(e)) => return Err(Outcome::violation("wsc_read_failed", format!("{e:?}"))),
            Err(p) => return Err(Outcome::violation("wsc_read_panicked", p)),
        };
        if let Err(e) = validate_wsc(&file) {
            return Err(Outcome::violation("wsc_validate_failed", format!("{e:?}")));
        }
        let view = match file.warp_view(0) {
            Ok(v) => v,
            Err(e) => return Err(Outcome::violation("wsc_read_failed", format!("{e:?}"))),
        };
        if *view.warp_id() != w.0 || *view.root_node_id() != exp.root {
            return Err(Outcome::violation("wsc_denotes_other_state", "warp id / root".to_owned()));
        }
        let nodes: BTreeMap<[u8; 32], [u8; 32]> = view.nodes().iter().map(|n| (n.node_id, n.node_type)).collect();
        if nodes != exp.nodes {
            return Err(Outcome::violation("wsc_denotes_other_state", "node rows".to_owned()));
        }
        let edges: BTreeMap<[u8; 32], ([u8; 32], [u8; 32], [u8; 32])> = view.edges().iter().map(|e| (e.edge_id, (e.from_node_id, e.to_node_id, e.edge_type))).collect();
        if edges != exp.edges {
            return Err(Outcome::violation("wsc_denotes_other_state", "edge rows".to_owned()));
        }
        // attachments
        for (ix, n) in view.nodes().iter().enumerate() {
            let rows = view.node_attachments(ix);
            let got: Vec<RefAtt> = rows.iter().map(|r| att_from_row(&view, r)).collect();
            let want: Vec<RefAtt> = exp.node_att.get(&n.node_id).cloned().into_iter().collect();
            if got != want {
                return Err(Outcome::violation("wsc_denotes_other_state", "node attachment rows".to_owned()));
            }
        }
        for (ix, e) in view.edges().iter().enumerate() {
            let rows = view.edge_attachments(ix);
            let got: Vec<RefAtt> = rows.iter().map(|r| att_from_row(&view, r)).collect();
            let want: Vec<RefAtt> = exp.edge_att.get(&e.edge_id).cloned().into_iter().collect();
            if got != want {
                return Err(Outcome::violation("wsc_denotes_other_state", "edge attachment rows".to_owned()));
            }
        }
    }
    Ok(())
}

fn att_from_row(view: &warp_core::wsc::WarpView<'_>, row: &warp_core::wsc::types::AttRow) -> RefAtt {
    let r = warp_core::wsc::AttachmentRef::new(row, view.blob_for_attachment(row));
    if r.is_descend() {
        RefAtt::Descend(*r.type_or_warp_id())
    } else {
        RefAtt::Atom { ty: *r.type_or_warp_id(), bytes: view.blob_for_attachment(row).map(<[u8]>::to_vec).unwrap_or_default() }
    }
}

#[allow(dead_code)]
fn _unused(_: NodeKey, _: Tier) {}
