//! C11 — the log rejects corruption instead of reinterpreting it.
//!
//! Sim: a log (segment + writer-epoch ledger + optionally a published manifest) is produced by a
//! crash-free C10 workload (1–12 transactions) together with the observables of the crash-free
//! twin after every transaction; a donor log is produced from a second workload. Each damage
//! plan is applied to a fresh copy: bit flips, aligned zeroing, truncation + garbage, in-record
//! payload flips with (L2) and without (L1) a recomputed outer record digest, and — with the
//! harness's own record parser — delete / duplicate / adjacent swap of records and whole
//! transactions, cross-log transplants of records / transactions, ledger / manifest flips and
//! cross-log substitution.
//!
//! Oracle, for `recover_wal_segment_bytes`, `recover_filesystem_store` (read-only and writable),
//! `doctor_filesystem_store`, `validate_filesystem_manifest`, `enable_runtime_wal`: a typed
//! error / obstructed posture, or Ok whose committed-transaction list (by commit digest) is a
//! prefix of the original list, and (host) observables equal to Twin(prefix). Never a panic.

use std::path::Path;

use serde::{Deserialize, Serialize};
use warp_core::causal_wal::{
    doctor_filesystem_store, recover_filesystem_store, recover_wal_segment_bytes, validate_filesystem_manifest,
    RecoveryAccessMode, RecoveryScanReport, RecoveryTailPosture, WalDoctorPosture, WalSegmentId,
};

use super::c10::disk::{self, Tree};
use super::c10::world::{self, WOp};
use super::c10::{obs_of, produce_log, Produced};
use crate::kernel::{Outcome, PropertySpec, Rng, RunCtx, Scenario, Tier};
use crate::world::prog::Prog;
use crate::world::rules::callbacks;

pub const SPEC: PropertySpec = PropertySpec {
    id: "C11",
    level: "fault_enumeration",
    rule: "scenario = two generated crash-free workloads (log under test + donor log) + a list of damage plans, each applied to a fresh copy and pushed through six recovery entry points; non-trivial = at least one damage applied to a log with >= 1 committed transaction; distinct = hash of scenario",
    quick_runs: 3_000,
    thorough_runs: 30_000,
    real_components: &[
        "recover_wal_segment_bytes, recover_filesystem_store (read-only, writable), doctor_filesystem_store, validate_filesystem_manifest",
        "TrustedRuntimeHost::enable_runtime_wal on the damaged directory (semantic re-validation of recovered payloads)",
        "log production: TrustedRuntimeHost + FilesystemWalStore (C10 driver, all C10 checks active)",
    ],
    stub_components: &["application contract = data-driven interpreter rule"],
    assumptions: &[
        "the recovery entry points have no loops that are not bounded by the input length; a hang would stall the batch (no step hook exists inside them)",
        "structural edits move whole, digest-valid records, so their L1 and L2 variants are byte-identical; L2 (recomputed outer digest) differs from L1 only for in-record damage",
    ],
    fault_kinds: &[
        "fault.bit_flip.segment",
        "fault.bit_flip.ledger",
        "fault.bit_flip.manifest",
        "fault.zero_range.8",
        "fault.zero_range.64",
        "fault.zero_range.512",
        "fault.trunc_garbage",
        "fault.payload_flip.l1",
        "fault.payload_flip.l2",
        "fault.kind_flip.l2",
        "fault.rec_delete.l1",
        "fault.rec_delete.l2",
        "fault.rec_dup.l1",
        "fault.rec_dup.l2",
        "fault.rec_swap.l1",
        "fault.rec_swap.l2",
        "fault.tx_delete.l1",
        "fault.tx_delete.l2",
        "fault.tx_dup.l1",
        "fault.tx_dup.l2",
        "fault.tx_swap.l1",
        "fault.tx_swap.l2",
        "fault.transplant_rec.l1",
        "fault.transplant_rec.l2",
        "fault.transplant_tx.l1",
        "fault.transplant_tx.l2",
        "fault.ledger_subst",
        "fault.manifest_subst",
        "fault.marker_relabel.l3",
    ],
};

#[derive(Clone, Debug, Serialize, Deserialize, PartialEq, Eq)]
pub enum Damage {
    /// file: 0 segment, 1 ledger, 2 manifest.
    BitFlip { file: u8, pos: u32, bit: u8 },
    /// width: 8 / 64 / 512, aligned to its width.
    ZeroRange { width: u16, pos: u32 },
    TruncGarbage { at: u32, garbage: Vec<u8> },
    /// Flip one bit inside the payload of record `idx`; level 2 recomputes the outer digest.
    PayloadFlip { idx: u32, pos: u32, bit: u8, level: u8 },
    /// Change the kind byte of record `idx` and recompute the outer digest.
    KindFlip { idx: u32, to: u8 },
    RecDelete { idx: u32, level: u8 },
    RecDup { idx: u32, level: u8 },
    RecSwap { idx: u32, level: u8 },
    TxDelete { idx: u32, level: u8 },
    TxDup { idx: u32, level: u8 },
    TxSwap { idx: u32, level: u8 },
    /// Record `src` of the donor log replaces (or is inserted before) record `dst`.
    TransplantRec { dst: u32, src: u32, replace: bool, level: u8 },
    /// mode 0: donor tx `src` replaces tx `dst`; 1: inserted before tx `dst`; 2: log = first `dst`
    /// transactions of the original + donor tx `src`.
    TransplantTx { dst: u32, src: u32, mode: u8, level: u8 },
    LedgerSubst,
    ManifestSubst,
    /// L3: the commit marker of transaction `idx` is re-labelled to transaction kind `to` (of
    /// another append authority than the original kind) and its
    /// commit digest and outer record digest are recomputed (frames untouched): every checksum of
    /// the record verifies, only the meaning of the transaction changed.
    #[serde(alias = "MarkerRelabel")]
    MarkerRelabel { idx: u32, to: u8 },
}

impl Damage {
    /// Byte-level damage (as opposed to moving whole, intact records around).
    fn alters_record_bytes(&self) -> bool {
        matches!(
            self,
            Damage::BitFlip { file: 0, .. } | Damage::ZeroRange { .. } | Damage::TruncGarbage { .. } | Damage::PayloadFlip { .. } | Damage::KindFlip { .. }
        )
    }
    fn cross_log(&self) -> bool {
        matches!(self, Damage::TransplantRec { .. } | Damage::TransplantTx { .. } | Damage::LedgerSubst | Damage::ManifestSubst)
    }
    fn name(&self) -> String {
        match self {
            Damage::BitFlip { file, .. } => format!("bit_flip.{}", ["segment", "ledger", "manifest"][usize::from(*file % 3)]),
            Damage::ZeroRange { width, .. } => format!("zero_range.{width}"),
            Damage::TruncGarbage { .. } => "trunc_garbage".to_owned(),
            Damage::PayloadFlip { level, .. } => format!("payload_flip.l{level}"),
            Damage::KindFlip { .. } => "kind_flip.l2".to_owned(),
            Damage::RecDelete { level, .. } => format!("rec_delete.l{level}"),
            Damage::RecDup { level, .. } => format!("rec_dup.l{level}"),
            Damage::RecSwap { level, .. } => format!("rec_swap.l{level}"),
            Damage::TxDelete { level, .. } => format!("tx_delete.l{level}"),
            Damage::TxDup { level, .. } => format!("tx_dup.l{level}"),
            Damage::TxSwap { level, .. } => format!("tx_swap.l{level}"),
            Damage::TransplantRec { level, .. } => format!("transplant_rec.l{level}"),
            Damage::TransplantTx { level, .. } => format!("transplant_tx.l{level}"),
            Damage::LedgerSubst => "ledger_subst".to_owned(),
            Damage::ManifestSubst => "manifest_subst".to_owned(),
            Damage::MarkerRelabel { .. } => "marker_relabel.l3".to_owned(),
        }
    }
    /// Class stem for violations (level-free, so both levels shrink to one shape).
    fn stem(&self) -> String {
        let n = self.name();
        n.split('.').next().unwrap_or("damage").to_owned()
    }
}

#[derive(Clone, Debug, Serialize, Deserialize)]
pub struct C11 {
    pub avoid: bool,
    pub progs: Vec<Prog>,
    pub ops: Vec<WOp>,
    pub donor_progs: Vec<Prog>,
    pub donor_ops: Vec<WOp>,
    pub manifest: bool,
    pub damages: Vec<Damage>,
    /// Run the (more expensive) host-level reopen for every damage, not only the store-level APIs.
    pub host_level: bool,
    /// Thorough tier, small logs: additionally every single-bit flip of the segment (byte-level
    /// and read-only filesystem recovery) and every record-level edit (all entry points).
    #[serde(default)]
    pub exhaustive: bool,
}

fn gen_level(rng: &mut Rng) -> u8 {
    1 + rng.below(2) as u8
}

fn gen_damage(rng: &mut Rng, avoid: bool, manifest: bool) -> Damage {
    loop {
        let d = match rng.weighted(&[6, 4, 3, 6, 1, 3, 3, 3, 3, 3, 3, 4, 6, 1, 1, 3]) {
            0 => Damage::BitFlip {
                file: match rng.below(10) {
                    0 | 1 => 1,
                    2 => 2,
                    _ => 0,
                },
                pos: rng.next_u64() as u32,
                bit: rng.below(8) as u8,
            },
            1 => Damage::ZeroRange { width: *rng.pick(&[8u16, 64, 512]), pos: rng.next_u64() as u32 },
            2 => {
                let n = rng.urange(0, 40);
                let mut garbage = rng.bytes(n);
                if rng.chance(1, 3) {
                    let mut g = disk::RECORD_MAGIC.to_vec();
                    g.push(rng.below(4) as u8);
                    g.extend_from_slice(&(rng.below(64)).to_le_bytes());
                    g.extend_from_slice(&garbage);
                    garbage = g;
                }
                Damage::TruncGarbage { at: rng.next_u64() as u32, garbage }
            }
            3 => Damage::PayloadFlip { idx: rng.next_u64() as u32, pos: rng.next_u64() as u32, bit: rng.below(8) as u8, level: gen_level(rng) },
            4 => Damage::KindFlip { idx: rng.next_u64() as u32, to: rng.below(4) as u8 },
            5 => Damage::RecDelete { idx: rng.next_u64() as u32, level: gen_level(rng) },
            6 => Damage::RecDup { idx: rng.next_u64() as u32, level: gen_level(rng) },
            7 => Damage::RecSwap { idx: rng.next_u64() as u32, level: gen_level(rng) },
            8 => Damage::TxDelete { idx: rng.next_u64() as u32, level: gen_level(rng) },
            9 => Damage::TxDup { idx: rng.next_u64() as u32, level: gen_level(rng) },
            10 => Damage::TxSwap { idx: rng.next_u64() as u32, level: gen_level(rng) },
            11 => Damage::TransplantRec { dst: rng.next_u64() as u32, src: rng.next_u64() as u32, replace: rng.chance(1, 2), level: gen_level(rng) },
            12 => Damage::TransplantTx { dst: rng.next_u64() as u32, src: rng.next_u64() as u32, mode: rng.below(3) as u8, level: gen_level(rng) },
            13 => Damage::LedgerSubst,
            14 => Damage::ManifestSubst,
            _ => Damage::MarkerRelabel { idx: rng.next_u64() as u32, to: 1 + rng.below(12) as u8 },
        };
        if avoid && d.cross_log() {
            continue;
        }
        if !manifest && matches!(d, Damage::ManifestSubst | Damage::BitFlip { file: 2, .. }) {
            continue;
        }
        return d;
    }
}

impl Scenario for C11 {
    fn generate(rng: &mut Rng, tier: Tier, avoid: bool) -> Self {
        let max_txs = 12;
        let n_progs = rng.urange(1, 6);
        let progs: Vec<Prog> = (0..n_progs).map(|i| world::gen_prog(rng, 1 + i as u32)).collect();
        let exhaustive = tier == Tier::Thorough && rng.chance(1, 40);
        let target = if exhaustive {
            rng.urange(1, 2)
        } else {
            match rng.below(4) {
                0 => rng.urange(1, 2),
                1 | 2 => rng.urange(2, 6),
                _ => rng.urange(4, max_txs),
            }
        };
        // Epoch-splice shape (1 in 6): several process lifetimes, a donor with the same op shape
        // (same LSN ranges, different writer-epoch chain from the second epoch on) and mostly
        // same-position whole-transaction replacements.
        let epoch_splice = !avoid && !exhaustive && rng.chance(1, 6);
        let restarts = epoch_splice || rng.chance(1, 3);
        let mut ops = world::gen_workload(rng, n_progs, if epoch_splice { target.max(4) } else { target }, restarts);
        if epoch_splice {
            let mut guard = 0;
            while ops.iter().filter(|o| matches!(o, WOp::Restart)).count() < 2 && ops.len() >= 2 && guard < 16 {
                guard += 1;
                let at = rng.urange(1, ops.len() - 1);
                if !matches!(ops[at], WOp::Restart) && !matches!(ops[at - 1], WOp::Restart) {
                    ops.insert(at, WOp::Restart);
                }
            }
        }
        let d_progs_n = if epoch_splice { rng.urange(n_progs, 6) } else { rng.urange(1, 6) };
        // Donor programs carry other nonces: every donor transaction differs from every original one.
        let donor_progs: Vec<Prog> = (0..d_progs_n).map(|i| world::gen_prog(rng, 1000 + i as u32)).collect();
        // A donor with the same op shape aligns LSN ranges with the original (the interesting case).
        let donor_ops = if (epoch_splice || rng.chance(1, 2)) && d_progs_n >= n_progs { ops.clone() } else { world::gen_workload(rng, d_progs_n, target, false) };
        let manifest = rng.chance(1, 3);
        let n_damages = rng.urange(4, if tier == Tier::Thorough { 40 } else { 16 });
        let damages = (0..n_damages)
            .map(|_| {
                if epoch_splice && rng.chance(2, 3) {
                    let i = rng.below(16) as u32;
                    Damage::TransplantTx { dst: i, src: i, mode: 0, level: gen_level(rng) }
                } else {
                    gen_damage(rng, avoid, manifest)
                }
            })
            .collect();
        C11 { avoid, progs, ops, donor_progs, donor_ops, manifest, damages, host_level: epoch_splice || rng.chance(3, 4), exhaustive }
    }

    fn execute(&self, ctx: &mut RunCtx) -> Outcome {
        match run(self, ctx) {
            Ok(()) => Outcome::Ok,
            Err(o) => o,
        }
    }

    fn shrink_candidates(&self) -> Vec<Self> {
        let mut out = Vec::new();
        for i in 0..self.damages.len() {
            let mut c = self.clone();
            c.damages.remove(i);
            out.push(c);
        }
        if self.damages.len() > 1 {
            for i in 0..self.damages.len() {
                let mut c = self.clone();
                c.damages = vec![self.damages[i].clone()];
                out.push(c);
            }
        }
        for i in (0..self.ops.len()).rev() {
            let mut c = self.clone();
            c.ops.remove(i);
            out.push(c);
        }
        for i in (0..self.donor_ops.len()).rev() {
            let mut c = self.clone();
            c.donor_ops.remove(i);
            out.push(c);
        }
        if let Some(last) = self.progs.len().checked_sub(1) {
            let used = self.ops.iter().any(|o| matches!(o, WOp::Submit(p) | WOp::Stage(p) if *p == last));
            if !used && last > 0 {
                let mut c = self.clone();
                c.progs.pop();
                out.push(c);
            }
        }
        if let Some(last) = self.donor_progs.len().checked_sub(1) {
            let used = self.donor_ops.iter().any(|o| matches!(o, WOp::Submit(p) | WOp::Stage(p) if *p == last));
            if !used && last > 0 {
                let mut c = self.clone();
                c.donor_progs.pop();
                out.push(c);
            }
        }
        if self.manifest {
            let mut c = self.clone();
            c.manifest = false;
            out.push(c);
        }
        if self.exhaustive {
            let mut c = self.clone();
            c.exhaustive = false;
            out.push(c);
        }
        for i in 0..self.progs.len() {
            if self.progs[i].steps.len() > 1 {
                let mut c = self.clone();
                c.progs[i].steps.truncate(1);
                out.push(c);
            }
        }
        for i in 0..self.donor_progs.len() {
            if self.donor_progs[i].steps.len() > 1 {
                let mut c = self.clone();
                c.donor_progs[i].steps.truncate(1);
                out.push(c);
            }
        }
        // Smaller indices / positions inside a damage.
        for (i, d) in self.damages.iter().enumerate() {
            for s in simpler_damage(d) {
                let mut c = self.clone();
                c.damages[i] = s;
                out.push(c);
            }
        }
        out
    }
}

fn simpler_damage(d: &Damage) -> Vec<Damage> {
    let mut v = Vec::new();
    match d {
        Damage::TransplantTx { dst, src, mode, level } => {
            if *dst > 16 {
                v.push(Damage::TransplantTx { dst: dst % 16, src: *src, mode: *mode, level: *level });
            }
            if *src > 16 {
                v.push(Damage::TransplantTx { dst: *dst, src: src % 16, mode: *mode, level: *level });
            }
            if *dst > 0 && *dst <= 16 {
                v.push(Damage::TransplantTx { dst: dst - 1, src: *src, mode: *mode, level: *level });
            }
            if *src > 0 && *src <= 16 {
                v.push(Damage::TransplantTx { dst: *dst, src: src - 1, mode: *mode, level: *level });
            }
            if *level != 1 {
                v.push(Damage::TransplantTx { dst: *dst, src: *src, mode: *mode, level: 1 });
            }
        }
        Damage::TransplantRec { dst, src, replace, level } => {
            if *dst > 64 {
                v.push(Damage::TransplantRec { dst: dst % 64, src: *src, replace: *replace, level: *level });
            }
            if *src > 64 {
                v.push(Damage::TransplantRec { dst: *dst, src: src % 64, replace: *replace, level: *level });
            }
            if *level != 1 {
                v.push(Damage::TransplantRec { dst: *dst, src: *src, replace: *replace, level: 1 });
            }
        }
        Damage::RecDelete { idx, level } if *idx >= 64 => v.push(Damage::RecDelete { idx: idx % 64, level: *level }),
        Damage::RecDup { idx, level } if *idx >= 64 => v.push(Damage::RecDup { idx: idx % 64, level: *level }),
        Damage::RecSwap { idx, level } if *idx >= 64 => v.push(Damage::RecSwap { idx: idx % 64, level: *level }),
        Damage::TxDelete { idx, level } if *idx >= 16 => v.push(Damage::TxDelete { idx: idx % 16, level: *level }),
        Damage::TxDup { idx, level } if *idx >= 16 => v.push(Damage::TxDup { idx: idx % 16, level: *level }),
        Damage::TxSwap { idx, level } if *idx >= 16 => v.push(Damage::TxSwap { idx: idx % 16, level: *level }),
        Damage::RecDelete { idx, level } if *idx > 0 => v.push(Damage::RecDelete { idx: idx - 1, level: *level }),
        Damage::RecDup { idx, level } if *idx > 0 => v.push(Damage::RecDup { idx: idx - 1, level: *level }),
        Damage::TxDelete { idx, level } if *idx > 0 => v.push(Damage::TxDelete { idx: idx - 1, level: *level }),
        Damage::TxSwap { idx, level } if *idx > 0 => v.push(Damage::TxSwap { idx: idx - 1, level: *level }),
        Damage::MarkerRelabel { idx, to } if *idx >= 16 => v.push(Damage::MarkerRelabel { idx: idx % 16, to: *to }),
        Damage::MarkerRelabel { idx, to } if *idx > 0 => v.push(Damage::MarkerRelabel { idx: idx - 1, to: *to }),
        _ => {}
    }
    v
}

macro_rules! bail {
    ($class:expr, $($fmt:tt)*) => {
        return Err(Outcome::violation($class, format!($($fmt)*)))
    };
}

type Res<T> = Result<T, Outcome>;

/// Parsed view of a produced log.
struct Log<'a> {
    p: &'a Produced,
    parsed: disk::Parsed,
    txs: Vec<disk::TxGroup>,
}

impl<'a> Log<'a> {
    fn new(p: &'a Produced) -> Self {
        let parsed = disk::parse(&p.segment);
        let txs = disk::transactions(&p.segment, &parsed);
        Log { p, parsed, txs }
    }
    fn rec_bytes(&self, i: usize) -> &[u8] {
        self.parsed.recs[i].bytes(&self.p.segment)
    }
    fn tx_bytes(&self, i: usize) -> Vec<u8> {
        let mut v = Vec::new();
        for r in &self.txs[i].recs {
            v.extend_from_slice(self.rec_bytes(*r));
        }
        v
    }
    /// Byte range covered by transaction i when its records are contiguous (always, for logs
    /// written by the host without recovery rewrites).
    fn tx_range(&self, i: usize) -> (usize, usize) {
        let recs = &self.txs[i].recs;
        let first = recs.iter().map(|r| self.parsed.recs[*r].off).min().unwrap_or(0);
        let last = recs.iter().map(|r| self.parsed.recs[*r].end).max().unwrap_or(0);
        (first, last)
    }
}

/// Re-seal a record: recompute the outer digest from kind + payload (L2).
fn reseal(rec: &[u8]) -> Vec<u8> {
    if rec.len() < disk::RECORD_HEADER_LEN + disk::RECORD_DIGEST_LEN {
        return rec.to_vec();
    }
    let kind = rec[8];
    let payload = &rec[disk::RECORD_HEADER_LEN..rec.len() - disk::RECORD_DIGEST_LEN];
    disk::encode_record(kind, payload)
}

fn maybe_reseal(rec: &[u8], level: u8) -> Vec<u8> {
    if level >= 2 {
        reseal(rec)
    } else {
        rec.to_vec()
    }
}

/// Apply one damage plan to a copy of the original tree. `None` = not applicable to this log.
fn apply(d: &Damage, a: &Log<'_>, b: &Log<'_>) -> Option<Tree> {
    let mut tree = a.p.tree.clone();
    let seg = a.p.segment.clone();
    let nrec = a.parsed.recs.len();
    let ntx = a.txs.len();
    if d.cross_log() && ntx == 0 {
        return None;
    }
    let set_seg = |tree: &mut Tree, bytes: Vec<u8>| {
        tree.insert(disk::SEGMENT_REL.to_owned(), bytes);
    };
    match d {
        Damage::BitFlip { file, pos, bit } => {
            let rel = [disk::SEGMENT_REL, disk::LEDGER_REL, disk::MANIFEST_REL][usize::from(*file % 3)];
            let b = tree.get_mut(rel)?;
            if b.is_empty() {
                return None;
            }
            let i = *pos as usize % b.len();
            b[i] ^= 1 << (bit % 8);
        }
        Damage::ZeroRange { width, pos } => {
            let w = usize::from(*width).max(1);
            if seg.is_empty() {
                return None;
            }
            let start = (*pos as usize % seg.len()) / w * w;
            let end = (start + w).min(seg.len());
            let mut s = seg;
            for x in &mut s[start..end] {
                *x = 0;
            }
            set_seg(&mut tree, s);
        }
        Damage::TruncGarbage { at, garbage } => {
            let cut = *at as usize % (seg.len() + 1);
            let mut s = seg[..cut].to_vec();
            s.extend_from_slice(garbage);
            set_seg(&mut tree, s);
        }
        Damage::PayloadFlip { idx, pos, bit, level } => {
            if nrec == 0 {
                return None;
            }
            let r = &a.parsed.recs[*idx as usize % nrec];
            if r.payload_len == 0 {
                return None;
            }
            let mut rec = r.bytes(&seg).to_vec();
            let i = disk::RECORD_HEADER_LEN + *pos as usize % r.payload_len;
            rec[i] ^= 1 << (bit % 8);
            let rec = maybe_reseal(&rec, *level);
            let mut s = seg[..r.off].to_vec();
            s.extend_from_slice(&rec);
            s.extend_from_slice(&seg[r.end..]);
            set_seg(&mut tree, s);
        }
        Damage::KindFlip { idx, to } => {
            if nrec == 0 {
                return None;
            }
            let r = &a.parsed.recs[*idx as usize % nrec];
            let mut rec = r.bytes(&seg).to_vec();
            if rec[8] == *to {
                return None;
            }
            rec[8] = *to;
            let rec = reseal(&rec);
            let mut s = seg[..r.off].to_vec();
            s.extend_from_slice(&rec);
            s.extend_from_slice(&seg[r.end..]);
            set_seg(&mut tree, s);
        }
        Damage::RecDelete { idx, .. } => {
            if nrec == 0 {
                return None;
            }
            let r = &a.parsed.recs[*idx as usize % nrec];
            let mut s = seg[..r.off].to_vec();
            s.extend_from_slice(&seg[r.end..]);
            set_seg(&mut tree, s);
        }
        Damage::RecDup { idx, level } => {
            if nrec == 0 {
                return None;
            }
            let r = &a.parsed.recs[*idx as usize % nrec];
            let mut s = seg[..r.end].to_vec();
            s.extend_from_slice(&maybe_reseal(r.bytes(&seg), *level));
            s.extend_from_slice(&seg[r.end..]);
            set_seg(&mut tree, s);
        }
        Damage::RecSwap { idx, level } => {
            if nrec < 2 {
                return None;
            }
            let i = *idx as usize % (nrec - 1);
            let (r1, r2) = (&a.parsed.recs[i], &a.parsed.recs[i + 1]);
            let mut s = seg[..r1.off].to_vec();
            s.extend_from_slice(&maybe_reseal(r2.bytes(&seg), *level));
            s.extend_from_slice(&maybe_reseal(r1.bytes(&seg), *level));
            s.extend_from_slice(&seg[r2.end..]);
            set_seg(&mut tree, s);
        }
        Damage::TxDelete { idx, .. } => {
            if ntx == 0 {
                return None;
            }
            let (from, to) = a.tx_range(*idx as usize % ntx);
            let mut s = seg[..from].to_vec();
            s.extend_from_slice(&seg[to..]);
            set_seg(&mut tree, s);
        }
        Damage::TxDup { idx, .. } => {
            if ntx == 0 {
                return None;
            }
            let i = *idx as usize % ntx;
            let (_, to) = a.tx_range(i);
            let mut s = seg[..to].to_vec();
            s.extend_from_slice(&a.tx_bytes(i));
            s.extend_from_slice(&seg[to..]);
            set_seg(&mut tree, s);
        }
        Damage::TxSwap { idx, .. } => {
            if ntx < 2 {
                return None;
            }
            let i = *idx as usize % (ntx - 1);
            let (f1, _) = a.tx_range(i);
            let (_, t2) = a.tx_range(i + 1);
            let mut s = seg[..f1].to_vec();
            s.extend_from_slice(&a.tx_bytes(i + 1));
            s.extend_from_slice(&a.tx_bytes(i));
            s.extend_from_slice(&seg[t2..]);
            set_seg(&mut tree, s);
        }
        Damage::TransplantRec { dst, src, replace, level } => {
            let bn = b.parsed.recs.len();
            if nrec == 0 || bn == 0 {
                return None;
            }
            let r = &a.parsed.recs[*dst as usize % nrec];
            let donor = maybe_reseal(b.rec_bytes(*src as usize % bn), *level);
            if *replace && donor == r.bytes(&seg) {
                return None;
            }
            let mut s = seg[..r.off].to_vec();
            s.extend_from_slice(&donor);
            s.extend_from_slice(&seg[if *replace { r.end } else { r.off }..]);
            set_seg(&mut tree, s);
        }
        Damage::TransplantTx { dst, src, mode, .. } => {
            let bn = b.txs.len();
            if bn == 0 {
                return None;
            }
            let donor = b.tx_bytes(*src as usize % bn);
            match mode % 3 {
                0 => {
                    if ntx == 0 {
                        return None;
                    }
                    let (from, to) = a.tx_range(*dst as usize % ntx);
                    let mut s = seg[..from].to_vec();
                    s.extend_from_slice(&donor);
                    s.extend_from_slice(&seg[to..]);
                    set_seg(&mut tree, s);
                }
                1 => {
                    if ntx == 0 {
                        return None;
                    }
                    let (from, _) = a.tx_range(*dst as usize % ntx);
                    let mut s = seg[..from].to_vec();
                    s.extend_from_slice(&donor);
                    s.extend_from_slice(&seg[from..]);
                    set_seg(&mut tree, s);
                }
                _ => {
                    // Keep at least one original transaction: a donor transaction on an empty
                    // log is a degenerate splice.
                    if ntx == 0 {
                        return None;
                    }
                    let keep = 1 + *dst as usize % ntx;
                    let cut = a.tx_range(keep - 1).1;
                    let mut s = seg[..cut].to_vec();
                    s.extend_from_slice(&donor);
                    set_seg(&mut tree, s);
                }
            }
        }
        Damage::MarkerRelabel { idx, to } => {
            if ntx == 0 {
                return None;
            }
            let tx = &a.txs[*idx as usize % ntx];
            let ci = tx.recs.iter().copied().find(|r| a.parsed.recs[*r].kind == disk::KIND_COMMIT)?;
            let r = &a.parsed.recs[ci];
            let mut payload = r.payload(&seg).to_vec();
            if payload.len() != disk::COMMIT_PAYLOAD_LEN || payload[64] == *to {
                return None;
            }
            // Only re-labellings that move the transaction to another append authority: the
            // frames then contradict the marker (record authority != transaction authority), which
            // is what the recovery-side semantic validation is documented to refuse. A relabel
            // inside one authority group leaves a log with no internal contradiction except the
            // unverified chain digests (open finding), and forging a fully consistent log is not
            // damage.
            let group = |k: u8| match k {
                1 => 1,
                2 | 5 | 6 => 2,
                3 | 8 => 3,
                4 => 4,
                7 => 5,
                9 => 6,
                10..=12 => 7,
                _ => 0,
            };
            if group(payload[64]) == group(*to) {
                return None;
            }
            payload[64] = *to;
            let forged = disk::commit_digest_of(&payload);
            payload[188..220].copy_from_slice(&forged);
            let mut s = seg[..r.off].to_vec();
            s.extend_from_slice(&disk::encode_record(disk::KIND_COMMIT, &payload));
            s.extend_from_slice(&seg[r.end..]);
            set_seg(&mut tree, s);
        }
        Damage::LedgerSubst => {
            let l = b.p.tree.get(disk::LEDGER_REL)?.clone();
            if Some(&l) == tree.get(disk::LEDGER_REL) {
                return None;
            }
            tree.insert(disk::LEDGER_REL.to_owned(), l);
        }
        Damage::ManifestSubst => {
            let m = b.p.tree.get(disk::MANIFEST_REL)?.clone();
            if Some(&m) == tree.get(disk::MANIFEST_REL) {
                return None;
            }
            tree.insert(disk::MANIFEST_REL.to_owned(), m);
        }
    }
    if tree == a.p.tree {
        return None;
    }
    // A segment that is byte-for-byte a prefix of the donor log IS a valid log (the donor's): no
    // reader could tell, so it is not damage.
    if d.cross_log() {
        if let Some(sg) = tree.get(disk::SEGMENT_REL) {
            if b.p.segment.starts_with(sg) {
                return None;
            }
        }
    }
    Some(tree)
}

struct Case<'a> {
    d: &'a Damage,
    orig: Vec<disk::H>,
    n_orig: usize,
    /// First store-level acceptance of a non-prefix history (reported unless the host-level
    /// reopen accepts the damaged log as well, which is reported instead).
    store_level: std::cell::RefCell<Option<Outcome>>,
    accepted_by: std::cell::RefCell<Vec<String>>,
    intact: bool,
    segment_damaged: bool,
    /// L3 re-labelling: (forged commit digest, original commit digest) - the forged marker stands
    /// for the original transaction when the accepted list is compared with the original one; what
    /// is demanded of a re-labelled log is that nothing *observable* is reinterpreted.
    subst: std::cell::RefCell<Vec<(disk::H, disk::H)>>,
}

impl Case<'_> {
    fn unforge(&self, got: &[disk::H]) -> Vec<disk::H> {
        let subst = self.subst.borrow();
        got.iter().map(|g| subst.iter().find(|(f, _)| f == g).map_or(*g, |(_, o)| *o)).collect()
    }
    fn note_forgeries(&self, seg: &[u8], a: &Produced) {
        if !matches!(self.d, Damage::MarkerRelabel { .. }) || self.intact {
            return;
        }
        let mut subst = self.subst.borrow_mut();
        subst.clear();
        for c in disk::commits_in(seg).0 {
            if let Some(o) = a.commits.iter().find(|o| o.tx_id == c.tx_id && o.digest != c.digest) {
                subst.push((c.digest, o.digest));
            }
        }
    }

    fn non_prefix_class(&self, host: bool) -> String {
        let stem = if matches!(self.d, Damage::TransplantTx { .. }) {
            "spliced_transaction".to_owned()
        } else if matches!(self.d, Damage::TransplantRec { .. }) {
            "spliced_record".to_owned()
        } else if matches!(self.d, Damage::TxDelete { idx, .. } if self.n_orig > 0 && *idx as usize % self.n_orig != 0) {
            // Only the *leading* transaction has no anchor (open finding); a hole in the middle
            // breaks the LSN tiling and must be refused.
            "tx_delete_middle".to_owned()
        } else {
            self.d.stem()
        };
        if host {
            format!("non_prefix_history_accepted:{stem}_host")
        } else {
            format!("non_prefix_history_accepted:{stem}")
        }
    }

    /// Judge a successful scan: the committed list must be a prefix of the original list.
    fn judge_scan(&self, api: &str, report: &RecoveryScanReport, ctx: &mut RunCtx) -> Res<usize> {
        let got: Vec<disk::H> = report.transactions.iter().map(|t| t.commit.commit_digest).collect();
        self.judge_list(api, &got, matches!(report.tail_posture, RecoveryTailPosture::Clean), ctx)
    }

    fn judge_list(&self, api: &str, got: &[disk::H], clean: bool, ctx: &mut RunCtx) -> Res<usize> {
        let got = &self.unforge(got)[..];
        let is_prefix = got.len() <= self.orig.len() && got.iter().zip(&self.orig).all(|(a, b)| a == b);
        if !is_prefix {
            self.accepted_by.borrow_mut().push(api.to_owned());
            if self.store_level.borrow().is_some() {
                return Ok(got.len());
            }
            let o = self.non_prefix_outcome(api, got);
            *self.store_level.borrow_mut() = Some(o);
            return Ok(got.len());
        }
        if self.intact {
            return Ok(got.len());
        }
        if got.len() < self.n_orig || !clean {
            ctx.hit("reach.damage_reclassified_as_torn_tail");
        } else if self.segment_damaged {
            if self.d.alters_record_bytes() {
                // Flipped / zeroed / overwritten bytes of committed content, accepted as the full,
                // clean history: some integrity check does not cover those bytes.
                bail!(
                    format!("damage_unnoticed:{}", self.d.stem()),
                    "{api} returned the full history with a clean tail although committed bytes were altered: {:?}",
                    self.d
                );
            }
            // The reader normalised the damage away (physical record order is not history).
            ctx.hit(&format!("reach.segment_damage_accepted_full_history.{}", self.d.stem()));
        } else {
            ctx.hit("reach.non_segment_damage_ignored_by_segment_reader");
        }
        Ok(got.len())
    }

    fn non_prefix_outcome(&self, api: &str, got: &[disk::H]) -> Outcome {
        {
            let foreign = got.iter().filter(|g| !self.orig.contains(g)).count();
            let mut sorted_got = got.to_vec();
            sorted_got.sort_unstable();
            let mut sorted_prefix: Vec<disk::H> = self.orig.iter().take(got.len()).copied().collect();
            sorted_prefix.sort_unstable();
            if foreign == 0 && sorted_got == sorted_prefix {
                return Outcome::violation(
                    format!("reordered_history_accepted:{}", self.d.stem()),
                    format!(
                        "{api} returned Ok with the {} committed transactions in a different order than they were committed, damage {:?}",
                        got.len(),
                        self.d
                    ),
                );
            }
            Outcome::violation(
                self.non_prefix_class(false),
                format!(
                    "{api} returned Ok with {} transactions after damage {:?}: not a prefix of the {} original ones ({} unknown commit digests, first divergence at {})",
                    got.len(),
                    self.d,
                    self.orig.len(),
                    foreign,
                    got.iter().zip(&self.orig).position(|(a, b)| a != b).unwrap_or(self.orig.len().min(got.len()))
                ),
            )
        }
    }
}

fn run(sc: &C11, ctx: &mut RunCtx) -> Res<()> {
    let base = ctx.scratch_dir();
    let a = produce_log(&sc.progs, &sc.ops, ctx, base.join("a"), sc.manifest)?;
    let b = produce_log(&sc.donor_progs, &sc.donor_ops, ctx, base.join("b"), sc.manifest)?;
    ctx.count("reach.log_bytes", a.segment.len() as u64);
    ctx.hit(&format!("reach.log_txs.{}", a.commits.len().min(12)));
    let la = Log::new(&a);
    let lb = Log::new(&b);
    let orig: Vec<disk::H> = a.commits.iter().map(|c| c.digest).collect();
    // Sanity of the harness's own digest formula: re-sealing an intact record is the identity.
    for i in 0..la.parsed.recs.len() {
        if reseal(la.rec_bytes(i)) != la.rec_bytes(i) {
            bail!("harness:outer_digest_formula", "record {i} does not re-seal to itself");
        }
    }
    for (i, r) in la.parsed.recs.iter().enumerate() {
        if r.kind == disk::KIND_COMMIT {
            let p = r.payload(&a.segment);
            if p.len() == disk::COMMIT_PAYLOAD_LEN && disk::commit_digest_of(p)[..] != p[188..220] {
                bail!("harness:commit_digest_formula", "commit marker {i} does not re-digest to itself");
            }
        }
    }
    // The undamaged log must pass everything (otherwise nothing below means anything).
    let intact = Case { d: &Damage::LedgerSubst, orig: orig.clone(), n_orig: orig.len(), store_level: Default::default(), accepted_by: Default::default(), intact: true, segment_damaged: false, subst: Default::default() };
    let t0 = check_tree(&a.tree, &a, &intact, &base, true, ctx, true)?;
    if t0 != orig.len() {
        bail!("harness:intact_log_not_full", "undamaged log recovered {t0} of {} transactions", orig.len());
    }
    let mut applied = 0u64;
    for (i, d) in sc.damages.iter().enumerate() {
        if sc.avoid && known_shape(d, &la) {
            ctx.hit("reach.avoided_known_shape");
            continue;
        }
        let Some(tree) = apply(d, &la, &lb) else {
            ctx.hit("reach.damage_not_applicable");
            continue;
        };
        applied += 1;
        if applied == 1 && !orig.is_empty() {
            let sig = serde_json::to_vec(sc).unwrap_or_default();
            ctx.nontrivial(&sig);
        }
        ctx.hit(&format!("fault.{}", d.name()));
        ctx.trace_str(&format!("damage{i}"));
        let segment_damaged = tree.get(disk::SEGMENT_REL) != Some(&a.segment);
        let case = Case { d, orig: orig.clone(), n_orig: orig.len(), store_level: Default::default(), accepted_by: Default::default(), intact: false, segment_damaged, subst: Default::default() };
        check_tree(&tree, &a, &case, &base, sc.host_level, ctx, false)?;
    }
    if sc.exhaustive {
        applied += exhaustive(sc, &la, &lb, &a, &orig, &base, ctx)?;
    }
    ctx.count("time.ops", applied);
    Ok(())
}

/// Shapes the unchanged tree is known to accept (DESIGN §9 item 2 and its same-log variants:
/// nothing links a transaction to its predecessor on read). Avoidance mode skips them.
fn known_shape(d: &Damage, a: &Log<'_>) -> bool {
    let nrec = a.parsed.recs.len();
    let ntx = a.txs.len();
    let is_commit = |idx: u32| nrec > 0 && a.parsed.recs[idx as usize % nrec].kind == disk::KIND_COMMIT;
    let last_commit = a.parsed.recs.iter().rposition(|r| r.kind == disk::KIND_COMMIT);
    match d {
        _ if d.cross_log() => true,
        Damage::TxSwap { .. } => true,
        Damage::TxDelete { idx, .. } => ntx > 1 && (*idx as usize % ntx) == 0,
        Damage::RecDelete { idx, .. } => is_commit(*idx) && Some(*idx as usize % nrec.max(1)) != last_commit,
        Damage::RecDup { idx, .. } => is_commit(*idx),
        _ => false,
    }
}

/// Every single-bit flip (light check) and every record-level edit (full check) of a small log.
fn exhaustive(sc: &C11, la: &Log<'_>, lb: &Log<'_>, a: &Produced, orig: &[disk::H], base: &Path, ctx: &mut RunCtx) -> Res<u64> {
    let mut n = 0u64;
    ctx.hit("reach.exhaustive_log");
    let mut plans: Vec<(Damage, bool)> = Vec::new();
    if a.segment.len() <= 8 * 1024 {
        for pos in 0..a.segment.len() {
            for bit in 0..8u8 {
                plans.push((Damage::BitFlip { file: 0, pos: pos as u32, bit }, true));
            }
        }
    }
    let nrec = la.parsed.recs.len() as u32;
    let ntx = la.txs.len() as u32;
    for level in 1..=2u8 {
        for idx in 0..nrec {
            plans.push((Damage::RecDelete { idx, level }, false));
            plans.push((Damage::RecDup { idx, level }, false));
            plans.push((Damage::RecSwap { idx, level }, false));
            plans.push((Damage::PayloadFlip { idx, pos: idx.wrapping_mul(7919), bit: (idx % 8) as u8, level }, false));
            for src in 0..lb.parsed.recs.len() as u32 {
                plans.push((Damage::TransplantRec { dst: idx, src, replace: true, level }, false));
            }
        }
        for idx in 0..ntx {
            plans.push((Damage::TxDelete { idx, level }, false));
            plans.push((Damage::TxDup { idx, level }, false));
            plans.push((Damage::TxSwap { idx, level }, false));
            for src in 0..lb.txs.len() as u32 {
                for mode in 0..3u8 {
                    plans.push((Damage::TransplantTx { dst: idx, src, mode, level }, false));
                }
            }
        }
    }
    for idx in 0..nrec {
        for to in 0..4u8 {
            plans.push((Damage::KindFlip { idx, to }, false));
        }
    }
    for idx in 0..ntx {
        for to in 1..=12u8 {
            plans.push((Damage::MarkerRelabel { idx, to }, false));
        }
    }
    for (d, light) in &plans {
        if sc.avoid && known_shape(d, la) {
            continue;
        }
        let Some(tree) = apply(d, la, lb) else { continue };
        n += 1;
        ctx.hit(&format!("fault.{}", d.name()));
        let segment_damaged = tree.get(disk::SEGMENT_REL) != Some(&a.segment);
        let case = Case { d, orig: orig.to_vec(), n_orig: orig.len(), store_level: Default::default(), accepted_by: Default::default(), intact: false, segment_damaged, subst: Default::default() };
        if *light {
            check_light(&tree, &case, base, ctx)?;
        } else {
            check_tree(&tree, a, &case, base, true, ctx, false)?;
        }
    }
    Ok(n)
}

/// Byte-level and read-only filesystem recovery only (used for the exhaustive bit sweep).
fn check_light(tree: &Tree, case: &Case<'_>, base: &Path, ctx: &mut RunCtx) -> Res<()> {
    let seg: Vec<u8> = tree.get(disk::SEGMENT_REL).cloned().unwrap_or_default();
    match crate::kernel::catch(|| recover_wal_segment_bytes(WalSegmentId::from_raw(1), &seg, RecoveryAccessMode::ReadOnly)) {
        Err(m) => bail!("panic:recover_wal_segment_bytes", "{:?}: {m}", case.d),
        Ok(Err(_)) => ctx.hit("reach.bitsweep_rejected"),
        Ok(Ok(r)) => {
            case.judge_scan("recover_wal_segment_bytes(read-only)", &r.report, ctx)?;
        }
    }
    let dir = base.join("case");
    if std::fs::write(dir.join(disk::SEGMENT_REL), &seg).is_err() {
        if let Err(e) = disk::write_tree(&dir, tree) {
            bail!("harness:case_dir", "{e}");
        }
    }
    match crate::kernel::catch(|| recover_filesystem_store(&dir, RecoveryAccessMode::ReadOnly)) {
        Err(m) => bail!("panic:recover_filesystem_store", "{:?}: {m}", case.d),
        Ok(Err(_)) => {}
        Ok(Ok(r)) => {
            case.judge_scan("recover_filesystem_store(read-only)", &r, ctx)?;
        }
    }
    if let Some(o) = case.store_level.borrow_mut().take() {
        return Err(o);
    }
    Ok(())
}

fn err_word(e: &str) -> String {
    e.chars().take_while(|c| c.is_ascii_alphanumeric()).collect()
}

/// Push one (damaged) tree through all recovery entry points. Returns the number of
/// transactions the read-only filesystem recovery accepted (0 on rejection).
fn check_tree(tree: &Tree, a: &Produced, case: &Case<'_>, base: &Path, host_level: bool, ctx: &mut RunCtx, intact: bool) -> Res<usize> {
    let seg: Vec<u8> = tree.get(disk::SEGMENT_REL).cloned().unwrap_or_default();
    case.note_forgeries(&seg, a);
    let seg_id = WalSegmentId::from_raw(1);
    // 1. bytes, both modes
    for (mode, name) in [(RecoveryAccessMode::ReadOnly, "recover_wal_segment_bytes(read-only)"), (RecoveryAccessMode::Writable, "recover_wal_segment_bytes(writable)")] {
        match crate::kernel::catch(|| recover_wal_segment_bytes(seg_id, &seg, mode)) {
            Err(m) => bail!("panic:recover_wal_segment_bytes", "{:?}: {m}", case.d),
            Ok(Err(e)) => {
                ctx.hit(&format!("reach.rejected.{}", err_word(&format!("{e:?}"))));
            }
            Ok(Ok(r)) => {
                case.judge_scan(name, &r.report, ctx)?;
            }
        }
    }
    // 2. filesystem read-only
    let dir = base.join("case");
    if let Err(e) = disk::write_tree(&dir, tree) {
        bail!("harness:case_dir", "{e}");
    }
    let mut ro_count = None;
    match crate::kernel::catch(|| recover_filesystem_store(&dir, RecoveryAccessMode::ReadOnly)) {
        Err(m) => bail!("panic:recover_filesystem_store", "{:?}: {m}", case.d),
        Ok(Err(_)) => {
            ctx.hit("reach.fs_read_only_rejected");
        }
        Ok(Ok(r)) => {
            ro_count = Some((case.judge_scan("recover_filesystem_store(read-only)", &r, ctx)?, r.last_committed_lsn()));
        }
    }
    if disk::read_tree(&dir) != *tree {
        bail!("read_only_recovery_wrote", "recover_filesystem_store(ReadOnly) changed the directory");
    }
    // 3. doctor
    match crate::kernel::catch(|| doctor_filesystem_store(&dir)) {
        Err(m) => bail!("panic:doctor_filesystem_store", "{:?}: {m}", case.d),
        Ok(Err(e)) => bail!("doctor_returned_error", "{e:?}"),
        Ok(Ok(rep)) => {
            let obstructed = matches!(rep.posture, WalDoctorPosture::Obstructed);
            match (&ro_count, obstructed) {
                (None, false) => bail!("doctor_recoverable_on_rejected_log", "doctor says {:?} but read-only recovery rejects the log", rep.posture),
                (Some(_), true) => bail!("doctor_obstructed_on_recoverable_log", "doctor obstructed although read-only recovery succeeds"),
                (Some((n, last)), false) => {
                    if rep.recovery_certificate.committed_transactions_replayed != *n as u64 || rep.recovery_certificate.last_lsn != *last {
                        bail!("doctor_disagrees_with_recovery", "doctor certificate {:?} vs {n} transactions", rep.recovery_certificate);
                    }
                }
                (None, true) => {}
            }
        }
    }
    // 4. manifest
    if tree.contains_key(disk::MANIFEST_REL) {
        match crate::kernel::catch(|| validate_filesystem_manifest(&dir)) {
            Err(m) => bail!("panic:validate_filesystem_manifest", "{:?}: {m}", case.d),
            Ok(Err(_)) => {
                ctx.hit("reach.manifest_rejected");
                if intact {
                    bail!("harness:intact_manifest_rejected", "the undamaged manifest does not validate");
                }
            }
            Ok(Ok(rep)) => {
                // Ok = the manifest agrees with the segments: it must then name the end of a prefix.
                let pos = rep.last_commit_digest.map(|d| case.unforge(&[d])[0]).map(|d| case.orig.iter().position(|o| *o == d));
                if let Some(None) = pos {
                    bail!(case.non_prefix_class(false), "validate_filesystem_manifest accepted a last commit that was never committed to this log ({:?})", case.d);
                }
                // The manifest check compares commit markers only; whether the frames behind them
                // still verify is the recovery entry points' business (counted, not demanded).
                let named = pos.flatten().map_or(0, |p| p + 1);
                if ro_count.map(|x| x.0) != Some(named) {
                    ctx.hit("reach.manifest_ok_while_recovery_differs");
                }
                if !intact {
                    ctx.hit("reach.manifest_still_valid_after_damage");
                    if matches!(case.d, Damage::BitFlip { file: 2, .. }) {
                        // The manifest carries no checksum; its manifest_digest field is not
                        // compared with anything by validate_filesystem_manifest.
                        ctx.hit("reach.manifest_flip_unnoticed");
                    }
                }
            }
        }
    }
    // 5. filesystem writable (mutates the directory)
    match crate::kernel::catch(|| recover_filesystem_store(&dir, RecoveryAccessMode::Writable)) {
        Err(m) => bail!("panic:recover_filesystem_store_writable", "{:?}: {m}", case.d),
        Ok(Err(_)) => {
            if ro_count.is_some() {
                bail!("writable_rejects_what_read_only_accepts", "{:?}", case.d);
            }
        }
        Ok(Ok(r)) => {
            let n = case.judge_scan("recover_filesystem_store(writable)", &r, ctx)?;
            if ro_count.map(|x| x.0) != Some(n) {
                bail!("writable_and_read_only_disagree", "read-only {:?} writable {n}", ro_count.map(|x| x.0));
            }
            // What the repair left on disk is again a prefix (harness parser).
            let after = std::fs::read(dir.join(disk::SEGMENT_REL)).unwrap_or_default();
            let (mut commits, parsed) = disk::commits_in(&after);
            // Every reader orders records by LSN, so the physical order of whole records in the file
            // is not part of the recovered history: compare in LSN order.
            commits.sort_by_key(|c| c.first_lsn);
            let got: Vec<disk::H> = case.unforge(&commits.iter().map(|c| c.digest).collect::<Vec<_>>());
            let stashed = case.store_level.borrow().is_some();
            if !stashed && (got.len() != n || !got.iter().zip(&case.orig).all(|(x, y)| x == y) || !matches!(parsed.tail, disk::Tail::Clean)) {
                bail!("repair_left_wrong_log", "after writable recovery the segment holds {} commits (tail {:?}), report says {n}", got.len(), parsed.tail);
            }
        }
    }
    // 6. host
    if host_level {
        if let Err(e) = disk::write_tree(&dir, tree) {
            bail!("harness:case_dir", "{e}");
        }
        let mut host = match world::fresh_host() {
            Ok(h) => h,
            Err(e) => bail!("harness:fresh_host", "{e}"),
        };
        let cb0 = callbacks();
        match crate::kernel::catch(|| host.enable_runtime_wal(world::wal_config(&dir))) {
            Err(m) => bail!("panic:enable_runtime_wal", "{:?}: {m}", case.d),
            Ok(Err(e)) => {
                ctx.hit("reach.host_rejected");
                if intact {
                    bail!("harness:intact_log_rejected_by_host", "{e:?}");
                }
            }
            Ok(Ok(())) => {
                if callbacks() != cb0 {
                    bail!("recovery_ran_callback", "{:?}", case.d);
                }
                // The history the host claims to have recovered (its own reader's order; the physical
                // record order in the file is not history).
                let got: Vec<disk::H> = host.runtime_wal().map(|w| w.commits().iter().map(|c| c.commit_digest).collect()).unwrap_or_default();
                let got = case.unforge(&got);
                let is_prefix = got.len() <= case.orig.len() && got.iter().zip(&case.orig).all(|(x, y)| x == y);
                if !is_prefix {
                    let mut sg = got.clone();
                    sg.sort_unstable();
                    let mut sp: Vec<disk::H> = case.orig.iter().take(got.len()).copied().collect();
                    sp.sort_unstable();
                    // A transaction written under a writer epoch this log never had: the writer-epoch
                    // ledger names every epoch of the log, so no missing chain check excuses this.
                    let own_epochs: std::collections::BTreeSet<disk::H> = a.commits.iter().map(|c| c.epoch).collect();
                    // (Only the epochs the ledger still retains: it keeps the newest closed epoch and
                    // the active one; below that range the unverified chain digests - the open
                    // finding - are the only link, so that shape stays in the general class.)
                    let retained_start = tree
                        .get(disk::LEDGER_REL)
                        .and_then(|l| disk::ledger_info(l))
                        .and_then(|l| l.closed.first().map(|e| e.start_lsn).or(l.active.as_ref().map(|e| e.start_lsn)));
                    let foreign_epoch = retained_start.is_some_and(|start| {
                        disk::commits_in(&seg).0.iter().any(|c| got.contains(&c.digest) && !case.orig.contains(&c.digest) && !own_epochs.contains(&c.epoch) && c.last_lsn >= start)
                    });
                    let class = if sg == sp {
                        format!("reordered_history_accepted:{}_host", case.d.stem())
                    } else if foreign_epoch {
                        ctx.hit("reach.foreign_epoch_transaction_accepted_by_host");
                        "non_prefix_history_accepted:foreign_writer_epoch_in_retained_ledger_range_host".to_owned()
                    } else {
                        case.non_prefix_class(true)
                    };
                    let cert = host.runtime_wal().and_then(|w| w.recover_read_only().ok()).map(|r| r.certificate.committed_transactions_replayed);
                    bail!(
                        class,
                        "enable_runtime_wal accepted a log whose {} committed transactions are not a prefix of the {} original ones (certificate: {:?} transactions replayed), damage {:?}; store-level acceptance by: {:?}",
                        got.len(),
                        case.orig.len(),
                        cert,
                        case.d,
                        case.accepted_by.borrow()
                    );
                }
                let t = got.len();
                let o = obs_of(&mut host, &a.sub_ids, "damaged")?;
                let d = o.diff(&a.twin_obs[t]);
                if let Some(first) = d.first() {
                    let key = first.split(':').next().unwrap_or("?").to_owned();
                    bail!(
                        format!("host_differs_from_twin_prefix:{}:{key}", case.d.stem()),
                        "host opened the damaged log ({:?}) as {t} transactions but differs from Twin({t}):\n{}",
                        case.d,
                        d.join("\n")
                    );
                }
                ctx.hit("reach.host_accepted_prefix");
                if !intact {
                    if matches!(case.d, Damage::BitFlip { file: 1, .. }) {
                        bail!("damage_unnoticed:ledger_flip_host", "enable_runtime_wal accepted a writer-epoch ledger with a flipped bit: {:?}", case.d);
                    }
                    ctx.hit(&format!("reach.host_accepted_after.{}", case.d.stem()));
                }
                ctx.trace(&o.digest());
            }
        }
        drop(host);
    }
    if let Some(o) = case.store_level.borrow_mut().take() {
        return Err(match o {
            Outcome::Violation { class, detail } => {
                Outcome::violation(class, format!("{detail}; accepted by: {:?}; host-level reopen: {}", case.accepted_by.borrow(), if host_level { "rejected" } else { "not run" }))
            }
            other => other,
        });
    }
    Ok(ro_count.map_or(0, |x| x.0))
}
