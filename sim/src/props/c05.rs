//! C05 — history is hash-chained and tamper-evident.
//!
//! One scenario = one real multi-worldline, multi-head history produced by the runtime world (plus a
//! sibling history that differs in one intent) and a handful of tampers. The byzantine party is the
//! retained / transported material: provenance entries, checkpoints, the registered initial boundary,
//! a BTR and a witnessed-suffix bundle. Delivery paths: (1) `TamperStore<P: ProvenanceStore>` handed to
//! `PlaybackCursor::seek_to/step`; (2) a fresh `ProvenanceService` rebuilt with `register_worldline` +
//! `append_local_commit`, then `replay_worldline_state_at`, `add_checkpoint`, `fork`, `validate_btr`;
//! (3) `validate_btr` / `import_suffix` / `evaluate_witnessed_suffix_admission` on altered records.
//!
//! Oracle: untampered material verifies and equals `world.live`; every tamper ends in a typed error /
//! obstructed admission, or in `Ok` with a verified state identical to the untampered run (per target
//! tick: reachable abstract state, state root, and per chain link commit id, state root, patch digest,
//! parent commit ids, tick number, policy). Never a panic, never `Ok` with a different verified state.
//!
//! Forgery levels: L1 = the one field; L2 = field + patch digest; L3 = field + patch digest + (state
//! root) + the entry's own commit id, below the store's tip only. A self-consistent, properly chained
//! replacement of the LAST entry a store holds is a different valid history (only the external anchor,
//! the tip commit id, tells it apart) and is never delivered (`valid_alternative_tip`).
//!
//! Violation classes: `untampered_history_rejected`, `untampered_replay_differs_from_live`,
//! `chain_invariant:{gap,parents,commit_id,patch_digest,initial_boundary,append_only,live_mismatch}`,
//! `different_state_verified:<what>[_via_append|_via_add_checkpoint][_as_last_applied]`,
//! `tampered_btr_accepted:<field>`, `verifier_panicked:<call>`.

mod history;
mod store;
mod tamper;
mod verify;

use serde::{Deserialize, Serialize};
use warp_core::{
    evaluate_witnessed_suffix_admission, import_suffix, CheckpointRef, ImportSuffixRequest, ProvenanceEntry, ProvenanceRef, ReplayCheckpoint, TickReceipt,
    TxId, WitnessedSuffixAdmissionOutcome, WitnessedSuffixAdmissionRequest, WorldlineId, WorldlineState, WorldlineTick, WorldlineTickHeaderV1,
    WorldlineTickPatchV1,
};

use self::history::{build, verified, Hist, ImportCtx, Op, Plan, WlHist};
use self::store::TamperStore;
use self::tamper::{
    flip, junk_op, mutate_entry, recompute_commit_id, recompute_patch_digest, refresh_decision_digest, BtrField, CpField, Env, Kind, Level, Path,
    RefPart, SfxField, Tamper, CP_FIELDS, ENTRY_FIELDS, REF_PARTS,
};
use self::verify::{err_name, honest_feed, rebuild, seam_sweep, targets_for, verify_added_checkpoint, verify_rebuilt, Judged};
use crate::kernel::{catch, Outcome, PropertySpec, Rng, RunCtx, Scenario, Tier};
use crate::props::c01::knobs;
use crate::world::ids;
use crate::world::prog::Step;
use crate::world::runtime::{gen_intent, gen_world, Intent, WorldSpec};

pub const SPEC: PropertySpec = PropertySpec {
    id: "C05",
    level: "fault_enumeration",
    rule: "scenario = world (1-3 worldlines x 1-3 heads) + delivery/pass tape (3-12 passes quick, <=40 thorough) of honest intents with unique nonces + sibling variant of one intent + checkpoint/fork/BTR/suffix selectors + 5-20 tampers (artifact, position, field, new value, forgery level L1/L2/L3, delivery path seam/rebuild); non-trivial = a tamper applied to and consulted from a history of >= 2 ticks; distinct = hash of (history, tamper plan). Fault counters are fault.<tamper kind>.<L1|L2|L3>; SPEC.fault_kinds lists the kinds without the level suffix.",
    quick_runs: 4_000,
    thorough_runs: 16_000,
    real_components: &[
        "SchedulerCoordinator::super_tick -> ProvenanceService::append_local_commit (history production)",
        "PlaybackCursor::seek_to / step generic over ProvenanceStore (advance_replay_state, restore_replay_base, validate_replay_base, replay_artifacts_for_entry)",
        "ProvenanceService: register_worldline, append_local_commit / append_recorded_event (validate_shared_entry, validate_local_commit_entry), replay_worldline_state_at, add_checkpoint (validate_checkpoint_for_history), fork, build_btr, validate_btr",
        "BoundaryTransitionRecord::validate, BtrPayload::validate",
        "export_suffix, import_suffix, evaluate_witnessed_suffix_admission, derive_witnessed_suffix_shell_digest",
        "compute_commit_hash_v2, WarpTickPatchV1::new(..).digest()",
    ],
    stub_components: &[
        "TamperStore<P: ProvenanceStore>: simulator-owned wrapper of the real store that serves altered entries / parents / checkpoints / boundary / length",
        "WitnessedSuffixExportContext / WitnessedSuffixAdmissionContext: harness implementations over the real ProvenanceService (honest receiver: recomputes the shell digest, resolves the basis in its store, shape-only posture 'admissible')",
        "application rules: data-driven interpreter",
    ],
    assumptions: &[
        "the commit id of the LAST entry a store holds is the external trust anchor: a fully re-hashed forgery of the tip is a different valid history and is not generated; likewise a suffix bundle whose witness AND bundle digests are both recomputed",
        "verified state = reachable abstract state + state root + chain links (commit id, state root, patch digest, parent commit ids, tx/tick, policy); commit_global_tick, outputs, atom writes, plan/decision/rewrites digests, head key, event kind, receipt (bound only to the uncommitted decision digest), BTR auth tag / logical counter are outside the chain by merkle-commit.md: accepted alterations are counted as reach.accepted_unbound_metadata.<field>",
        "content not reachable from the root is outside the state root (merkle-commit.md decision 1) and is not compared",
    ],
    fault_kinds: FAULT_KINDS,
};

const FAULT_KINDS: &[&str] = &[
    "fault.entry_worldline_id",
    "fault.entry_worldline_tick",
    "fault.commit_global_tick",
    "fault.head_key_none",
    "fault.head_key",
    "fault.head_key_worldline",
    "fault.parent_worldline",
    "fault.parent_tick",
    "fault.parent_commit",
    "fault.parents_dropped",
    "fault.parents_extra",
    "fault.parents_grandparent",
    "fault.event_kind",
    "fault.expected_state_root",
    "fault.expected_patch_digest",
    "fault.expected_commit_hash",
    "fault.patch_none",
    "fault.patch_warp_id",
    "fault.op_removed",
    "fault.op_duplicated",
    "fault.op_reordered",
    "fault.op_field",
    "fault.op_inserted",
    "fault.in_slot_removed",
    "fault.in_slot_duplicated",
    "fault.in_slots_reordered",
    "fault.in_slot_field",
    "fault.in_slot_added",
    "fault.out_slot_removed",
    "fault.out_slot_duplicated",
    "fault.out_slots_reordered",
    "fault.out_slot_field",
    "fault.out_slot_added",
    "fault.plan_digest",
    "fault.decision_digest",
    "fault.rewrites_digest",
    "fault.header_commit_global_tick",
    "fault.policy_id",
    "fault.rule_pack_id",
    "fault.patch_digest_in_patch",
    "fault.tick_receipt_none",
    "fault.receipt_entry_rule",
    "fault.receipt_entry_scope_hash",
    "fault.receipt_entry_scope",
    "fault.receipt_entry_disposition",
    "fault.receipt_entry_removed",
    "fault.receipt_entry_duplicated",
    "fault.receipt_tx",
    "fault.receipt_blockers",
    "fault.outputs",
    "fault.atom_writes",
    "fault.entries_swapped",
    "fault.entry_duplicated",
    "fault.history_truncated",
    "fault.transplanted_other_worldline_entry",
    "fault.transplanted_sibling_entry",
    "fault.initial_boundary_hash",
    "fault.u0_ref",
    "fault.checkpoint_tick",
    "fault.checkpoint_state_hash",
    "fault.checkpoint_state_hash_other_tick",
    "fault.checkpoint_state_other_tick",
    "fault.checkpoint_state_graph",
    "fault.checkpoint_state_unreachable_graph",
    "fault.checkpoint_state_history_dropped",
    "fault.checkpoint_state_from_sibling",
    "fault.checkpoint_state_other_worldline",
    "fault.btr_worldline_id",
    "fault.btr_u0_ref",
    "fault.btr_input_boundary",
    "fault.btr_output_boundary",
    "fault.btr_payload_worldline",
    "fault.btr_payload_start_tick",
    "fault.btr_entry.<entry field>",
    "fault.btr_entry_dropped",
    "fault.btr_entry_duplicated",
    "fault.btr_entries_swapped",
    "fault.btr_logical_counter",
    "fault.btr_auth_tag",
    "fault.suffix_base_frontier",
    "fault.suffix_target_frontier",
    "fault.suffix_source_worldline",
    "fault.suffix_start_tick",
    "fault.suffix_end_tick",
    "fault.suffix_source_entry",
    "fault.suffix_source_entry_dropped",
    "fault.suffix_source_entry_duplicated",
    "fault.suffix_source_entries_swapped",
    "fault.suffix_boundary_witness",
    "fault.suffix_witness_digest",
    "fault.suffix_bundle_digest",
];

/// Classes of the findings recorded for C05 (one root cause each, see `known_shape`). They are
/// reported like any other violation; they only yield precedence to unlisted classes inside one scenario.
const LISTED_FAMILIES: &[&str] = &[
    "different_state_verified:transplanted_sibling_entry",
    "different_state_verified:transplanted_sibling_entry_as_last_applied",
    "different_state_verified:forged_non_tip_entry",
    "different_state_verified:forged_non_tip_entry_as_last_applied",
    "different_state_verified:entry_duplicated",
    "different_state_verified:entry_duplicated_as_last_applied",
    "different_state_verified:entries_swapped",
    "different_state_verified:entries_swapped_as_last_applied",
    "different_state_verified:entry_duplicated_via_append",
    "different_state_verified:transplanted_other_worldline_entry",
    "different_state_verified:transplanted_other_worldline_entry_as_last_applied",
    "different_state_verified:checkpoint_replay_metadata",
    "verifier_panicked:checkpoint_replay_metadata",
];

#[derive(Clone, Debug, Serialize, Deserialize)]
pub struct SiblingSpec {
    /// index into `ops` of the Deliver that the sibling history replaces
    pub op: usize,
    pub intent: Intent,
}

#[derive(Clone, Debug, Serialize, Deserialize)]
pub struct C05 {
    pub world: WorldSpec,
    pub ops: Vec<Op>,
    pub sibling: Option<SiblingSpec>,
    /// (worldline selector, tick selector)
    pub checkpoints: Vec<(u8, u32)>,
    pub fork: (u8, u32),
    pub btr: (u8, u32, u32),
    pub suffix: (u8, u32, bool),
    pub tampers: Vec<Tamper>,
}

/// Drop steps that cannot apply to the target worldline's initial root instance (writes to nodes /
/// edges that are not there) and, unless `keep_deletes`, deletions: C05 needs long honest histories,
/// not failing passes (those are C09's subject).
fn sanitize(intent: &mut Intent, world: &WorldSpec, keep_deletes: bool) {
    use crate::world::prog::N;
    let Some(inst) = world.worldlines.iter().find(|w| w.id == intent.wl()).and_then(|w| w.state.insts.first()) else { return };
    let has_node = |n: &N| match n {
        N::D(_) => inst.nodes.iter().any(|(m, _)| m == n),
        N::R(w) => *w == inst.w,
        _ => true,
    };
    let has_edge = |e: &u8| inst.edges.iter().any(|(x, ..)| x == e);
    let ok = |s: &Step| -> bool {
        match s {
            Step::DeleteNode { n } => keep_deletes && has_node(n),
            Step::DeleteEdge { e, .. } => keep_deletes && has_edge(e),
            Step::UpsertEdge { from, to, .. } => has_node(from) && has_node(to),
            Step::SetNodeAtt { n, .. } => has_node(n),
            Step::SetEdgeAtt { e, .. } => has_edge(e),
            Step::CopyNodeAtt { dst, .. } | Step::CountAdjInto { dst, .. } | Step::NodeInfoInto { dst, .. } | Step::EdgeFlagInto { dst, .. } | Step::CopyEdgeAttInto { dst, .. } => has_node(dst),
            Step::IfEdge { then, .. } => match &**then {
                Step::SetNodeAtt { n, .. } => has_node(n),
                _ => true,
            },
            _ => true,
        }
    };
    intent.prog.steps.retain(ok);
    if intent.prog.steps.is_empty() {
        intent.prog.steps.push(Step::Noop);
    }
}

fn variant_of(rng: &mut Rng, base: &Intent) -> Intent {
    let mut i = base.clone();
    i.prog.nonce |= 0x4000_0000;
    // change the first written value so that the sibling tick differs in reachable state when possible
    for s in i.prog.steps.iter_mut() {
        match s {
            Step::SetNodeAtt { val, .. } | Step::SetEdgeAtt { val, .. } => {
                *val = match val.take() {
                    Some(mut v) => {
                        v.bytes.push(b'~');
                        Some(v)
                    }
                    None => Some(crate::world::prog::Val { ty: rng.below(3) as u8, bytes: vec![b'~'] }),
                };
                break;
            }
            Step::UpsertNode { ty, .. } | Step::UpsertEdge { ty, .. } => {
                *ty = (*ty + 1) % ids::N_TYPES;
                break;
            }
            _ => {}
        }
    }
    i
}

fn gen_tamper(rng: &mut Rng, avoid: bool, have_sibling: bool) -> Tamper {
    let mut level = match rng.weighted(&[5, 3, 3]) {
        0 => Level::L1,
        1 => Level::L2,
        _ => Level::L3,
    };
    let mut path = if rng.chance(1, 2) { Path::Seam } else { Path::Rebuild };
    let kind = match rng.weighted(&[56, 5, 5, 3, 4, if have_sibling { 8 } else { 0 }, 2, 1, 12, 9, 9]) {
        0 => Kind::Entry(*rng.pick(ENTRY_FIELDS)),
        1 => Kind::Swap,
        2 => Kind::Duplicate,
        3 => Kind::Truncate,
        4 => Kind::TransplantWorldline,
        5 => Kind::TransplantSibling,
        6 => Kind::InitialBoundary,
        7 => Kind::U0,
        8 => Kind::Checkpoint(*rng.pick(CP_FIELDS)),
        9 => Kind::Btr(match rng.below(14) {
            0 => BtrField::Worldline,
            1 => BtrField::U0,
            2 => BtrField::Input,
            3 => BtrField::Output,
            4 => BtrField::PayloadWorldline,
            5 => BtrField::PayloadStart,
            6 => BtrField::EntryDrop,
            7 => BtrField::EntryDup,
            8 => BtrField::EntrySwap,
            9 => BtrField::Counter,
            10 => BtrField::AuthTag,
            _ => BtrField::Entry(*rng.pick(ENTRY_FIELDS)),
        }),
        _ => Kind::Suffix(match rng.below(12) {
            0 => SfxField::Base(*rng.pick(REF_PARTS)),
            1 => SfxField::Target(*rng.pick(REF_PARTS)),
            2 => SfxField::SourceWorldline,
            3 => SfxField::StartTick,
            4 => SfxField::EndTick,
            5 | 6 => SfxField::Entry(*rng.pick(REF_PARTS)),
            7 => SfxField::EntryDrop,
            8 => SfxField::EntryDup,
            9 => SfxField::EntrySwap,
            10 => SfxField::Boundary,
            _ => {
                if rng.chance(1, 2) {
                    SfxField::WitnessDigest
                } else {
                    SfxField::BundleDigest
                }
            }
        }),
    };
    if avoid {
        // steer around the shapes of the listed findings (see `known_shape`)
        let mut t = Tamper { kind, path, level, wl: 0, pos: 0, aux: 0, salt: 1, fix_state_root: false, with_checkpoints: false };
        for _ in 0..4 {
            if !known_shape(&t) {
                break;
            }
            match t.kind {
                Kind::Entry(_) => t.level = Level::L2,
                Kind::TransplantWorldline => t.path = Path::Rebuild,
                Kind::Duplicate if t.path == Path::Rebuild => t.level = Level::L1,
                Kind::Duplicate | Kind::Swap | Kind::TransplantSibling => t.path = Path::Rebuild,
                Kind::Checkpoint(_) => t.path = Path::Rebuild,
                _ => {}
            }
        }
        level = t.level;
        path = t.path;
    }
    Tamper { kind, path, level, wl: rng.below(251) as u8, pos: rng.below(1 << 20) as u32, aux: rng.below(1 << 20) as u32, salt: rng.range(1, 255) as u8, fix_state_root: rng.chance(1, 2), with_checkpoints: rng.chance(1, 2) }
}

/// Shapes of genuine defects found on the unchanged tree (see the findings of C05): runs generated
/// with `avoid_known` do not contain them, so everything else is still explored to full depth.
fn known_shape(t: &Tamper) -> bool {
    match (&t.kind, t.path) {
        // replay through the store seam never compares an entry's parents with its predecessor / successor
        (Kind::TransplantSibling, Path::Seam) => true,
        (Kind::Entry(_), Path::Seam) => t.level == Level::L3,
        // ... nor the entry's own coordinates (worldline id, tick) with the requested ones
        (Kind::TransplantWorldline, Path::Seam) => true,
        (Kind::Duplicate | Kind::Swap, Path::Seam) => true,
        // append_local_commit does not require the parents of an appended entry to name the current tip
        (Kind::Duplicate, Path::Rebuild) => t.level != Level::L1,
        // restore_replay_base checks only the state root of a stored checkpoint, not its replay metadata
        (Kind::Checkpoint(f), Path::Seam) => matches!(f, CpField::NoHistory | CpField::FromSibling | CpField::StateOtherTick | CpField::Tick | CpField::OtherWorldline),
        _ => false,
    }
}

impl Scenario for C05 {
    fn generate(rng: &mut Rng, tier: Tier, avoid: bool) -> Self {
        let world = gen_world(rng, 3, 3, 4);
        let mut kn = knobs(rng, avoid);
        kn.absent_16 = 0;
        let n_pass = match tier {
            Tier::Quick => rng.urange(3, 12),
            Tier::Thorough => *rng.pick(&[4usize, 8, 12, 16, 24, 40]),
        };
        let mut ops = Vec::new();
        let mut nonce = 1u32;
        let mut delivers = Vec::new();
        for _ in 0..n_pass {
            // now and then a burst of intents for one head, so that receipts carry rejected entries
            // with blocker attribution (several candidates in one tick)
            let burst = rng.chance(1, 6);
            let n_deliver = if burst { rng.urange(3, 6) } else { rng.weighted(&[1, 5, 3, 2]) };
            let mut burst_target = None;
            for _ in 0..n_deliver {
                delivers.push(ops.len());
                let mut intent = gen_intent(rng, &world, nonce, &kn);
                if burst {
                    match &burst_target {
                        None => burst_target = Some((intent.target.clone(), intent.kind)),
                        Some((t, k)) => {
                            // same head; regenerate the program against that worldline's state
                            let wl = match t {
                                crate::world::runtime::TargetSpec::Default { wl } | crate::world::runtime::TargetSpec::Inbox { wl, .. } | crate::world::runtime::TargetSpec::Exact { wl, .. } => *wl,
                            };
                            if let Some(w) = world.worldlines.iter().find(|w| w.id == wl) {
                                intent.prog = crate::world::gen::gen_prog(rng, &w.state, 0, intent.prog.rule, nonce, &kn);
                            }
                            intent.target = t.clone();
                            intent.kind = *k;
                        }
                    }
                }
                // Programs are generated against the initial state; deletions make later programs
                // inapplicable (a failed pass quarantines the head and cuts the history short): keep few.
                let keep_deletes = rng.chance(1, 4);
                sanitize(&mut intent, &world, keep_deletes);
                // Most generated programs touch content the root does not reach; a marker write to the
                // (always reachable) root node makes the tick move the state root, so that reordered or
                // replaced ticks cannot pass for each other by accident.
                if rng.chance(3, 5) {
                    intent.prog.steps.push(Step::SetNodeAtt { n: crate::world::prog::N::R(0), val: Some(crate::world::prog::Val { ty: (nonce % 3) as u8, bytes: nonce.to_le_bytes().to_vec() }) });
                }
                ops.push(Op::Deliver(intent));
                nonce += 1;
            }
            ops.push(Op::Pass);
        }
        let sibling = if !delivers.is_empty() && rng.chance(4, 5) {
            // prefer an early intent so that the histories share a prefix and then diverge for several ticks
            let k = delivers[rng.usize_below(delivers.len().min(6))];
            let base = match &ops[k] {
                Op::Deliver(b) => b.clone(),
                Op::Pass => gen_intent(rng, &world, nonce, &kn),
            };
            let base = &base;
            let intent = if rng.chance(2, 3) {
                variant_of(rng, base)
            } else {
                let mut alt = gen_intent(rng, &world, 0x4000_0000 | nonce, &kn);
                alt.target = base.target.clone();
                alt.kind = base.kind;
                // keep the program in the target worldline's universe: regenerate against that worldline's state
                if let Some(wl) = world.worldlines.iter().find(|w| w.id == base.wl()) {
                    alt.prog = crate::world::gen::gen_prog(rng, &wl.state, 0, alt.prog.rule, 0x4000_0000 | nonce, &kn);
                }
                sanitize(&mut alt, &world, false);
                alt
            };
            Some(SiblingSpec { op: k, intent })
        } else {
            None
        };
        let checkpoints = (0..rng.urange(0, 3)).map(|_| (rng.below(251) as u8, rng.below(1 << 16) as u32)).collect();
        let n_t = rng.urange(5, 20);
        let tampers = (0..n_t).map(|_| gen_tamper(rng, avoid, sibling.is_some())).collect();
        C05 {
            world,
            ops,
            sibling,
            checkpoints,
            fork: (rng.below(251) as u8, rng.below(1 << 16) as u32),
            btr: (rng.below(251) as u8, rng.below(1 << 16) as u32, rng.below(1 << 16) as u32),
            suffix: (rng.below(251) as u8, rng.below(1 << 16) as u32, rng.chance(1, 2)),
            tampers,
        }
    }

    fn execute(&self, ctx: &mut RunCtx) -> Outcome {
        let plan = Plan { checkpoints: &self.checkpoints, fork: self.fork, btr: self.btr, suffix: self.suffix };
        let sib = self.sibling.as_ref().filter(|s| matches!(self.ops.get(s.op), Some(Op::Deliver(_)))).map(|s| (s.op, &s.intent));
        let hist = match build(&self.world, &self.ops, sib, &plan, ctx) {
            Ok(h) => h,
            Err(v) => return v,
        };
        // the seam itself must be transparent: a wrapper with no alteration verifies like the real store
        for wl in &hist.wls {
            let store = TamperStore::new(&hist.with_cp);
            let mut j = Judged::default();
            j.absorb(seam_sweep(&store, wl, &targets_for(wl.len(), wl.len()), ctx), &wl.vref);
            for o in seam_sweep(&store, wl, &targets_for(wl.len(), 0), ctx) {
                if let verify::R::Err(e) = &o.r {
                    if o.target <= wl.len() {
                        return Outcome::violation("untampered_history_rejected", format!("worldline {} target {} ({}): {e}", wl.idx, o.target, o.mode));
                    }
                }
            }
            if let Some((t, m, p)) = j.panics.first() {
                return Outcome::violation("verifier_panicked:seek", format!("untampered worldline {} target {t} ({m}): {p}", wl.idx));
            }
            if let Some((t, m, d)) = j.wrong.first() {
                return Outcome::violation("untampered_history_rejected", format!("cursor on worldline {} target {t} ({m}) differs from service replay: {d}", wl.idx));
            }
        }
        let mut applied = 0u64;
        // Every tamper is executed even after one of them showed a violation, and a violation outside
        // the families of the listed findings is reported in preference to one inside them, so that a
        // frequent listed finding cannot hide a rarer new one inside the same scenario (DESIGN 7, masking).
        let mut first_listed: Option<Outcome> = None;
        for (ti, t) in self.tampers.iter().enumerate() {
            match apply_tamper(&hist, t, ctx) {
                Ok(true) => applied += 1,
                Ok(false) => ctx.hit("reach.tamper_not_applicable"),
                Err(Outcome::Violation { class, detail }) => {
                    let v = Outcome::violation(class.clone(), format!("tamper #{ti} {t:?}: {detail}"));
                    if LISTED_FAMILIES.iter().any(|f| class == *f) {
                        first_listed.get_or_insert(v);
                    } else {
                        return v;
                    }
                }
                Err(Outcome::Ok) => {}
            }
        }
        ctx.trace_str(&format!("ticks={} applied={applied}", hist.ticks));
        if (applied > 0 || first_listed.is_some()) && hist.wls.iter().any(|w| w.len() >= 2) {
            ctx.nontrivial(&serde_json::to_vec(self).unwrap_or_default());
        }
        if let Some(v) = first_listed {
            // self-check of the avoidance mode: a listed class must come from a listed shape
            if !self.tampers.iter().any(known_shape) {
                ctx.hit("reach.listed_class_without_listed_shape");
            }
            return v;
        }
        Outcome::Ok
    }

    fn shrink_candidates(&self) -> Vec<Self> {
        let mut out = Vec::new();
        // fewer tampers first: a violation names one tamper
        if self.tampers.len() > 1 {
            for i in 0..self.tampers.len() {
                let mut s = self.clone();
                s.tampers = vec![self.tampers[i].clone()];
                out.push(s);
            }
        }
        for i in 0..self.tampers.len() {
            let mut s = self.clone();
            s.tampers.remove(i);
            out.push(s);
        }
        // shorter history: drop trailing ops, then single ops
        if self.ops.len() > 1 {
            let mut s = self.clone();
            s.ops.truncate(self.ops.len() - 1);
            s.fix_sibling();
            out.push(s);
        }
        for i in 0..self.ops.len() {
            let mut s = self.clone();
            s.ops.remove(i);
            if let Some(sib) = s.sibling.as_mut() {
                if sib.op == i {
                    s.sibling = None;
                } else if sib.op > i {
                    sib.op -= 1;
                }
            }
            out.push(s);
        }
        if self.sibling.is_some() {
            let mut s = self.clone();
            s.sibling = None;
            out.push(s);
        }
        for i in 0..self.checkpoints.len() {
            let mut s = self.clone();
            s.checkpoints.remove(i);
            out.push(s);
        }
        if self.world.worldlines.len() > 1 {
            let last = self.world.worldlines.len() - 1;
            let id = self.world.worldlines[last].id;
            let mut s = self.clone();
            s.world.worldlines.pop();
            let mut kept = Vec::new();
            let mut sib_op = s.sibling.as_ref().map(|x| x.op);
            for (i, o) in self.ops.iter().enumerate() {
                let drop = matches!(o, Op::Deliver(x) if x.wl() == id);
                if drop {
                    if sib_op == Some(i) {
                        sib_op = None;
                        s.sibling = None;
                    }
                } else {
                    if sib_op == Some(i) {
                        if let Some(x) = s.sibling.as_mut() {
                            x.op = kept.len();
                        }
                    }
                    kept.push(o.clone());
                }
            }
            s.ops = kept;
            out.push(s);
        }
        for wi in 0..self.world.worldlines.len() {
            if self.world.worldlines[wi].heads.len() > 1 {
                let mut s = self.clone();
                let h = s.world.worldlines[wi].heads.pop();
                if h.is_some_and(|h| h.default) {
                    s.world.worldlines[wi].heads[0].default = true;
                }
                out.push(s);
            }
            for st in crate::props::c04::shrink_spec(&self.world.worldlines[wi].state) {
                let mut s = self.clone();
                s.world.worldlines[wi].state = st;
                out.push(s);
            }
        }
        for (oi, op) in self.ops.iter().enumerate() {
            if let Op::Deliver(i) = op {
                if i.prog.steps.len() > 1 {
                    for si in 0..i.prog.steps.len() {
                        let mut s = self.clone();
                        if let Op::Deliver(x) = &mut s.ops[oi] {
                            x.prog.steps.remove(si);
                        }
                        out.push(s);
                    }
                }
            }
        }
        if self.world.workers > 1 {
            let mut s = self.clone();
            s.world.workers = 1;
            out.push(s);
        }
        for i in 0..self.tampers.len() {
            let t = &self.tampers[i];
            if t.pos > 0 {
                let mut s = self.clone();
                s.tampers[i].pos = 0;
                out.push(s);
            }
            if t.wl > 0 {
                let mut s = self.clone();
                s.tampers[i].wl = 0;
                out.push(s);
            }
            if t.aux > 0 {
                let mut s = self.clone();
                s.tampers[i].aux = 0;
                out.push(s);
            }
            if t.with_checkpoints {
                let mut s = self.clone();
                s.tampers[i].with_checkpoints = false;
                out.push(s);
            }
        }
        out
    }
}

impl C05 {
    fn fix_sibling(&mut self) {
        if self.sibling.as_ref().is_some_and(|s| s.op >= self.ops.len()) {
            self.sibling = None;
        }
    }
}

// ---------------------------------------------------------------------------
// Applying one tamper
// ---------------------------------------------------------------------------

fn pick_wl(hist: &Hist, sel: u8, min_len: u64) -> Option<&WlHist> {
    let c: Vec<&WlHist> = hist.wls.iter().filter(|w| w.len() >= min_len).collect();
    if c.is_empty() {
        None
    } else {
        Some(c[(sel as usize) % c.len()])
    }
}

fn other_worldline(hist: &Hist, wl: &WlHist, sel: u32) -> Option<WorldlineId> {
    let c: Vec<&WlHist> = hist.wls.iter().filter(|w| w.idx != wl.idx).collect();
    if c.is_empty() {
        None
    } else {
        Some(c[(sel as usize) % c.len()].id)
    }
}

/// Rewrite the tick identity of an entry the way a forger would (tick field and the receipt's tx).
fn retick(e: &mut ProvenanceEntry, tick: u64) {
    e.worldline_tick = WorldlineTick::from_raw(tick);
    if let Some(r) = e.tick_receipt.as_ref() {
        let entries = r.entries().to_vec();
        let blockers = (0..entries.len()).map(|i| r.blocked_by(i).to_vec()).collect();
        if let Ok(n) = TickReceipt::try_from_retained_parts(TxId::from_raw(tick + 1), entries, blockers) {
            e.tick_receipt = Some(n);
        }
    }
}

fn rehome(e: &mut ProvenanceEntry, from: WorldlineId, to: WorldlineId) {
    e.worldline_id = to;
    if let Some(h) = e.head_key.as_mut() {
        if h.worldline_id == from {
            h.worldline_id = to;
        }
    }
    for p in &mut e.parents {
        if p.worldline_id == from {
            p.worldline_id = to;
        }
    }
}

fn apply_patch_ops(state: &WorldlineState, ops: Vec<warp_core::WarpOp>) -> Option<WorldlineState> {
    let mut s = state.clone();
    let p = WorldlineTickPatchV1 {
        header: WorldlineTickHeaderV1 { commit_global_tick: warp_core::GlobalTick::from_raw(0), policy_id: 0, rule_pack_id: [0; 32], plan_digest: [0; 32], decision_digest: [0; 32], rewrites_digest: [0; 32] },
        warp_id: state.root().warp_id,
        ops,
        in_slots: Vec::new(),
        out_slots: Vec::new(),
        patch_digest: [0; 32],
    };
    p.apply_to_worldline_state(&mut s).ok()?;
    Some(s)
}

/// State root a forger computes for an altered entry: its patch applied to the honest pre-state.
fn forged_state_root(wl: &WlHist, pos: u64, e: &ProvenanceEntry) -> Option<[u8; 32]> {
    let mut s = wl.states.get(pos as usize)?.clone();
    e.patch.as_ref()?.apply_to_worldline_state(&mut s).ok()?;
    Some(s.state_root())
}

struct Verdict<'a> {
    name: String,
    /// class family used when a different state is verified
    family: String,
    level: Level,
    path: &'a str,
    unbound: bool,
    /// tick whose served entry is altered (for the "only as last applied entry" distinction)
    pos: Option<u64>,
    fired: bool,
    is_checkpoint: bool,
}

fn conclude(v: Verdict<'_>, j: Judged, ctx: &mut RunCtx) -> Result<bool, Outcome> {
    if !v.fired && j.accepted.is_empty() && j.rejected.is_empty() && j.wrong.is_empty() && j.panics.is_empty() {
        ctx.hit("reach.tamper_not_consulted");
        return Ok(false);
    }
    ctx.hit(&format!("fault.{}.{}", v.name, v.level.name()));
    ctx.hit(&format!("reach.path.{}", v.path));
    if let Some((t, m, p)) = j.panics.first() {
        let first = p.lines().take(3).collect::<Vec<_>>().join(" | ").chars().take(240).collect::<String>();
        let class = if v.family == "checkpoint_replay_metadata" { "verifier_panicked:checkpoint_replay_metadata".to_owned() } else { format!("verifier_panicked:{m}") };
        return Err(Outcome::violation(class, format!("{} ({}, {}): target {t} ({m}): {first}", v.name, v.level.name(), v.path)));
    }
    if !j.wrong.is_empty() {
        // class = what was altered, through which trust boundary it came in (the store seam is the
        // default; the append API and add_checkpoint validate on the way in), and whether the altered
        // entry was only ever accepted as the last one applied
        let only_last = v.path == "seam" && v.pos.is_some_and(|p| j.wrong.iter().all(|(t, _, _)| *t == p + 1));
        let via = match v.path {
            _ if j.wrong.iter().all(|(_, m, _)| *m == "recovery") => "_via_runtime_recovery",
            "rebuild" if v.is_checkpoint => "_via_add_checkpoint",
            "rebuild" => "_via_append",
            _ => "",
        };
        let class = format!("different_state_verified:{}{via}{}", v.family, if only_last { "_as_last_applied" } else { "" });
        let list: Vec<String> = j.wrong.iter().take(6).map(|(t, m, d)| format!("target {t} ({m}): {d}")).collect();
        return Err(Outcome::violation(class, format!("{} ({}, {}) at position {:?}: verifier returned Ok with a different verified state: {}", v.name, v.level.name(), v.path, v.pos, list.join("; "))));
    }
    if !j.accepted.is_empty() {
        if v.unbound {
            ctx.hit(&format!("reach.accepted_unbound_metadata.{}", v.name));
        } else {
            ctx.hit("reach.accepted_harmless");
            ctx.hit(&format!("reach.accepted_harmless.{}", v.name));
        }
    } else {
        ctx.hit("reach.rejected_typed");
        if let Some((_, m, e)) = j.rejected.first() {
            ctx.hit(&format!("reach.rejected_by.{m}.{}", err_name(e)));
        }
    }
    ctx.trace_str(&format!("{} {} {} acc={} rej={}", v.name, v.level.name(), v.path, j.accepted.len(), j.rejected.len()));
    Ok(true)
}

/// Deliver an altered entry sequence for one worldline through the chosen path.
/// `overrides`: (tick, entry) served instead of the original; `truncate`: reported length.
fn deliver_entries(hist: &Hist, wl: &WlHist, t: &Tamper, overrides: Vec<(u64, ProvenanceEntry)>, truncate: Option<u64>, focus: u64, ctx: &mut RunCtx) -> Option<(Judged, bool)> {
    let mut j = Judged::default();
    let truncated = truncate.is_some();
    if valid_alternative_tip(wl, &overrides, truncate) {
        ctx.hit("reach.skipped_valid_alternative_tip");
        return None;
    }
    // Runtime recovery indexes transported entries by their own coordinate, so an entry that names
    // another worldline does not stand in for this worldline's entry there (it merely leaves this
    // worldline out of the transport, which recovery cannot know about): not a recovery-path tamper.
    if truncate.is_none() && overrides.iter().all(|(_, e)| e.worldline_id == wl.id) {
        j.merge(recovery_judge(hist, wl, &overrides, focus, ctx));
    }
    match t.path {
        Path::Seam => {
            let inner = if t.with_checkpoints { &hist.with_cp } else { &hist.plain };
            let mut store = TamperStore::new(inner);
            for (tick, e) in overrides {
                store.entries.insert((wl.id, tick), e);
            }
            if let Some(k) = truncate {
                store.len.insert(wl.id, k);
            }
            j.absorb(seam_sweep(&store, wl, &targets_for(wl.len(), focus), ctx), &wl.vref);
            let fired = store.served() > 0;
            Some((j, fired))
        }
        Path::Rebuild => {
            let mut feed = honest_feed(hist);
            // overrides name ORIGINAL coordinates: resolve every slot before any entry is replaced
            let slots: Vec<Option<usize>> = overrides.iter().map(|(tick, _)| feed.seq.iter().position(|(i, o)| *i == wl.idx && o.worldline_tick.as_u64() == *tick)).collect();
            for ((_, e), slot) in overrides.into_iter().zip(slots) {
                if let Some(k) = slot {
                    feed.seq[k].1 = e;
                }
            }
            if let Some(k) = truncate {
                feed.seq.retain(|(i, o)| !(*i == wl.idx && o.worldline_tick.as_u64() >= k));
            }
            match rebuild(&feed) {
                Err(e) => {
                    j.rejected.push((focus, "register", e));
                }
                Ok(r) => {
                    ctx.count("time.verifications", feed.seq.len() as u64);
                    if let Some(p) = r.panic {
                        j.panics.push((focus, "append", p));
                    } else if let Some((_, e)) = r.refused {
                        j.rejected.push((focus, "append", e));
                    } else {
                        j.merge(verify_rebuilt(hist, &r.svc, Some((wl.idx, if truncated { None } else { Some(focus) })), ctx));
                    }
                }
            }
            Some((j, true))
        }
    }
}

/// The store's last entry for a worldline, fully self-consistent (digests, coordinates) and chained
/// to the entry served before it, but with another commit id, is a different VALID history: only an
/// external anchor (the tip commit id) can tell it from the original. Such material is not delivered.
fn valid_alternative_tip(wl: &WlHist, overrides: &[(u64, ProvenanceEntry)], truncate: Option<u64>) -> bool {
    let served_len = truncate.unwrap_or(wl.len());
    if served_len == 0 {
        return false;
    }
    let tip = served_len - 1;
    let Some((_, e)) = overrides.iter().find(|(t, _)| *t == tip) else { return false };
    let prev: Option<ProvenanceEntry> = if tip == 0 { None } else { Some(overrides.iter().find(|(t, _)| *t == tip - 1).map(|(_, e)| e.clone()).unwrap_or_else(|| wl.entries[tip as usize - 1].clone())) };
    let chained = e.parents == prev.map(|p| vec![p.as_ref()]).unwrap_or_default();
    let coords = e.worldline_id == wl.id && e.worldline_tick.as_u64() == tip;
    let digests = e.patch.as_ref().is_some_and(|p| tamper::patch_digest_of(p) == e.expected.patch_digest && p.patch_digest == e.expected.patch_digest) && tamper::commit_id_of(e) == Some(e.expected.commit_hash);
    chained && coords && digests && e.expected.commit_hash != wl.entries[tip as usize].expected.commit_hash
}

fn apply_tamper(hist: &Hist, t: &Tamper, ctx: &mut RunCtx) -> Result<bool, Outcome> {
    match &t.kind {
        Kind::Entry(f) => {
            let Some(wl) = pick_wl(hist, t.wl, 1) else { return Ok(false) };
            let len = wl.len();
            let mut level = t.level;
            let pos = if level == Level::L3 {
                if len >= 2 {
                    u64::from(t.pos) % (len - 1)
                } else {
                    level = Level::L2;
                    0
                }
            } else {
                u64::from(t.pos) % len
            };
            let mut e = wl.entries[pos as usize].clone();
            let older = if pos >= 2 { Some(wl.entries[(t.aux as usize) % (pos as usize - 1)].as_ref()) } else { None };
            let env = Env { other_worldline: other_worldline(hist, wl, t.aux), older };
            if !mutate_entry(&mut e, *f, t.aux, t.salt, &env) {
                return Ok(false);
            }
            if level != Level::L1 {
                refresh_decision_digest(&mut e, *f);
                recompute_patch_digest(&mut e);
            }
            if level == Level::L3 {
                if t.fix_state_root {
                    if let Some(r) = forged_state_root(wl, pos, &e) {
                        e.expected.state_root = r;
                    }
                }
                recompute_commit_id(&mut e);
            }
            if e == wl.entries[pos as usize] {
                return Ok(false);
            }
            let Some((j, fired)) = deliver_entries(hist, wl, t, vec![(pos, e)], None, pos, ctx) else { return Ok(false) };
            let family = if level == Level::L3 { "forged_non_tip_entry".to_owned() } else { f.name().to_owned() };
            conclude(Verdict { name: f.name().to_owned(), family, level, path: t.path.name(), unbound: f.unbound(), pos: Some(pos), fired, is_checkpoint: false }, j, ctx)
        }
        Kind::Swap => {
            let Some(wl) = pick_wl(hist, t.wl, 2) else { return Ok(false) };
            let p = u64::from(t.pos) % (wl.len() - 1);
            let mut a = wl.entries[p as usize + 1].clone();
            let mut b = wl.entries[p as usize].clone();
            let level = if t.level == Level::L1 { Level::L1 } else { Level::L2 };
            if level == Level::L2 {
                retick(&mut a, p);
                retick(&mut b, p + 1);
            }
            let (j, fired) = match t.path {
                Path::Seam => match deliver_entries(hist, wl, t, vec![(p, a), (p + 1, b)], None, p, ctx) {
                    Some(x) => x,
                    None => return Ok(false),
                },
                Path::Rebuild => {
                    if valid_alternative_tip(wl, &[(p, a.clone()), (p + 1, b.clone())], None) {
                        return Ok(false);
                    }
                    // the append order is what is swapped
                    let mut feed = honest_feed(hist);
                    let ia = feed.seq.iter().position(|(i, o)| *i == wl.idx && o.worldline_tick.as_u64() == p);
                    let ib = feed.seq.iter().position(|(i, o)| *i == wl.idx && o.worldline_tick.as_u64() == p + 1);
                    let (Some(ia), Some(ib)) = (ia, ib) else { return Ok(false) };
                    feed.seq[ia].1 = a;
                    feed.seq[ib].1 = b;
                    let mut j = Judged::default();
                    match rebuild(&feed) {
                        Err(e) => j.rejected.push((p, "register", e)),
                        Ok(r) => {
                            if let Some(x) = r.panic {
                                j.panics.push((p, "append", x));
                            } else if let Some((_, e)) = r.refused {
                                j.rejected.push((p, "append", e));
                            } else {
                                j.merge(verify_rebuilt(hist, &r.svc, Some((wl.idx, Some(p))), ctx));
                            }
                        }
                    }
                    (j, true)
                }
            };
            conclude(Verdict { name: t.kind.name(), family: t.kind.name(), level, path: t.path.name(), unbound: false, pos: Some(p), fired, is_checkpoint: false }, j, ctx)
        }
        Kind::Duplicate => {
            let Some(wl) = pick_wl(hist, t.wl, 2) else { return Ok(false) };
            let p = u64::from(t.pos) % (wl.len() - 1);
            let mut d = wl.entries[p as usize].clone();
            // a re-linked, re-hashed duplicate at the tip is a different valid history: L3 only below the tip
            let level = match t.level {
                Level::L3 if p + 1 < wl.len() - 1 => Level::L3,
                Level::L3 => Level::L2,
                l => l,
            };
            if level != Level::L1 {
                retick(&mut d, p + 1);
            }
            if level == Level::L3 {
                d.parents = vec![wl.entries[p as usize].as_ref()];
                if t.fix_state_root {
                    if let Some(r) = forged_state_root(wl, p + 1, &d) {
                        d.expected.state_root = r;
                    }
                }
                recompute_commit_id(&mut d);
            }
            let Some((j, fired)) = deliver_entries(hist, wl, t, vec![(p + 1, d)], None, p + 1, ctx) else { return Ok(false) };
            let family = if level == Level::L3 { "forged_non_tip_entry".to_owned() } else { t.kind.name() };
            conclude(Verdict { name: t.kind.name(), family, level, path: t.path.name(), unbound: false, pos: Some(p + 1), fired, is_checkpoint: false }, j, ctx)
        }
        Kind::Truncate => {
            let Some(wl) = pick_wl(hist, t.wl, 1) else { return Ok(false) };
            let k = u64::from(t.pos) % wl.len();
            let Some((j, fired)) = deliver_entries(hist, wl, t, Vec::new(), Some(k), k, ctx) else { return Ok(false) };
            conclude(Verdict { name: t.kind.name(), family: t.kind.name(), level: Level::L1, path: t.path.name(), unbound: false, pos: None, fired, is_checkpoint: false }, j, ctx)
        }
        Kind::TransplantWorldline => {
            let Some(wl) = pick_wl(hist, t.wl, 1) else { return Ok(false) };
            let donors: Vec<&WlHist> = hist.wls.iter().filter(|w| w.idx != wl.idx && w.len() >= 1).collect();
            if donors.is_empty() {
                return Ok(false);
            }
            let donor = donors[(t.aux as usize) % donors.len()];
            let span = wl.len().min(donor.len());
            let mut level = t.level;
            let p = if level == Level::L3 {
                if span >= 1 && wl.len() >= 2 && span.min(wl.len() - 1) >= 1 {
                    u64::from(t.pos) % span.min(wl.len() - 1)
                } else {
                    level = Level::L2;
                    u64::from(t.pos) % span
                }
            } else {
                u64::from(t.pos) % span
            };
            let mut e = donor.entries[p as usize].clone();
            if level != Level::L1 {
                rehome(&mut e, donor.id, wl.id);
            }
            if level == Level::L3 {
                e.parents = if p == 0 { Vec::new() } else { vec![wl.entries[p as usize - 1].as_ref()] };
                if t.fix_state_root {
                    if let Some(r) = forged_state_root(wl, p, &e) {
                        e.expected.state_root = r;
                    }
                }
                recompute_commit_id(&mut e);
            }
            if e == wl.entries[p as usize] {
                return Ok(false);
            }
            let Some((j, fired)) = deliver_entries(hist, wl, t, vec![(p, e)], None, p, ctx) else { return Ok(false) };
            let family = if level == Level::L3 { "forged_non_tip_entry".to_owned() } else { t.kind.name() };
            conclude(Verdict { name: t.kind.name(), family, level, path: t.path.name(), unbound: false, pos: Some(p), fired, is_checkpoint: false }, j, ctx)
        }
        Kind::TransplantSibling => {
            let Some(sib) = hist.sibling.as_ref() else { return Ok(false) };
            // (worldline, tick) below the store's tip where the sibling's entry differs
            let mut cands: Vec<(&WlHist, u64)> = Vec::new();
            for wl in &hist.wls {
                if let Some((entries, _)) = sib.wls.get(&wl.idx) {
                    for p in 0..wl.len().saturating_sub(1) {
                        if let Some(se) = entries.get(p as usize) {
                            if *se != wl.entries[p as usize] && se.expected.commit_hash != wl.entries[p as usize].expected.commit_hash {
                                cands.push((wl, p));
                            }
                        }
                    }
                }
            }
            if cands.is_empty() {
                return Ok(false);
            }
            let (wl, p) = cands[(t.pos as usize) % cands.len()];
            let e = sib.wls[&wl.idx].0[p as usize].clone();
            if e.expected.state_root != wl.entries[p as usize].expected.state_root {
                ctx.hit("reach.sibling_entry_differs_in_state_root");
            }
            let Some((j, fired)) = deliver_entries(hist, wl, t, vec![(p, e)], None, p, ctx) else { return Ok(false) };
            conclude(Verdict { name: t.kind.name(), family: t.kind.name(), level: Level::L1, path: t.path.name(), unbound: false, pos: Some(p), fired, is_checkpoint: false }, j, ctx)
        }
        Kind::InitialBoundary => {
            let Some(wl) = pick_wl(hist, t.wl, 0) else { return Ok(false) };
            let mut j = Judged::default();
            let fired;
            match t.path {
                Path::Seam => {
                    let inner = if t.with_checkpoints { &hist.with_cp } else { &hist.plain };
                    let mut store = TamperStore::new(inner);
                    let mut b = wl.base.state_root();
                    flip(&mut b, t.aux, t.salt);
                    store.boundary.insert(wl.id, b);
                    j.absorb(seam_sweep(&store, wl, &targets_for(wl.len(), 0), ctx), &wl.vref);
                    fired = store.served() > 0;
                }
                Path::Rebuild => {
                    // the worldline is registered from a different initial state; every entry is then appended unchanged
                    let Some(alt) = apply_patch_ops(&wl.base, vec![junk_op(wl.base.root().warp_id, t.aux, t.salt | 1)]) else { return Ok(false) };
                    let Ok(alt) = WorldlineState::new(alt.warp_state().clone(), *wl.base.root()) else { return Ok(false) };
                    if alt.state_root() == wl.base.state_root() {
                        return Ok(false);
                    }
                    let mut feed = honest_feed(hist);
                    feed.bases.insert(wl.idx, alt);
                    match rebuild(&feed) {
                        Err(e) => j.rejected.push((0, "register", e)),
                        Ok(r) => {
                            if let Some(x) = r.panic {
                                j.panics.push((0, "append", x));
                            } else if let Some((_, e)) = r.refused {
                                j.rejected.push((0, "append", e));
                            } else {
                                j.merge(verify_rebuilt(hist, &r.svc, Some((wl.idx, None)), ctx));
                            }
                        }
                    }
                    fired = true;
                }
            }
            conclude(Verdict { name: t.kind.name(), family: t.kind.name(), level: Level::L1, path: t.path.name(), unbound: false, pos: None, fired, is_checkpoint: false }, j, ctx)
        }
        Kind::U0 => {
            let Some(wl) = pick_wl(hist, t.wl, 0) else { return Ok(false) };
            let inner = if t.with_checkpoints { &hist.with_cp } else { &hist.plain };
            let mut store = TamperStore::new(inner);
            store.u0.insert(wl.id, ids::warp(1 + t.salt % 2));
            let mut j = Judged::default();
            j.absorb(seam_sweep(&store, wl, &targets_for(wl.len(), 0), ctx), &wl.vref);
            let fired = store.served() > 0;
            conclude(Verdict { name: t.kind.name(), family: t.kind.name(), level: Level::L1, path: "seam", unbound: false, pos: None, fired, is_checkpoint: false }, j, ctx)
        }
        Kind::Checkpoint(f) => apply_checkpoint_tamper(hist, t, *f, ctx),
        Kind::Btr(f) => apply_btr_tamper(hist, t, *f, ctx),
        Kind::Suffix(f) => apply_suffix_tamper(hist, t, *f, ctx),
    }
}

fn apply_checkpoint_tamper(hist: &Hist, t: &Tamper, f: CpField, ctx: &mut RunCtx) -> Result<bool, Outcome> {
    let Some(wl) = pick_wl(hist, t.wl, 1) else { return Ok(false) };
    let len = wl.len();
    let c = u64::from(t.pos) % (len + 1);
    // another coordinate of the same worldline
    let c2 = {
        let x = u64::from(t.aux) % (len + 1);
        if x == c {
            (c + 1) % (len + 1)
        } else {
            x
        }
    };
    let honest = ReplayCheckpoint::from_state(&wl.states[c as usize]);
    let level = if t.level == Level::L1 { Level::L1 } else { Level::L2 };
    let mut cp = honest.clone();
    match f {
        CpField::Tick => {
            cp.checkpoint.worldline_tick = WorldlineTick::from_raw(c2);
            if level == Level::L2 {
                cp.checkpoint.state_hash = wl.vref[c2 as usize].state_root;
            }
        }
        CpField::StateHash => flip(&mut cp.checkpoint.state_hash, t.aux, t.salt),
        CpField::StateHashOtherTick => {
            cp.checkpoint.state_hash = wl.vref[c2 as usize].state_root;
            if cp.checkpoint.state_hash == honest.checkpoint.state_hash {
                return Ok(false);
            }
        }
        CpField::StateOtherTick => {
            cp = ReplayCheckpoint { checkpoint: CheckpointRef { worldline_tick: WorldlineTick::from_raw(c), state_hash: honest.checkpoint.state_hash }, state: ReplayCheckpoint::from_state(&wl.states[c2 as usize]).state };
            if level == Level::L2 {
                cp.checkpoint.state_hash = cp.state.state_root();
            }
        }
        CpField::GraphReachable | CpField::GraphUnreachable => {
            let salt = if f == CpField::GraphReachable { t.salt | 1 } else { t.salt & !1 };
            let Some(s) = apply_patch_ops(&honest.state, vec![junk_op(wl.base.root().warp_id, t.aux, salt)]) else { return Ok(false) };
            cp.state = s;
            if level == Level::L2 {
                cp.checkpoint.state_hash = cp.state.state_root();
            }
        }
        CpField::NoHistory => {
            let Ok(s) = WorldlineState::new(honest.state.warp_state().clone(), *honest.state.root()) else { return Ok(false) };
            if c == 0 {
                return Ok(false);
            }
            cp.state = s;
        }
        CpField::FromSibling => {
            let Some(s) = hist.sibling.as_ref().and_then(|s| s.wls.get(&wl.idx)).and_then(|(_, st)| st.get(c as usize)) else { return Ok(false) };
            if verified(s) == wl.vref[c as usize] {
                return Ok(false);
            }
            cp.state = ReplayCheckpoint::from_state(s).state;
            if level == Level::L2 {
                cp.checkpoint.state_hash = cp.state.state_root();
            }
        }
        CpField::OtherWorldline => {
            let donors: Vec<&WlHist> = hist.wls.iter().filter(|w| w.idx != wl.idx).collect();
            if donors.is_empty() {
                return Ok(false);
            }
            let d = donors[(t.aux as usize) % donors.len()];
            let k = c.min(d.len());
            cp.state = ReplayCheckpoint::from_state(&d.states[k as usize]).state;
            if level == Level::L2 {
                cp.checkpoint.state_hash = cp.state.state_root();
            }
        }
    }
    let claimed = cp.checkpoint.worldline_tick.as_u64();
    // Does the altered checkpoint still carry the right state root for the tick it claims (both in its
    // metadata hash and in its materialised graph)? Then only its replay metadata (tick history, tick
    // count, replay base) is wrong: that is the one thing `restore_replay_base` does not look at.
    let root_right = wl.vref.get(claimed as usize).is_some_and(|v| v.state_root == cp.checkpoint.state_hash && v.state_root == cp.state.state_root());
    let mut j = Judged::default();
    let fired;
    match t.path {
        Path::Seam => {
            let inner = if t.with_checkpoints { &hist.with_cp } else { &hist.plain };
            let mut store = TamperStore::new(inner);
            let mut list: Vec<ReplayCheckpoint> = if t.with_checkpoints { wl.checkpoints.iter().filter(|x| x.checkpoint.worldline_tick.as_u64() != claimed).cloned().collect() } else { Vec::new() };
            list.push(cp);
            list.sort_by_key(|x| x.checkpoint.worldline_tick);
            store.checkpoints.insert(wl.id, list);
            store.tampered_cp_tick = Some(claimed);
            j.absorb(seam_sweep(&store, wl, &targets_for(len, claimed), ctx), &wl.vref);
            fired = store.served() > 0;
        }
        Path::Rebuild => {
            let (_, jj) = verify_added_checkpoint(hist, wl, &cp, ctx);
            j.merge(jj);
            fired = true;
        }
    }
    // Through the seam a stored checkpoint is re-verified only by `restore_replay_base` (state root);
    // whatever is accepted wrongly there is an alteration of the checkpoint's replay metadata.
    let family = if t.path == Path::Seam && root_right { "checkpoint_replay_metadata".to_owned() } else { f.name().to_owned() };
    conclude(Verdict { name: f.name().to_owned(), family, level, path: t.path.name(), unbound: false, pos: None, fired, is_checkpoint: true }, j, ctx)
}

fn apply_btr_tamper(hist: &Hist, t: &Tamper, f: BtrField, ctx: &mut RunCtx) -> Result<bool, Outcome> {
    let Some((idx, honest)) = hist.btr.as_ref() else { return Ok(false) };
    let Some(wl) = hist.wls.iter().find(|w| w.idx == *idx) else { return Ok(false) };
    let mut r = honest.clone();
    let n = r.payload.entries.len();
    let mut level = Level::L1;
    match f {
        BtrField::Worldline => r.worldline_id = other_worldline(hist, wl, t.aux).unwrap_or_else(|| crate::world::runtime::wl_id(77)),
        BtrField::U0 => r.u0_ref = ids::warp(1 + t.salt % 2),
        BtrField::Input => {
            // another real boundary of the same worldline, or a flipped byte
            let alt = wl.vref[(t.aux as usize) % wl.vref.len()].state_root;
            if t.salt & 1 == 0 && alt != r.input_boundary_hash {
                r.input_boundary_hash = alt;
            } else {
                flip(&mut r.input_boundary_hash, t.aux, t.salt);
            }
        }
        BtrField::Output => {
            let alt = wl.vref[(t.aux as usize) % wl.vref.len()].state_root;
            if t.salt & 1 == 0 && alt != r.output_boundary_hash {
                r.output_boundary_hash = alt;
            } else {
                flip(&mut r.output_boundary_hash, t.aux, t.salt);
            }
        }
        BtrField::PayloadWorldline => r.payload.worldline_id = other_worldline(hist, wl, t.aux).unwrap_or_else(|| crate::world::runtime::wl_id(77)),
        BtrField::PayloadStart => {
            let s = r.payload.start_worldline_tick.as_u64();
            r.payload.start_worldline_tick = WorldlineTick::from_raw(if t.salt & 1 == 0 && s > 0 { s - 1 } else { s + 1 });
        }
        BtrField::Entry(ef) => {
            let i = (t.pos as usize) % n;
            let pos = r.payload.entries[i].worldline_tick.as_u64();
            let older = if pos >= 2 { Some(wl.entries[(t.aux as usize) % (pos as usize - 1)].as_ref()) } else { None };
            let env = Env { other_worldline: other_worldline(hist, wl, t.aux), older };
            let mut e = r.payload.entries[i].clone();
            if !mutate_entry(&mut e, ef, t.aux, t.salt, &env) {
                return Ok(false);
            }
            level = t.level;
            if level != Level::L1 {
                refresh_decision_digest(&mut e, ef);
                recompute_patch_digest(&mut e);
            }
            if level == Level::L3 {
                if t.fix_state_root {
                    if let Some(x) = forged_state_root(wl, pos, &e) {
                        e.expected.state_root = x;
                    }
                }
                recompute_commit_id(&mut e);
                if i + 1 == n {
                    r.output_boundary_hash = e.expected.state_root;
                }
            }
            r.payload.entries[i] = e;
        }
        BtrField::EntryDrop => {
            if n < 2 {
                return Ok(false);
            }
            let i = (t.pos as usize) % n;
            r.payload.entries.remove(i);
            if t.level != Level::L1 {
                // consistent forgery of the envelope: boundaries and start follow the remaining payload
                level = Level::L2;
                if i == 0 {
                    r.payload.start_worldline_tick = r.payload.entries[0].worldline_tick;
                    r.input_boundary_hash = wl.vref[r.payload.start_worldline_tick.as_u64() as usize].state_root;
                }
                if let Some(last) = r.payload.entries.last() {
                    r.output_boundary_hash = last.expected.state_root;
                }
            }
        }
        BtrField::EntryDup => {
            let i = (t.pos as usize) % n;
            let e = r.payload.entries[i].clone();
            r.payload.entries.insert(i, e);
        }
        BtrField::EntrySwap => {
            if n < 2 {
                return Ok(false);
            }
            let i = (t.pos as usize) % (n - 1);
            r.payload.entries.swap(i, i + 1);
        }
        BtrField::Counter => r.logical_counter = r.logical_counter.wrapping_add(1 + u64::from(t.salt)),
        BtrField::AuthTag => {
            if r.auth_tag.is_empty() {
                r.auth_tag.push(t.salt);
            } else {
                let i = (t.aux as usize) % r.auth_tag.len();
                r.auth_tag[i] ^= t.salt | 1;
            }
        }
    }
    if r == *honest {
        return Ok(false);
    }
    let name = f.name();
    ctx.hit(&format!("fault.{name}.{}", level.name()));
    ctx.hit("reach.path.btr");
    ctx.count("time.verifications", 2);
    // An altered record can coincide with the honest record of another range of the same history (e.g. a
    // dropped first/last entry with matching boundaries): that is valid, untampered material.
    let still_valid_sub_record = {
        let start = r.payload.start_worldline_tick;
        let end = WorldlineTick::from_raw(start.as_u64() + r.payload.entries.len() as u64);
        matches!(hist.plain.build_btr(r.worldline_id, start, end, r.logical_counter, r.auth_tag.clone()), Ok(h) if h == r)
    };
    let own = catch(|| r.validate());
    let full = catch(|| hist.with_cp.validate_btr(&r));
    for (who, res) in [("btr_validate", &own), ("validate_btr", &full)] {
        if let Err(p) = res {
            return Err(Outcome::violation(format!("verifier_panicked:{who}"), format!("{name}: {p}")));
        }
    }
    match full {
        Ok(Ok(())) => {
            if f.unbound() {
                ctx.hit(&format!("reach.accepted_unbound_metadata.{name}"));
            } else if still_valid_sub_record {
                ctx.hit("reach.accepted_harmless");
                ctx.hit(&format!("reach.accepted_harmless.{name}"));
            } else {
                return Err(Outcome::violation(format!("tampered_btr_accepted:{name}"), format!("validate_btr returned Ok for a record that differs from the one built from this history: {:?} vs {:?}", brief_btr(&r), brief_btr(honest))));
            }
        }
        Ok(Err(e)) => {
            ctx.hit("reach.rejected_typed");
            ctx.hit(&format!("reach.rejected_by.validate_btr.{}", err_name(&format!("{e:?}"))));
        }
        Err(_) => {}
    }
    Ok(true)
}

fn brief_btr(r: &warp_core::BoundaryTransitionRecord) -> String {
    format!(
        "wl={} u0={} in={} out={} payload(wl={} start={} n={}) counter={} tag={:?}",
        hex::encode(&r.worldline_id.as_bytes()[..2]),
        hex::encode(&r.u0_ref.0[..2]),
        hex::encode(&r.input_boundary_hash[..4]),
        hex::encode(&r.output_boundary_hash[..4]),
        hex::encode(&r.payload.worldline_id.as_bytes()[..2]),
        r.payload.start_worldline_tick.as_u64(),
        r.payload.entries.len(),
        r.logical_counter,
        r.auth_tag
    )
}

fn alter_ref(r: &mut ProvenanceRef, part: RefPart, hist: &Hist, wl: &WlHist, aux: u32, salt: u8) {
    match part {
        RefPart::Worldline => {
            r.worldline_id = other_worldline(hist, wl, aux).unwrap_or_else(|| {
                let mut b = *r.worldline_id.as_bytes();
                flip(&mut b, aux, salt);
                WorldlineId::from_bytes(b)
            })
        }
        RefPart::Tick => {
            let t = r.worldline_tick.as_u64();
            r.worldline_tick = WorldlineTick::from_raw(if salt & 1 == 0 && t > 0 { t - 1 } else { t + 1 });
        }
        RefPart::Commit => {
            // another real commit of the same worldline, or a flipped byte
            let alt = wl.entries[(aux as usize) % wl.entries.len()].expected.commit_hash;
            if salt & 1 == 0 && alt != r.commit_hash {
                r.commit_hash = alt;
            } else {
                flip(&mut r.commit_hash, aux, salt);
            }
        }
    }
}

fn apply_suffix_tamper(hist: &Hist, t: &Tamper, f: SfxField, ctx: &mut RunCtx) -> Result<bool, Outcome> {
    let Some(sfx) = hist.suffix.as_ref() else { return Ok(false) };
    let Some(wl) = hist.wls.iter().find(|w| w.idx == sfx.wl) else { return Ok(false) };
    let mut b = sfx.bundle.clone();
    let n = b.source_suffix.source_entries.len();
    let mut shell_field = true;
    match f {
        SfxField::Base(p) => {
            alter_ref(&mut b.base_frontier, p, hist, wl, t.aux, t.salt);
            shell_field = false;
        }
        SfxField::Target(p) => {
            alter_ref(&mut b.target_frontier, p, hist, wl, t.aux, t.salt);
            shell_field = false;
        }
        SfxField::SourceWorldline => b.source_suffix.source_worldline_id = other_worldline(hist, wl, t.aux).unwrap_or_else(|| crate::world::runtime::wl_id(77)),
        SfxField::StartTick => {
            let s = b.source_suffix.source_suffix_start_tick.as_u64();
            b.source_suffix.source_suffix_start_tick = WorldlineTick::from_raw(if t.salt & 1 == 0 && s > 0 { s - 1 } else { s + 1 });
        }
        SfxField::EndTick => {
            b.source_suffix.source_suffix_end_tick = match (b.source_suffix.source_suffix_end_tick, t.salt % 3) {
                (Some(_), 0) => None,
                (Some(e), 1) => Some(WorldlineTick::from_raw(e.as_u64() + 1)),
                (Some(e), _) => Some(WorldlineTick::from_raw(e.as_u64().saturating_sub(1))),
                (None, _) => Some(WorldlineTick::from_raw(u64::from(t.aux % 7))),
            }
        }
        SfxField::Entry(p) => {
            if n == 0 {
                return Ok(false);
            }
            let i = (t.pos as usize) % n;
            alter_ref(&mut b.source_suffix.source_entries[i], p, hist, wl, t.aux, t.salt);
        }
        SfxField::EntryDrop => {
            if n == 0 {
                return Ok(false);
            }
            b.source_suffix.source_entries.remove((t.pos as usize) % n);
        }
        SfxField::EntryDup => {
            if n == 0 {
                return Ok(false);
            }
            let i = (t.pos as usize) % n;
            let e = b.source_suffix.source_entries[i];
            b.source_suffix.source_entries.insert(i, e);
        }
        SfxField::EntrySwap => {
            if n < 2 {
                return Ok(false);
            }
            let i = (t.pos as usize) % (n - 1);
            b.source_suffix.source_entries.swap(i, i + 1);
        }
        SfxField::Boundary => {
            b.source_suffix.boundary_witness = match (b.source_suffix.boundary_witness, t.salt % 2) {
                (Some(_), 0) => None,
                (Some(mut w), _) => {
                    alter_ref(&mut w, *[RefPart::Tick, RefPart::Commit, RefPart::Worldline].get((t.aux as usize) % 3).unwrap_or(&RefPart::Commit), hist, wl, t.aux, t.salt);
                    Some(w)
                }
                (None, _) => Some(wl.entries[0].as_ref()),
            }
        }
        SfxField::WitnessDigest => {
            flip(&mut b.source_suffix.witness_digest, t.aux, t.salt);
            shell_field = false;
        }
        SfxField::BundleDigest => {
            flip(&mut b.bundle_digest, t.aux, t.salt);
            shell_field = false;
        }
    }
    if b == sfx.bundle {
        return Ok(false);
    }
    // L2: the forger also recomputes the shell's witness digest (public function); the bundle digest,
    // which commits to it, is left stale. Recomputing both yields a different self-consistent bundle
    // whose bundle digest is the external anchor: not generated.
    let level = if shell_field && t.level != Level::L1 { Level::L2 } else { Level::L1 };
    if level == Level::L2 {
        b.source_suffix.witness_digest = warp_core::derive_witnessed_suffix_shell_digest(&b.source_suffix);
    }
    let name = f.name();
    ctx.hit(&format!("fault.{name}.{}", level.name()));
    ctx.hit("reach.path.suffix");
    let cx = ImportCtx { prov: &hist.plain };
    let req = ImportSuffixRequest { bundle: b.clone(), ..sfx.request.clone() };
    ctx.count("time.verifications", 1);
    let res = match catch(|| import_suffix(&req, &cx)) {
        Ok(r) => r,
        Err(p) => return Err(Outcome::violation("verifier_panicked:import_suffix", format!("{name}: {p}"))),
    };
    let obstructed = matches!(res.admission.outcome, WitnessedSuffixAdmissionOutcome::Obstructed { .. });
    if !obstructed && res != sfx.result {
        return Err(Outcome::violation(format!("different_state_verified:{name}"), format!("import_suffix of an altered bundle ({}) was not obstructed and its result differs from the untampered import: {:?} instead of {:?}", level.name(), res.admission.outcome, sfx.result.admission.outcome)));
    }
    // the shell alone, judged without the bundle envelope (L1 only: with a recomputed witness digest the
    // shell is a different self-consistent shell and its digest is the anchor)
    let mut shell_obstructed = true;
    if shell_field && level == Level::L1 {
        let areq = WitnessedSuffixAdmissionRequest { source_suffix: b.source_suffix.clone(), target_worldline_id: req.target_worldline_id, target_basis: req.target_basis, basis_report: None };
        ctx.count("time.verifications", 1);
        let r = match catch(|| evaluate_witnessed_suffix_admission(&areq, &cx)) {
            Ok(r) => r,
            Err(p) => return Err(Outcome::violation("verifier_panicked:evaluate_witnessed_suffix_admission", format!("{name}: {p}"))),
        };
        shell_obstructed = matches!(r.outcome, WitnessedSuffixAdmissionOutcome::Obstructed { .. });
        if !shell_obstructed && r != sfx.result.admission {
            return Err(Outcome::violation(format!("different_state_verified:{name}"), format!("evaluate_witnessed_suffix_admission of an altered shell was not obstructed: {:?}", r.outcome)));
        }
    }
    if obstructed && shell_obstructed {
        ctx.hit("reach.rejected_typed");
        ctx.hit("reach.rejected_by.import_suffix.Obstructed");
    } else {
        ctx.hit("reach.accepted_harmless");
        ctx.hit(&format!("reach.accepted_harmless.{name}"));
    }
    Ok(true)
}

/// Transported entries handed to runtime recovery (`WorldlineRuntime::restore_causal_runtime_history`),
/// which re-verifies them against the retained (untampered) provenance service: the altered entry is
/// rejected with a typed error, or the recovered runtime (global tick, frontiers, state roots) equals
/// the recovery from untampered entries.
fn recovery_judge(hist: &Hist, wl: &WlHist, overrides: &[(u64, ProvenanceEntry)], focus: u64, ctx: &mut RunCtx) -> Judged {
    use warp_core::WorldlineRuntime;
    let mut j = Judged::default();
    let build = || -> Option<WorldlineRuntime> {
        let mut rt = WorldlineRuntime::new();
        for w in &hist.wls {
            rt.register_worldline(w.id, w.base.clone()).ok()?;
        }
        Some(rt)
    };
    let observe = |rt: &WorldlineRuntime| -> String {
        let mut s = format!("global_tick={:?}", rt.global_tick());
        for w in &hist.wls {
            if let Some(f) = rt.worldlines().get(&w.id) {
                s.push_str(&format!(";wl{}:tick={} root={}", w.idx, f.frontier_tick().as_u64(), hex::encode(&f.state().state_root()[..8])));
            }
        }
        s
    };
    let honest: Vec<ProvenanceEntry> = hist.wls.iter().flat_map(|w| w.entries.iter().cloned()).collect();
    let Some(mut rt0) = build() else { return j };
    if !matches!(crate::kernel::catch(|| rt0.restore_causal_runtime_history(&hist.plain, &honest, &[])), Ok(Ok(()))) {
        ctx.hit("reach.recovery_baseline_unavailable");
        return j;
    }
    let obs0 = observe(&rt0);
    let mut transported = honest;
    for (tick, e) in overrides {
        if let Some(slot) = transported.iter_mut().find(|x| x.worldline_id == wl.id && x.worldline_tick.as_u64() == *tick) {
            *slot = e.clone();
        }
    }
    let Some(mut rt1) = build() else { return j };
    ctx.count("time.verifications", 1);
    j.calls += 1;
    match crate::kernel::catch(|| rt1.restore_causal_runtime_history(&hist.plain, &transported, &[])) {
        Err(p) => j.panics.push((focus, "recovery", p)),
        Ok(Err(e)) => j.rejected.push((focus, "recovery", format!("{e:?}"))),
        Ok(Ok(())) => {
            let obs1 = observe(&rt1);
            if obs1 == obs0 {
                j.accepted.push((focus, "recovery"));
            } else {
                j.wrong.push((focus, "recovery", format!("recovered runtime differs: {obs1} instead of {obs0}")));
            }
        }
    }
    j
}
