//! The harness's own view of the on-disk WAL: record parser (written from
//! `append_segment_record` / `read_segment_bytes` / `encode_frame` / `encode_commit`), outer
//! record digest, directory snapshots. Nothing here calls echo's readers.

use std::collections::BTreeMap;
use std::path::Path;

pub const RECORD_MAGIC: &[u8; 8] = b"ECWALR1!";
pub const RECORD_HEADER_LEN: usize = 8 + 1 + 8;
pub const RECORD_DIGEST_LEN: usize = 32;
const DISK_RECORD_DOMAIN: &[u8] = b"echo:causal_wal:disk_record:v1\0";

pub const SEGMENT_REL: &str = "segments/segment-00000000000000000001.ecwal";
pub const LEDGER_REL: &str = "writer-epochs.ecwal";
pub const LEDGER_TMP_REL: &str = ".writer-epochs.ecwal.tmp";
pub const MANIFEST_REL: &str = "manifest.ecwal";
pub const MANIFEST_TMP_REL: &str = ".manifest.ecwal.tmp";
pub const LOCK_REL: &str = "writer-epoch.lock";

pub const KIND_FRAME: u8 = 1;
pub const KIND_COMMIT: u8 = 2;
pub const COMMIT_PAYLOAD_LEN: usize = 220;
/// `WalTransactionKind` codes are opaque here; the harness learns them from acknowledged ops.

pub type H = [u8; 32];

/// Outer disk-record digest (re-implementation of `disk_record_digest`).
pub fn disk_record_digest(kind: u8, payload: &[u8]) -> H {
    let mut h = blake3::Hasher::new();
    h.update(DISK_RECORD_DOMAIN);
    h.update(&[kind]);
    h.update(&(payload.len() as u64).to_le_bytes());
    h.update(payload);
    *h.finalize().as_bytes()
}

pub fn encode_record(kind: u8, payload: &[u8]) -> Vec<u8> {
    let mut out = Vec::with_capacity(RECORD_HEADER_LEN + payload.len() + RECORD_DIGEST_LEN);
    out.extend_from_slice(RECORD_MAGIC);
    out.push(kind);
    out.extend_from_slice(&(payload.len() as u64).to_le_bytes());
    out.extend_from_slice(payload);
    out.extend_from_slice(&disk_record_digest(kind, payload));
    out
}

/// One complete, digest-valid record.
#[derive(Clone, Debug, PartialEq, Eq)]
pub struct Rec {
    pub off: usize,
    pub end: usize,
    pub kind: u8,
    pub payload_off: usize,
    pub payload_len: usize,
}

impl Rec {
    pub fn payload<'a>(&self, bytes: &'a [u8]) -> &'a [u8] {
        &bytes[self.payload_off..self.payload_off + self.payload_len]
    }
    pub fn bytes<'a>(&self, bytes: &'a [u8]) -> &'a [u8] {
        &bytes[self.off..self.end]
    }
}

#[derive(Clone, Debug, PartialEq, Eq)]
pub enum Tail {
    /// File ends exactly at a record boundary.
    Clean,
    /// File ends inside a record that starts at this offset.
    Torn(usize),
    /// Record at this offset has a wrong magic / digest (not a torn tail).
    Corrupt(usize),
}

#[derive(Clone, Debug)]
pub struct Parsed {
    pub recs: Vec<Rec>,
    pub tail: Tail,
}

/// Parse a segment: the longest prefix of complete records whose outer digest verifies.
pub fn parse(bytes: &[u8]) -> Parsed {
    let mut recs = Vec::new();
    let mut off = 0usize;
    loop {
        if off == bytes.len() {
            return Parsed { recs, tail: Tail::Clean };
        }
        if bytes.len() - off < RECORD_HEADER_LEN {
            // A strict prefix of the header: torn if it is a prefix of a plausible header.
            let have = &bytes[off..];
            let m = have.len().min(8);
            if have[..m] != RECORD_MAGIC[..m] {
                return Parsed { recs, tail: Tail::Corrupt(off) };
            }
            return Parsed { recs, tail: Tail::Torn(off) };
        }
        if &bytes[off..off + 8] != RECORD_MAGIC {
            return Parsed { recs, tail: Tail::Corrupt(off) };
        }
        let kind = bytes[off + 8];
        let mut l = [0u8; 8];
        l.copy_from_slice(&bytes[off + 9..off + 17]);
        let len = u64::from_le_bytes(l);
        let payload_off = off + RECORD_HEADER_LEN;
        let end = (payload_off as u64).checked_add(len).and_then(|x| x.checked_add(RECORD_DIGEST_LEN as u64));
        let Some(end) = end else {
            return Parsed { recs, tail: Tail::Torn(off) };
        };
        if end > bytes.len() as u64 {
            return Parsed { recs, tail: Tail::Torn(off) };
        }
        let end = end as usize;
        let payload_len = len as usize;
        let payload = &bytes[payload_off..payload_off + payload_len];
        if bytes[payload_off + payload_len..end] != disk_record_digest(kind, payload) {
            return Parsed { recs, tail: Tail::Corrupt(off) };
        }
        recs.push(Rec { off, end, kind, payload_off, payload_len });
        off = end;
    }
}

#[derive(Clone, Debug, PartialEq, Eq)]
pub struct CommitInfo {
    pub epoch: H,
    pub tx_id: H,
    pub tx_kind: u8,
    pub first_lsn: u64,
    pub last_lsn: u64,
    pub record_count: u64,
    pub prev_commit: H,
    pub digest: H,
}

fn h32(b: &[u8]) -> H {
    let mut h = [0u8; 32];
    h.copy_from_slice(&b[..32]);
    h
}
fn u64le(b: &[u8]) -> u64 {
    let mut x = [0u8; 8];
    x.copy_from_slice(&b[..8]);
    u64::from_le_bytes(x)
}

/// Commit digest of a commit payload (formula of `WalTransactionCommit::compute_digest`: the
/// domain tag followed by every field before the digest itself, in encoding order).
pub fn commit_digest_of(payload: &[u8]) -> H {
    let mut h = blake3::Hasher::new();
    h.update(b"echo:causal_wal:commit:v1\0");
    h.update(&payload[..188]);
    h.finalize().into()
}

/// Field extraction from a commit payload (layout of `encode_commit`).
pub fn commit_info(payload: &[u8]) -> Option<CommitInfo> {
    if payload.len() != COMMIT_PAYLOAD_LEN {
        return None;
    }
    Some(CommitInfo {
        epoch: h32(&payload[0..]),
        tx_id: h32(&payload[32..]),
        tx_kind: payload[64],
        first_lsn: u64le(&payload[65..]),
        last_lsn: u64le(&payload[73..]),
        record_count: u64le(&payload[81..]),
        prev_commit: h32(&payload[153..]),
        digest: h32(&payload[188..]),
    })
}

#[derive(Clone, Debug, PartialEq, Eq)]
pub struct FrameInfo {
    pub epoch: H,
    pub lsn: u64,
    pub tx_id: H,
    pub local_index: u32,
}

/// Field extraction from a frame payload (layout of `encode_frame`).
pub fn frame_info(payload: &[u8]) -> Option<FrameInfo> {
    if payload.len() < 86 {
        return None;
    }
    let mut idx = [0u8; 4];
    idx.copy_from_slice(&payload[82..86]);
    Some(FrameInfo {
        epoch: h32(&payload[2..]),
        lsn: u64le(&payload[42..]),
        tx_id: h32(&payload[50..]),
        local_index: u32::from_le_bytes(idx),
    })
}

/// Commits that lie completely inside `bytes` (file order).
pub fn commits_in(bytes: &[u8]) -> (Vec<CommitInfo>, Parsed) {
    let p = parse(bytes);
    let mut out = Vec::new();
    for r in &p.recs {
        if r.kind == KIND_COMMIT {
            if let Some(c) = commit_info(r.payload(bytes)) {
                out.push(c);
            }
        }
    }
    (out, p)
}

/// A transaction as a group of records in file order: frames carrying the commit's tx id plus
/// the commit record itself. `recs` are indices into `Parsed::recs`.
#[derive(Clone, Debug)]
pub struct TxGroup {
    pub recs: Vec<usize>,
    pub commit: CommitInfo,
}

pub fn transactions(bytes: &[u8], p: &Parsed) -> Vec<TxGroup> {
    let mut out = Vec::new();
    for (i, r) in p.recs.iter().enumerate() {
        if r.kind != KIND_COMMIT {
            continue;
        }
        let Some(c) = commit_info(r.payload(bytes)) else { continue };
        let mut recs = Vec::new();
        for (j, f) in p.recs.iter().enumerate() {
            if f.kind == KIND_FRAME {
                if let Some(fi) = frame_info(f.payload(bytes)) {
                    if fi.tx_id == c.tx_id && fi.lsn >= c.first_lsn && fi.lsn <= c.last_lsn {
                        recs.push(j);
                    }
                }
            }
        }
        recs.push(i);
        out.push(TxGroup { recs, commit: c });
    }
    out
}

/// Directory tree as sorted (relative path → bytes); directories are implied.
pub type Tree = BTreeMap<String, Vec<u8>>;

pub fn read_tree(root: &Path) -> Tree {
    fn walk(root: &Path, dir: &Path, out: &mut Tree) {
        let Ok(rd) = std::fs::read_dir(dir) else { return };
        let mut entries: Vec<_> = rd.filter_map(Result::ok).map(|e| e.path()).collect();
        entries.sort();
        for p in entries {
            if p.is_dir() {
                walk(root, &p, out);
            } else if let Ok(rel) = p.strip_prefix(root) {
                let rel = rel.to_string_lossy().replace('\\', "/");
                out.insert(rel, std::fs::read(&p).unwrap_or_default());
            }
        }
    }
    let mut out = Tree::new();
    walk(root, root, &mut out);
    out
}

pub fn write_tree(root: &Path, tree: &Tree) -> Result<(), String> {
    let _ = std::fs::remove_dir_all(root);
    std::fs::create_dir_all(root.join("segments")).map_err(|e| format!("mkdir: {e}"))?;
    for (rel, bytes) in tree {
        let p = root.join(rel);
        if let Some(parent) = p.parent() {
            std::fs::create_dir_all(parent).map_err(|e| format!("mkdir: {e}"))?;
        }
        std::fs::write(&p, bytes).map_err(|e| format!("write {rel}: {e}"))?;
    }
    Ok(())
}

pub fn is_segment(rel: &str) -> bool {
    rel.starts_with("segments/segment-") && rel.ends_with(".ecwal")
}

pub fn file_len(p: &Path) -> u64 {
    std::fs::metadata(p).map(|m| m.len()).unwrap_or(0)
}

pub fn hex8(h: &H) -> String {
    hex::encode(&h[..6])
}

// ---------------------------------------------------------------------------------------------
// Writer-epoch ledger (layout of `writer_epoch_ledger_file_bytes` / `encode_writer_epoch_ledger`)
// ---------------------------------------------------------------------------------------------

#[derive(Clone, Debug, PartialEq, Eq)]
pub struct EpochInfo {
    pub id: H,
    pub start_lsn: u64,
    pub prev_id: Option<H>,
    pub prev_final_commit: Option<H>,
    pub final_lsn: Option<u64>,
    pub final_commit: Option<H>,
}

#[derive(Clone, Debug, Default, PartialEq, Eq)]
pub struct LedgerInfo {
    pub closed: Vec<EpochInfo>,
    pub active: Option<EpochInfo>,
}

struct Cur<'a> {
    b: &'a [u8],
    o: usize,
}

impl<'a> Cur<'a> {
    fn take(&mut self, n: usize) -> Option<&'a [u8]> {
        if self.o + n > self.b.len() {
            return None;
        }
        let s = &self.b[self.o..self.o + n];
        self.o += n;
        Some(s)
    }
    fn hash(&mut self) -> Option<H> {
        self.take(32).map(h32)
    }
    fn u64(&mut self) -> Option<u64> {
        self.take(8).map(u64le)
    }
    fn opt_hash(&mut self) -> Option<Option<H>> {
        match self.take(1)?[0] {
            0 => Some(None),
            1 => Some(Some(self.hash()?)),
            _ => None,
        }
    }
    fn opt_u64(&mut self) -> Option<Option<u64>> {
        match self.take(1)?[0] {
            0 => Some(None),
            1 => Some(Some(self.u64()?)),
            _ => None,
        }
    }
    fn epoch(&mut self) -> Option<EpochInfo> {
        let id = self.hash()?;
        let _fencing = self.hash()?;
        let _process = self.hash()?;
        let _host = self.hash()?;
        let start_lsn = self.u64()?;
        let prev_id = self.opt_hash()?;
        let prev_final_commit = self.opt_hash()?;
        let _lease = self.hash()?;
        let final_lsn = self.opt_u64()?;
        let final_commit = self.opt_hash()?;
        Some(EpochInfo { id, start_lsn, prev_id, prev_final_commit, final_lsn, final_commit })
    }
}

/// Parse a ledger file; `None` when it is not structurally a ledger (the harness only reads
/// ledgers it expects to be intact).
pub fn ledger_info(bytes: &[u8]) -> Option<LedgerInfo> {
    let mut c = Cur { b: bytes, o: 0 };
    if c.take(8)? != b"EWEP0001" {
        return None;
    }
    let len = c.u64()? as usize;
    let payload = c.take(len)?;
    let _digest = c.hash()?;
    if c.o != bytes.len() {
        return None;
    }
    let mut p = Cur { b: payload, o: 0 };
    let _version = p.take(2)?;
    let n = p.u64()? as usize;
    if n > 8 {
        return None;
    }
    let mut out = LedgerInfo::default();
    for _ in 0..n {
        out.closed.push(p.epoch()?);
    }
    match p.take(1)?[0] {
        0 => {}
        1 => out.active = Some(p.epoch()?),
        _ => return None,
    }
    if p.o != payload.len() {
        return None;
    }
    Some(out)
}

/// True when the complete frame records of a segment do not carry consecutive LSNs
/// (sorted by LSN, as echo's reader does).
pub fn has_lsn_hole(bytes: &[u8]) -> bool {
    let p = parse(bytes);
    let mut lsns: Vec<u64> = p
        .recs
        .iter()
        .filter(|r| r.kind == KIND_FRAME)
        .filter_map(|r| frame_info(r.payload(bytes)).map(|f| f.lsn))
        .collect();
    lsns.sort_unstable();
    lsns.windows(2).any(|w| w[1] != w[0] + 1)
}
