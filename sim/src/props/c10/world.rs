//! C10/C11 world: a `TrustedRuntimeHost` with one worldline, one writer head, an installed
//! contract package whose single mutation rule is the data-driven interpreter (the program
//! travels as the EINT vars of the intent), a real filesystem WAL, and the list of observables
//! on which a recovered host is compared with its crash-free twin.

use std::collections::BTreeMap;
use std::path::{Path, PathBuf};

use echo_registry_api::{
    ArgDef, ContractArtifactVerificationPolicy, ObjectDef, OpDef, OpKind, RegistryInfo, RegistryProvider,
};
use serde::{Deserialize, Serialize};
use warp_core::causal_wal::{FilesystemWalFaultPlan, FilesystemWalFaultTarget};
use warp_core::ProvenanceStore;
use warp_core::{
    make_head_id, make_intent_kind, make_node_id, make_type_id, ContractMutationHandler, ContractPackageIdentity, EdgeId,
    EngineBuilder, Footprint, GraphStore, GraphView, Hash, InboxPolicy, IngressEnvelope, IngressTarget,
    InstalledContractPackage, NodeId, NodeRecord, PatternGraph, PlaybackMode, RewriteRule, SchedulerKind, TickDelta,
    TrustedRuntimeHost, TrustedRuntimeWalConfig, WorldlineId, WorldlineRuntime, WorldlineState, WriterHead, WriterHeadKey,
};

use crate::kernel::Rng;
use crate::world::ids;
use crate::world::prog::{declared_accesses, footprint_from, interpret, Decl, Prog, Step, Val, N};
use crate::world::rules::CALLBACKS;

pub const OP_ID: u32 = 7101;
const SCHEMA_HEX: &str = "c10c10c10c10c10c10c10c10c10c10c10c10c10c10c10c10c10c10c10c10c10c1";
const RULE_NAME: &str = "cmd/contract/c10c10c10c10c10c10c10c10c10c10c10c10c10c10c10c10c10c10c10c10c10c1/7101/interp";

static INTERP_ARGS: &[ArgDef] = &[ArgDef { name: "input", ty: "Program", required: true, list: false }];
static OPS: &[OpDef] = &[OpDef {
    kind: OpKind::Mutation,
    name: "interp",
    op_id: OP_ID,
    args: INTERP_ARGS,
    result_ty: "Unit",
    directives_json: "{}",
    footprint_certificate: None,
}];

struct Registry;

impl RegistryProvider for Registry {
    fn info(&self) -> RegistryInfo {
        RegistryInfo {
            echo_abi_version: 1,
            codec_id: "cbor-canon-v1",
            registry_version: 1,
            schema_sha256_hex: SCHEMA_HEX,
            wesley_generator_version: "echo-wesley-gen/0.1.0",
            helper_api_version: 1,
        }
    }
    fn op_by_id(&self, op_id: u32) -> Option<&'static OpDef> {
        OPS.iter().find(|op| op.op_id == op_id)
    }
    fn all_ops(&self) -> &'static [OpDef] {
        OPS
    }
    fn all_enums(&self) -> &'static [echo_registry_api::EnumDef] {
        &[]
    }
    fn all_objects(&self) -> &'static [ObjectDef] {
        &[]
    }
}

fn bump() {
    CALLBACKS.with(|c| c.set(c.get() + 1));
}

fn program_at(view: GraphView<'_>, scope: &NodeId) -> Option<Prog> {
    warp_core::eint_vars_for_op(view, scope, OP_ID).and_then(Prog::decode)
}

fn rule_matches(view: GraphView<'_>, scope: &NodeId) -> bool {
    bump();
    program_at(view, scope).is_some()
}

fn prev_from(view: GraphView<'_>, e: &EdgeId, scope: &NodeId) -> Option<NodeId> {
    crate::world::rules::universe_sources(scope).into_iter().find(|n| view.edges_from(n).any(|r| r.id == *e))
}

fn rule_footprint(view: GraphView<'_>, scope: &NodeId) -> Footprint {
    bump();
    let Some(prog) = program_at(view, scope) else {
        return warp_core::runtime_ingress_eint_read_footprint(view, scope);
    };
    let w = view.warp_id();
    let prev = |e: &EdgeId| prev_from(view, e, scope);
    // Honest accesses already contain the program fetch (a_read of the scope's alpha attachment).
    let (acc, _) = declared_accesses(&prog, w, scope, &prev);
    let mut fp = footprint_from(&acc, w);
    fp.n_read.insert_with_warp(w, *scope);
    fp
}

fn rule_execute(view: GraphView<'_>, scope: &NodeId, delta: &mut TickDelta) {
    bump();
    let Some(prog) = program_at(view, scope) else {
        return;
    };
    let w = view.warp_id();
    interpret(&prog, &view, w, scope, &mut |op| delta.emit(op));
}

fn rule() -> RewriteRule {
    RewriteRule {
        id: make_type_id("rule:verif/c10/interp").0,
        name: RULE_NAME,
        left: PatternGraph { nodes: vec![] },
        matcher: rule_matches,
        executor: rule_execute,
        compute_footprint: rule_footprint,
        factor_mask: 0,
        conflict_policy: warp_core::ConflictPolicy::Abort,
        join_fn: None,
    }
}

fn package() -> InstalledContractPackage<'static> {
    static REGISTRY: Registry = Registry;
    InstalledContractPackage {
        identity: ContractPackageIdentity {
            package_name: "verif-interp",
            package_version: "0.1.0",
            artifact_hash_hex: "abababababababababababababababababababababababababababababababab",
        },
        registry: &REGISTRY,
        verification_policy: ContractArtifactVerificationPolicy {
            echo_abi_version: 1,
            codec_id: "cbor-canon-v1",
            registry_version: 1,
            schema_sha256_hex: SCHEMA_HEX,
            wesley_generator_version: "echo-wesley-gen/0.1.0",
            helper_api_version: 1,
            footprint_certificates: &[],
            require_mutation_footprint_certificates: false,
        },
        mutation_handlers: vec![ContractMutationHandler { op_id: OP_ID, rule: rule() }],
        inverse_handlers: vec![],
        query_observers: vec![],
    }
}

pub fn worldline() -> WorldlineId {
    WorldlineId::from_bytes([1; 32])
}

pub fn head_key() -> WriterHeadKey {
    WriterHeadKey { worldline_id: worldline(), head_id: make_head_id("default") }
}

fn fresh_runtime() -> Result<WorldlineRuntime, String> {
    let mut runtime = WorldlineRuntime::new();
    runtime.register_worldline(worldline(), WorldlineState::empty()).map_err(|e| format!("register worldline: {e:?}"))?;
    runtime
        .register_writer_head(WriterHead::with_routing(head_key(), PlaybackMode::Play, InboxPolicy::AcceptAll, None, true))
        .map_err(|e| format!("register head: {e:?}"))?;
    Ok(runtime)
}

fn fresh_engine() -> warp_core::Engine {
    let mut store = GraphStore::default();
    let root = make_node_id("root");
    store.insert_node(root, NodeRecord { ty: make_type_id("world") });
    EngineBuilder::new(store, root).scheduler(SchedulerKind::Radix).workers(1).build()
}

/// A fresh host from a fresh runtime with the interpreter package installed; no WAL yet.
pub fn fresh_host() -> Result<TrustedRuntimeHost, String> {
    let mut host = TrustedRuntimeHost::new(fresh_runtime()?, fresh_engine()).map_err(|e| format!("host new: {e:?}"))?;
    host.register_contract_package(package()).map_err(|e| format!("register package: {e:?}"))?;
    Ok(host)
}

pub fn envelope(prog: &Prog) -> Result<IngressEnvelope, String> {
    let bytes = echo_wasm_abi::pack_intent_v1(OP_ID, &prog.encode()).map_err(|e| format!("pack: {e:?}"))?;
    Ok(IngressEnvelope::local_intent(
        IngressTarget::DefaultWriter { worldline_id: worldline() },
        make_intent_kind("echo.intent/eint-v1"),
        bytes,
    ))
}

/// Submission ids are a pure function of (head, ingress id): learn them from a WAL-less host.
pub fn submission_ids(progs: &[Prog]) -> Result<Vec<Hash>, String> {
    let mut host = fresh_host()?;
    let mut out = Vec::new();
    for p in progs {
        let h = host.app().submit_intent(envelope(p)?).map_err(|e| format!("probe submit: {e:?}"))?;
        out.push(h.submission_id);
    }
    Ok(out)
}

pub fn fault_target(i: u8) -> FilesystemWalFaultTarget {
    match i % 4 {
        0 => FilesystemWalFaultTarget::AppendFrame,
        1 => FilesystemWalFaultTarget::FlushCommit,
        2 => FilesystemWalFaultTarget::CommitMarkerSynced,
        _ => FilesystemWalFaultTarget::PublishManifest,
    }
}

pub const FAULT_NAMES: [&str; 5] = ["append_frame", "flush_commit", "commit_marker_synced", "publish_manifest", "ledger_blocked"];

pub fn arm_fault(host: &mut TrustedRuntimeHost, target: u8) -> Result<(), String> {
    host.inject_runtime_wal_filesystem_fault_for_test(FilesystemWalFaultPlan::fail_next(fault_target(target)))
        .map_err(|e| format!("inject fault: {e:?}"))
}

pub fn disarm_fault(host: &mut TrustedRuntimeHost) -> Result<(), String> {
    host.inject_runtime_wal_filesystem_fault_for_test(FilesystemWalFaultPlan::default()).map_err(|e| format!("clear fault: {e:?}"))
}

pub fn wal_config(dir: &Path) -> TrustedRuntimeWalConfig {
    TrustedRuntimeWalConfig::filesystem(dir)
}

// ---------------------------------------------------------------------------------------------
// Observables
// ---------------------------------------------------------------------------------------------

/// Named observables of a host; compared field by field (never whole-struct: writer-epoch
/// identity, fencing evidence, LSN coordinates and frontier roots legitimately differ between a
/// reopened log and a first-epoch twin).
#[derive(Clone, Debug, PartialEq, Eq)]
pub struct Obs(pub BTreeMap<&'static str, String>);

fn short(s: String) -> String {
    if s.len() <= 160 {
        s
    } else {
        format!("len{}:{}", s.len(), hex::encode(&blake3::hash(s.as_bytes()).as_bytes()[..10]))
    }
}

impl Obs {
    pub fn diff(&self, other: &Obs) -> Vec<String> {
        let mut out = Vec::new();
        for (k, v) in &self.0 {
            match other.0.get(k) {
                Some(w) if w == v => {}
                Some(w) => out.push(format!("{k}: {} != {}", short(v.clone()), short(w.clone()))),
                None => out.push(format!("{k}: missing on the right")),
            }
        }
        for k in other.0.keys() {
            if !self.0.contains_key(k) {
                out.push(format!("{k}: missing on the left"));
            }
        }
        out
    }
    pub fn digest(&self) -> [u8; 32] {
        let mut h = blake3::Hasher::new();
        for (k, v) in &self.0 {
            h.update(k.as_bytes());
            h.update(&(v.len() as u64).to_le_bytes());
            h.update(v.as_bytes());
        }
        *h.finalize().as_bytes()
    }
}

/// Error while observing: either the certificate roots disagree (a finding) or the API failed.
pub enum ObsErr {
    RootMismatch(String),
    Api(String),
}

pub fn observe(host: &mut TrustedRuntimeHost, sub_ids: &[Hash]) -> Result<Obs, ObsErr> {
    let mut m: BTreeMap<&'static str, String> = BTreeMap::new();
    let rec = host
        .runtime_wal()
        .ok_or_else(|| ObsErr::Api("no runtime wal".to_owned()))?
        .recover_read_only()
        .map_err(|e| ObsErr::Api(format!("recover_read_only: {e:?}")))?;
    let recomputed = rec.recomputed_indexes_root().map_err(|e| ObsErr::Api(format!("recomputed_indexes_root: {e:?}")))?;
    if recomputed != rec.certificate.recovered_indexes_root {
        return Err(ObsErr::RootMismatch(format!(
            "certificate {} recomputed {}",
            hex::encode(rec.certificate.recovered_indexes_root),
            hex::encode(recomputed)
        )));
    }
    m.insert("cert.indexes_root", hex::encode(rec.certificate.recovered_indexes_root));
    m.insert("cert.committed_transactions", rec.certificate.committed_transactions_replayed.to_string());
    m.insert("cert.obstruction_count", rec.certificate.obstruction_count.to_string());
    m.insert("wal.submissions", format!("{:?}", rec.submissions));
    m.insert("wal.receipts", format!("{:?}", rec.receipts));
    m.insert("wal.witnessed", format!("{:?}", rec.witnessed_submissions));
    m.insert("wal.missing", format!("{:?}/{:?}", rec.missing_submission_envelopes, rec.missing_runtime_state_deltas));
    m.insert("wal.provenance", format!("{}:{:?}", rec.provenance_entries.len(), rec.provenance_entries));
    m.insert("wal.correlations", format!("{:?}", rec.receipt_correlations));

    let rt = host.runtime();
    m.insert("rt.global_tick", rt.global_tick().as_u64().to_string());
    let wl = worldline();
    match rt.worldlines().get(&wl) {
        Some(f) => {
            m.insert("rt.frontier_tick", format!("{:?}", f.frontier_tick()));
            m.insert("rt.state_root", hex::encode(f.state().state_root()));
        }
        None => {
            m.insert("rt.frontier_tick", "none".to_owned());
        }
    }
    m.insert("rt.witnessed", format!("{:?}", rt.witnessed_submission_persistence_snapshot()));
    let corr: Vec<String> = rt.receipt_correlations().map(|c| format!("{c:?}")).collect();
    m.insert("rt.correlations", corr.join("|"));
    let mut inbox = String::new();
    for (k, h) in rt.heads().iter() {
        inbox.push_str(&format!("{:?}:{};", k.head_id, h.inbox().pending_count()));
    }
    m.insert("rt.inbox", inbox);
    m.insert("rt.faults", format!("{}:{}", rt.scheduler_fault_count(), rt.is_runtime_faulted()));
    let plen = host.provenance().len(wl).map_err(|e| ObsErr::Api(format!("provenance len: {e:?}")))?;
    let mut prov = format!("{plen}:");
    for t in 0..plen {
        match host.provenance().entry(wl, warp_core::WorldlineTick::from_raw(t)) {
            Ok(e) => prov.push_str(&format!("{e:?};")),
            Err(e) => prov.push_str(&format!("ERR {e:?};")),
        }
    }
    m.insert("rt.provenance", prov);
    let mut outcomes = String::new();
    for (i, id) in sub_ids.iter().enumerate() {
        let o = host.app().observe_intent_outcome(id);
        outcomes.push_str(&format!("{i}={o:?};"));
    }
    m.insert("app.outcomes", outcomes);
    Ok(Obs(m))
}

// ---------------------------------------------------------------------------------------------
// Program generation (always-applicable, state-dependent programs)
// ---------------------------------------------------------------------------------------------

/// Programs here must always apply (C10 is about the log, not the engine): nodes are upserted
/// before they are written, edge `e` always leaves `D(e)` (never re-parented), nothing is
/// deleted. Values written depend on what earlier programs wrote, so a lost, duplicated or
/// reordered tick changes every later state root.
pub fn gen_prog(rng: &mut Rng, nonce: u32) -> Prog {
    let n_steps = rng.urange(1, 4);
    let mut steps = Vec::new();
    for _ in 0..n_steps {
        let a = rng.below(u64::from(ids::N_NODES)) as u8;
        let b = rng.below(u64::from(ids::N_NODES)) as u8;
        match rng.weighted(&[3, 3, 2, 2, 1, 2]) {
            0 => {
                steps.push(Step::UpsertNode { n: N::D(a), ty: rng.below(3) as u8 });
                steps.push(Step::SetNodeAtt {
                    n: N::D(a),
                    val: Some(Val { ty: rng.below(3) as u8, bytes: (0..rng.urange(0, 5)).map(|_| *rng.pick(b"abcd")).collect() }),
                });
            }
            1 => {
                steps.push(Step::UpsertNode { n: N::D(a), ty: 1 });
                steps.push(Step::CopyNodeAtt { dst: N::D(a), src: N::D(b) });
            }
            2 => {
                steps.push(Step::UpsertNode { n: N::D(a), ty: 2 });
                steps.push(Step::NodeInfoInto { dst: N::D(a), src: N::D(b) });
            }
            3 => {
                steps.push(Step::UpsertNode { n: N::D(a), ty: 0 });
                steps.push(Step::UpsertNode { n: N::D(b), ty: 0 });
                steps.push(Step::UpsertEdge { e: a, from: N::D(a), to: N::D(b), ty: rng.below(3) as u8 });
            }
            4 => {
                steps.push(Step::UpsertNode { n: N::D(a), ty: 1 });
                steps.push(Step::EdgeFlagInto { dst: N::D(a), e: b });
            }
            _ => {
                steps.push(Step::UpsertNode { n: N::D(a), ty: 1 });
                steps.push(Step::CountAdjInto { dst: N::D(a), src: N::D(b) });
            }
        }
    }
    dedup_steps(&mut steps);
    Prog { rule: 0, nonce, steps, decl: Decl::Honest }
}

/// A program never emits two different ops with the same op key: keep the first write per target.
fn dedup_steps(steps: &mut Vec<Step>) {
    let mut seen_nodes: Vec<N> = Vec::new();
    let mut seen_atts: Vec<N> = Vec::new();
    let mut seen_edges: Vec<u8> = Vec::new();
    steps.retain(|s| match s {
        Step::UpsertNode { n, .. } => {
            if seen_nodes.contains(n) {
                false
            } else {
                seen_nodes.push(*n);
                true
            }
        }
        Step::SetNodeAtt { n, .. } => keep_first(&mut seen_atts, *n),
        Step::CopyNodeAtt { dst, .. }
        | Step::NodeInfoInto { dst, .. }
        | Step::EdgeFlagInto { dst, .. }
        | Step::CountAdjInto { dst, .. } => keep_first(&mut seen_atts, *dst),
        Step::UpsertEdge { e, .. } => {
            if seen_edges.contains(e) {
                false
            } else {
                seen_edges.push(*e);
                true
            }
        }
        _ => true,
    });
}

fn keep_first(seen: &mut Vec<N>, n: N) -> bool {
    if seen.contains(&n) {
        false
    } else {
        seen.push(n);
        true
    }
}

// ---------------------------------------------------------------------------------------------
// Crash-free log production (shared with C11)
// ---------------------------------------------------------------------------------------------

/// Plain workload op (no faults).
#[derive(Clone, Debug, Serialize, Deserialize, PartialEq, Eq)]
pub enum WOp {
    Submit(usize),
    Stage(usize),
    Tick,
    Restart,
}

/// Generate a crash-free workload producing about `target_txs` transactions; every session writes.
pub fn gen_workload(rng: &mut Rng, n_progs: usize, target_txs: usize, restarts: bool) -> Vec<WOp> {
    let mut ops = Vec::new();
    let mut submitted: Vec<usize> = Vec::new();
    let mut staged: Vec<usize> = Vec::new();
    let mut decided: Vec<usize> = Vec::new();
    let mut txs = 0usize;
    let mut session_writes = 0usize;
    let mut next = 0usize;
    let mut guard = 0;
    while txs < target_txs && guard < 200 {
        guard += 1;
        let can_submit = next < n_progs;
        let stageable: Vec<usize> = submitted.iter().copied().filter(|p| !staged.contains(p) && !decided.contains(p)).collect();
        let w = [
            if can_submit { 5 } else { 0 },
            if stageable.is_empty() { 0 } else { 4 },
            if staged.is_empty() { 0 } else { 4 },
            if restarts && session_writes > 0 { 1 } else { 0 },
        ];
        if w.iter().all(|x| *x == 0) {
            break;
        }
        match rng.weighted(&w) {
            0 => {
                ops.push(WOp::Submit(next));
                submitted.push(next);
                next += 1;
                txs += 1;
                session_writes += 1;
            }
            1 => {
                let p = *rng.pick(&stageable);
                ops.push(WOp::Stage(p));
                staged.push(p);
            }
            2 => {
                ops.push(WOp::Tick);
                decided.append(&mut staged);
                txs += 1;
                session_writes += 1;
            }
            _ => {
                ops.push(WOp::Restart);
                staged.clear();
                session_writes = 0;
            }
        }
    }
    ops
}

/// A produced log: directory tree plus the committed transactions in order.
pub struct ProducedLog {
    pub dir: PathBuf,
    pub commits: Vec<super::disk::CommitInfo>,
    pub ops_done: u64,
}

/// Run a crash-free workload on `dir` and leave the (closed) log there.
pub fn produce_log(dir: &Path, progs: &[Prog], ops: &[WOp]) -> Result<ProducedLog, String> {
    let sub_ids = submission_ids(progs)?;
    let mut host = open_plain(dir)?;
    let mut done = 0u64;
    for op in ops {
        match op {
            WOp::Submit(p) => {
                let Some(prog) = progs.get(*p) else { continue };
                host.app().submit_intent_with_runtime_wal_ack(envelope(prog)?).map_err(|e| format!("produce submit: {e:?}"))?;
            }
            WOp::Stage(p) => {
                let Some(id) = sub_ids.get(*p) else { continue };
                if host.runtime().witnessed_submission(id).is_none() {
                    continue;
                }
                host.admit_installed_contract_submission(*id).map_err(|e| format!("produce stage: {e:?}"))?;
            }
            WOp::Tick => {
                host.tick_once().map_err(|e| format!("produce tick: {e:?}"))?;
            }
            WOp::Restart => {
                drop(host);
                host = open_plain(dir)?;
            }
        }
        done += 1;
    }
    drop(host);
    let bytes = std::fs::read(dir.join(super::disk::SEGMENT_REL)).unwrap_or_default();
    let (commits, _) = super::disk::commits_in(&bytes);
    Ok(ProducedLog { dir: dir.to_path_buf(), commits, ops_done: done })
}

pub fn open_plain(dir: &Path) -> Result<TrustedRuntimeHost, String> {
    let mut host = fresh_host()?;
    host.enable_runtime_wal(wal_config(dir)).map_err(|e| format!("enable_runtime_wal: {e:?}"))?;
    Ok(host)
}
