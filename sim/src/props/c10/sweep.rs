//! Hook-free mode: a crash-free workload, then the final segment cut at sampled (thorough: all)
//! byte lengths, each combined with every writer-epoch-ledger version that can coexist with the
//! prefix (the ledger is rewritten after each commit sync, so the version current at, or one
//! behind, the prefix). Each image must reopen as exactly the committed prefix; each prefix also
//! goes through `recover_wal_segment_bytes`.

use warp_core::causal_wal::{recover_wal_segment_bytes, RecoveryAccessMode, RecoveryTailPosture, WalSegmentId};

use crate::kernel::{Outcome, Rng, RunCtx, Tier};
use crate::world::rules::callbacks;

use super::disk;
use super::world::{self, WOp};
use super::{obs_of, ops_from_workload, Mode, Op, Produced, Res, C10};

pub fn generate(rng: &mut Rng, tier: Tier, avoid: bool) -> C10 {
    let all_bytes = tier == Tier::Thorough && rng.chance(1, 12);
    let n_progs = rng.urange(1, 6);
    let progs = (0..n_progs).map(|i| world::gen_prog(rng, 1 + i as u32)).collect();
    let max_txs = if all_bytes { 3 } else if tier == Tier::Thorough { 12 } else { 8 };
    let target = rng.urange(1, max_txs);
    let restarts = rng.chance(1, 2);
    let ops = ops_from_workload(&world::gen_workload(rng, n_progs, target, restarts));
    let n_cuts = rng.urange(8, 20);
    let cuts = (0..n_cuts).map(|_| rng.next_u64() as u32).collect();
    C10 { avoid, mode: Mode::Sweep { cuts, all_bytes }, progs, fillers: vec![], ops, deep: false }
}

macro_rules! bail {
    ($class:expr, $($fmt:tt)*) => {
        return Err(Outcome::violation($class, format!($($fmt)*)))
    };
}

pub fn execute(sc: &C10, cuts: &[u32], all_bytes: bool, ctx: &mut RunCtx) -> Outcome {
    match run(sc, cuts, all_bytes, ctx) {
        Ok(()) => Outcome::Ok,
        Err(o) => o,
    }
}

fn run(sc: &C10, cuts: &[u32], all_bytes: bool, ctx: &mut RunCtx) -> Res<()> {
    // Phase 1: crash-free workload through the same checked driver as the history mode.
    let base = ctx.scratch_dir();
    let wops: Vec<WOp> = sc
        .ops
        .iter()
        .filter_map(|e| match &e.op {
            Op::Submit(p) => Some(WOp::Submit(*p)),
            Op::Stage(p) => Some(WOp::Stage(*p)),
            Op::Tick => Some(WOp::Tick),
            Op::Restart { .. } => Some(WOp::Restart),
            Op::Manifest { .. } => None,
        })
        .collect();
    let produced = super::produce_log(&sc.progs, &wops, ctx, base.clone(), false)?;
    let Produced { segment, commits, twin_obs, sub_ids, versions, .. } = produced;
    let n_committed = commits.len();

    // Phase 2: prefixes.
    let (_, parsed) = disk::commits_in(&segment);
    if commits.len() != n_committed || !matches!(parsed.tail, disk::Tail::Clean) {
        bail!("harness:sweep_log_shape", "{} commits parsed, {} in model, tail {:?}", commits.len(), n_committed, parsed.tail);
    }
    let commit_ends: Vec<usize> = parsed.recs.iter().filter(|r| r.kind == disk::KIND_COMMIT).map(|r| r.end).collect();
    let record_ends: Vec<usize> = parsed.recs.iter().map(|r| r.end).collect();
    let len = segment.len();
    ctx.count("reach.sweep_log_bytes", len as u64);
    let mut positions: Vec<usize> = Vec::new();
    if all_bytes {
        positions.extend(0..=len);
        ctx.hit("reach.sweep_every_byte");
    } else {
        for c in cuts {
            positions.push(*c as usize % (len + 1));
        }
        for e in &commit_ends {
            positions.push(*e);
            positions.push(e.saturating_sub(1));
            if *e + 1 <= len {
                positions.push(*e + 1);
            }
        }
    }
    positions.sort_unstable();
    positions.dedup();
    let mut fired = 0u64;
    for n in positions {
        let t = commit_ends.iter().filter(|e| **e <= n).count();
        let prefix = &segment[..n];
        // Byte-level recovery of the prefix.
        match crate::kernel::catch(|| recover_wal_segment_bytes(WalSegmentId::from_raw(1), prefix, RecoveryAccessMode::ReadOnly)) {
            Err(m) => bail!("panic:recover_wal_segment_bytes", "prefix {n}: {m}"),
            Ok(Err(e)) => bail!("prefix_rejected:segment_bytes", "prefix {n} of {len} (a torn tail by construction) was rejected: {e:?}"),
            Ok(Ok(rec)) => {
                let got: Vec<disk::H> = rec.report.transactions.iter().map(|x| x.commit.commit_digest).collect();
                let want: Vec<disk::H> = commits[..t].iter().map(|c| c.digest).collect();
                if got != want {
                    bail!("prefix_wrong_transactions:segment_bytes", "prefix {n}: recovered {} transactions, {} lie inside", got.len(), t);
                }
                let at_tx_boundary = n == 0 || commit_ends.contains(&n);
                let clean = matches!(rec.report.tail_posture, RecoveryTailPosture::Clean);
                if clean != at_tx_boundary {
                    bail!(
                        "prefix_tail_posture_wrong",
                        "prefix {n}: posture {:?}, at transaction boundary {at_tx_boundary} (record boundary {})",
                        rec.report.tail_posture,
                        record_ends.contains(&n)
                    );
                }
            }
        }
        // Host-level recovery with each coexisting ledger version.
        for (j, v) in versions.iter().enumerate() {
            let next_len = versions.get(j + 1).map_or(len, |x| x.seg_len);
            if !(v.seg_len <= n && n <= next_len) {
                continue;
            }
            if j + 1 < versions.len() && versions[j + 1].seg_len == v.seg_len && versions[j + 1].ledger == v.ledger {
                continue; // identical image, covered by the next version
            }
            let dir = base.join("cut");
            let mut tree = disk::Tree::new();
            tree.insert(disk::SEGMENT_REL.to_owned(), prefix.to_vec());
            if !v.ledger.is_empty() {
                tree.insert(disk::LEDGER_REL.to_owned(), v.ledger.clone());
            }
            if let Err(e) = disk::write_tree(&dir, &tree) {
                bail!("harness:cut_dir", "{e}");
            }
            let mut host = match world::fresh_host() {
                Ok(h) => h,
                Err(e) => bail!("harness:fresh_host", "{e}"),
            };
            let cb0 = callbacks();
            match crate::kernel::catch(|| host.enable_runtime_wal(world::wal_config(&dir))) {
                Err(m) => bail!("panic:reopen_prefix", "prefix {n} ledger version {j}: {m}"),
                Ok(Err(e)) => bail!("reopen_failed:prefix", "prefix {n} of {len}, {t} committed inside, ledger version {j}: {e:?}"),
                Ok(Ok(())) => {}
            }
            if callbacks() != cb0 {
                bail!("recovery_ran_callback", "prefix {n}");
            }
            let got = obs_of(&mut host, &sub_ids, "prefix")?;
            let d = got.diff(&twin_obs[t]);
            if let Some(first) = d.first() {
                let key = first.split(':').next().unwrap_or("?").to_owned();
                bail!(
                    format!("recovery_mismatch:{key}"),
                    "prefix {n} of {len} with ledger version {j}: differs from Twin({t} transactions):\n{}",
                    d.join("\n")
                );
            }
            drop(host);
            fired += 1;
            ctx.trace(&got.digest());
        }
    }
    ctx.count("fault.prefix_cut", fired);
    if fired > 0 && n_committed > 0 {
        let sig = serde_json::to_vec(sc).unwrap_or_default();
        ctx.nontrivial(&sig);
    }
    Ok(())
}

