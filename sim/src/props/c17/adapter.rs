//! Edict adapter surface of C17: request admission from a reviewed compiler artifact
//! (`admit_edict_external_action_request_v1`), then the ordinary durable lifecycle through the
//! bounded workspace observation adapter, with a coordinator crash-recover between steps.
//! Oracle: a request is admitted only with a retained-settlement budget within the settlement type
//! the artifact declares (parsed from the artifact by the harness), and no settlement larger than
//! that declared bound (or than the admitted budget) is ever durable.

use echo_edict_canonical::{decode_canonical_cbor_v1, encode_canonical_cbor_v1, CanonicalValueV1};
use serde::{Deserialize, Serialize};
use warp_core::causal_wal::{
    InMemoryWalStore, Lsn, PayloadCodecId, PayloadSchemaId, WalDurabilityMode, WalSegmentId, WalStorePort, WalTransactionId, WriterEpochId,
    WriterEpochRequest,
};
use warp_core::external_action::{
    claim_external_action, record_external_action_request, ExternalActionAdapterIdV1, ExternalActionAdapterRegistryV1, ExternalActionCoordinatorV1,
    ExternalActionTransactionContextV1,
};
use warp_core::external_action_adapter::{
    admit_edict_external_action_request_v1, bounded_workspace_observation_basis_v1, encode_bounded_workspace_observation_input_v1,
    BoundedWorkspaceObservationAdapterV1, BoundedWorkspaceObservationProfileV1,
};
use warp_core::{Hash, WorldlineId};

use crate::kernel::{catch, Outcome, Rng, RunCtx};

const FIXTURE_DIR: &str = "/repo/crates/warp-core/tests/fixtures/external_action";

#[derive(Clone, Debug, Serialize, Deserialize)]
pub struct AdapterRun {
    pub budget: u64,
    pub file_len: u32,
    pub max_attempts: u8,
    /// crash (drop + recover the coordinator) after step k: 0 = record, 1 = claim, 2 = settle; 9 = never
    pub crash_after: u8,
}

pub fn generate(rng: &mut Rng) -> AdapterRun {
    let budget = match rng.below(10) {
        0 => 0,
        1 => 1023,
        2 => 1024,
        3 => 65_535,
        4 => 65_536,
        5 => 65_537,
        6 => rng.range(65_537, 200_000),
        7 => 1_048_576,
        8 => 1_048_577,
        _ => rng.range(1, 70_000),
    };
    AdapterRun { budget, file_len: *rng.pick(&[0u32, 10, 4_000, 60_000, 66_000, 70_000, 120_000]), max_attempts: rng.range(1, 2) as u8, crash_after: *rng.pick(&[0u8, 1, 2, 9, 9]) }
}

fn digest(label: &str) -> Hash {
    blake3::hash(label.as_bytes()).into()
}

fn epoch_id() -> WriterEpochId {
    WriterEpochId::from_hash(digest("verif-c17-adapter:epoch"))
}

fn context(label: &str) -> ExternalActionTransactionContextV1 {
    ExternalActionTransactionContextV1 {
        writer_epoch: epoch_id(),
        segment_id: WalSegmentId::from_raw(1),
        transaction_id: WalTransactionId::from_hash(digest(label)),
        durability_mode: WalDurabilityMode::Buffered,
        payload_codec_id: PayloadCodecId::from_hash(digest("verif-c17-adapter:codec")),
        payload_schema_id: PayloadSchemaId::from_hash(digest("verif-c17-adapter:schema")),
        payload_schema_version: 1,
        canonical_encoding_version: 1,
        digest_domain: digest("verif-c17-adapter:domain"),
    }
}

/// Largest `Bytes<max=N>` bound named by a `settlementType` text anywhere in the artifact.
fn declared_settlement_max(v: &CanonicalValueV1, under_settlement_type: bool, out: &mut Option<u64>) {
    match v {
        CanonicalValueV1::Text(t) if under_settlement_type => {
            if let Some(rest) = t.strip_prefix("Bytes<max=") {
                if let Ok(n) = rest.trim_end_matches('>').parse::<u64>() {
                    *out = Some(out.map_or(n, |o| o.max(n)));
                }
            }
        }
        CanonicalValueV1::Array(a) => a.iter().for_each(|x| declared_settlement_max(x, under_settlement_type, out)),
        CanonicalValueV1::Map(m) => {
            for (k, x) in m {
                let key_is = matches!(k, CanonicalValueV1::Text(t) if t == "settlementType");
                declared_settlement_max(x, under_settlement_type || key_is, out);
            }
        }
        _ => {}
    }
}

pub fn run(sc: &AdapterRun, ctx: &mut RunCtx) -> Outcome {
    let (core, target) = match (std::fs::read(format!("{FIXTURE_DIR}/observe-workspace.core.cbor")), std::fs::read(format!("{FIXTURE_DIR}/observe-workspace.target-ir.cbor"))) {
        (Ok(a), Ok(b)) => (a, b),
        _ => {
            ctx.hit("reach.adapter_fixture_unavailable");
            return Outcome::Ok;
        }
    };
    let mut declared = None;
    if let Ok(v) = decode_canonical_cbor_v1(&target) {
        declared_settlement_max(&v, false, &mut declared);
    }
    let Some(declared) = declared else {
        ctx.hit("reach.adapter_fixture_unavailable");
        return Outcome::Ok;
    };
    let root = ctx.scratch_dir().join("workspace");
    if std::fs::create_dir_all(&root).is_err() {
        return Outcome::violation("harness:adapter_workspace", "cannot create workspace".to_owned());
    }
    let bytes = vec![0x5a_u8; sc.file_len as usize];
    if std::fs::write(root.join("blob.bin"), &bytes).is_err() {
        return Outcome::violation("harness:adapter_workspace", "cannot write blob".to_owned());
    }
    let basis = bounded_workspace_observation_basis_v1([("blob.bin", bytes.as_slice())]);
    let scope = digest("verif-c17-adapter:scope");
    let Ok(operation_input) = encode_bounded_workspace_observation_input_v1(["blob.bin".to_owned()]) else {
        return Outcome::violation("harness:adapter_input", "cannot encode operation input".to_owned());
    };
    let entry = |key: &str, value: CanonicalValueV1| (CanonicalValueV1::Text(key.to_owned()), value);
    let Ok(app_input) = encode_canonical_cbor_v1(&CanonicalValueV1::Map(vec![
        entry("payload", CanonicalValueV1::Bytes(operation_input)),
        entry("scope", CanonicalValueV1::Bytes(scope.to_vec())),
        entry("basis", CanonicalValueV1::Bytes(basis.to_vec())),
        entry("maxSettlementBytes", CanonicalValueV1::Integer(i128::from(sc.budget))),
        entry("maxAttempts", CanonicalValueV1::Integer(i128::from(sc.max_attempts))),
    ])) else {
        return Outcome::violation("harness:adapter_input", "cannot encode application input".to_owned());
    };
    ctx.count("time.ops", 1);
    let admitted = match catch(|| admit_edict_external_action_request_v1(WorldlineId::from_bytes([0x17; 32]), &core, &target, "observe", &app_input)) {
        Err(p) => return Outcome::violation("adapter_admission_panicked", p),
        Ok(Err(_)) => {
            // a typed refusal is always lawful here (attempt budgets and minimum envelope sizes have their
            // own rules); only acceptance is constrained by the declared bound
            ctx.hit("reach.adapter_admission_refused");
            return Outcome::Ok;
        }
        Ok(Ok(a)) => a,
    };
    ctx.hit("reach.adapter_admission_accepted");
    if sc.budget > declared {
        return Outcome::violation("request_admitted_beyond_declared_settlement_bound", format!("maxSettlementBytes {} admitted although the artifact declares Bytes<max={declared}>", sc.budget));
    }
    // ordinary lifecycle with an optional coordinator crash between steps
    let request = admitted.request();
    let profile = BoundedWorkspaceObservationProfileV1 {
        operation_id: request.operation_id,
        input_schema_digest: request.input_schema_digest,
        settlement_schema_digest: request.settlement_schema_digest,
        reconciliation_law_digest: request.reconciliation_law_digest,
        authority_scope_digest: request.authority_scope_digest,
        adapter_id: ExternalActionAdapterIdV1::from_hash(digest("verif-c17-adapter:adapter")),
    };
    let Ok(adapter) = BoundedWorkspaceObservationAdapterV1::open(&root, ["blob.bin".to_owned()], profile) else {
        return Outcome::Ok;
    };
    let mut store = InMemoryWalStore::new();
    if store
        .acquire_writer_epoch(WriterEpochRequest {
            epoch_id: epoch_id(),
            storage_fencing_token: digest("verif-c17-adapter:fencing"),
            process_identity: digest("verif-c17-adapter:process"),
            host_identity: digest("verif-c17-adapter:host"),
            started_at_lsn: Lsn::from_raw(0),
            previous_epoch_id: None,
            previous_epoch_final_commit_digest: None,
            lease_or_lock_evidence: digest("verif-c17-adapter:lease"),
        })
        .is_err()
    {
        return Outcome::violation("harness:adapter_store", "writer epoch".to_owned());
    }
    let Ok(mut coordinator) = ExternalActionCoordinatorV1::recover(&store) else {
        return Outcome::violation("recovery_failed:genesis", "empty store".to_owned());
    };
    let recorded = match record_external_action_request(&mut store, &mut coordinator, context("record"), request) {
        Ok(r) => r,
        Err(e) => return Outcome::violation("admitted_request_not_recordable", format!("{e:?}")),
    };
    let recorded = if sc.crash_after == 0 {
        ctx.hit("fault.crash");
        match ExternalActionCoordinatorV1::recover(&store) {
            Ok(c) => {
                coordinator = c;
                match coordinator.recorded_request(request.request_id()) {
                    Ok(r) => r,
                    Err(e) => return Outcome::violation("recovered_grant_mismatch:request_token", format!("{e:?}")),
                }
            }
            Err(e) => return Outcome::violation("recovery_failed:after_record", format!("{e:?}")),
        }
    } else {
        recorded
    };
    let registry = ExternalActionAdapterRegistryV1::new([adapter.adapter_binding()]);
    let Ok(authorization) = registry.authorize(&request, adapter.adapter_binding().adapter_id) else {
        return Outcome::Ok;
    };
    let grant = match claim_external_action(&mut store, &mut coordinator, context("claim"), recorded, authorization, request.basis_digest, 0, digest("verif-c17-adapter:lease-evidence")) {
        Ok(g) => g,
        Err(e) => return Outcome::violation("lawful_claim_refused", format!("{e:?}")),
    };
    let grant = if sc.crash_after == 1 {
        ctx.hit("fault.crash");
        match ExternalActionCoordinatorV1::recover(&store) {
            Ok(c) => {
                coordinator = c;
                match coordinator.claim_grant(request.request_id()) {
                    Ok(g) => g,
                    Err(e) => return Outcome::violation("recovered_grant_mismatch", format!("{e:?}")),
                }
            }
            Err(e) => return Outcome::violation("recovery_failed:after_claim", format!("{e:?}")),
        }
    } else {
        grant
    };
    let candidate = match catch(|| adapter.observe(&grant, &admitted)) {
        Err(p) => return Outcome::violation("adapter_observe_panicked", p),
        Ok(Err(_)) => {
            ctx.hit("reach.adapter_observe_refused");
            return Outcome::Ok;
        }
        Ok(Ok(c)) => c,
    };
    let _ = catch(|| adapter.admit_settlement(&mut store, &mut coordinator, context("settle"), &admitted, grant, candidate));
    ctx.count("time.ops", 3);
    // durable truth
    let recovered = match ExternalActionCoordinatorV1::recover(&store) {
        Ok(r) => r,
        Err(e) => return Outcome::violation("recovery_failed:after_settle", format!("{e:?}")),
    };
    if let Some(entry) = recovered.observed_index().get(request.request_id()) {
        if let Some(settlement) = &entry.settlement {
            ctx.hit("reach.adapter_settlement_durable");
            let n = settlement.canonical_result_bytes.len() as u64;
            if n > declared || n > sc.budget {
                return Outcome::violation("settlement_beyond_declared_bounds", format!("{n} result bytes durable; budget {} declared Bytes<max={declared}>", sc.budget));
            }
        }
    }
    ctx.nontrivial(format!("adapter:{}:{}:{}", sc.budget, sc.file_len, sc.crash_after).as_bytes());
    Outcome::Ok
}
