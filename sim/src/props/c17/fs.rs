//! `FsBackend`: the same tapes on the real `FilesystemWalStore` in a scratch directory.
//!
//! Append / flush errors are injected by the wrapper around the real store's port methods (the
//! real store's own code runs for everything that is not the injected failure). Process death is
//! simulated through the H5 I/O-point observer: at the chosen I/O point of the armed operation the
//! observer copies the WAL directory (crash image), cuts the image's segment file back to the
//! last synced length plus a chosen part of the un-synced bytes (nothing / everything / half = a
//! torn record) and unwinds with a private payload. `crash` then drops the store, swaps the image
//! in and reopens it with a fresh writer epoch, as a new process would.
//!
//! Durability and tail verdicts are this module's own, derived from the observed I/O points: a
//! commit is durable once its record was synced ("seg.append.synced") or, at a crash, when the
//! image keeps the whole record.

use std::cell::RefCell;
use std::fs;
use std::path::{Path, PathBuf};
use std::rc::Rc;

use warp_core::causal_wal::{
    recover_filesystem_store, ExternalActionCoordinatorCapability, FilesystemWalStore, Lsn, RecoveryAccessMode, RecoveryTailPosture,
    WalDurabilityMode, WalFrame, WalManifest, WalSegmentId, WalSegmentSeal, WalStoreError, WalStorePort, WalStoreSnapshot,
    WalTransactionCommit, WriterEpoch, WriterEpochId, WriterEpochRequest,
};
use warp_core::external_action::ExternalActionTransactionContextV1;
use warp_core::verif::install_io_observer;
use warp_core::Hash;

use super::store::{make_context, Armed, Backend, Fired, SimCrash};

struct Shared {
    root: PathBuf,
    image: PathBuf,
    seg: PathBuf,
    /// Segment bytes known to be on disk.
    synced_len: u64,
    /// End of the last durable commit record.
    last_commit_end: u64,
    /// Un-committed bytes after `last_commit_end` contain at least one complete frame record.
    tail_has_full_frame: bool,
    in_op: bool,
    io_count: u32,
    appends_written: u32,
    frame_end: Option<u64>,
    commit_end: Option<u64>,
    crash_at: Option<u32>,
    torn_mode: u32,
    crash_fired: bool,
    image_ready: bool,
    image_kept: bool,
    image_commit_durable: bool,
}

fn file_len(p: &Path) -> u64 {
    fs::metadata(p).map(|m| m.len()).unwrap_or(0)
}

fn copy_dir(from: &Path, to: &Path) -> std::io::Result<()> {
    fs::create_dir_all(to)?;
    for entry in fs::read_dir(from)? {
        let entry = entry?;
        let target = to.join(entry.file_name());
        if entry.file_type()?.is_dir() {
            copy_dir(&entry.path(), &target)?;
        } else {
            fs::copy(entry.path(), &target)?;
        }
    }
    Ok(())
}

impl Shared {
    /// Takes the crash image: what a disk would hold if the process died right now.
    fn capture(&mut self, torn_mode: u32) -> Result<(), String> {
        let _ = fs::remove_dir_all(&self.image);
        copy_dir(&self.root, &self.image).map_err(|e| format!("crash image copy: {e}"))?;
        let now = file_len(&self.seg);
        let unsynced = now.saturating_sub(self.synced_len);
        let kept = match torn_mode {
            0 => 0,
            1 => unsynced,
            _ => unsynced / 2,
        };
        let len = self.synced_len.min(now) + kept;
        let rel = self.seg.strip_prefix(&self.root).map_err(|e| format!("segment path: {e}"))?;
        let image_seg = self.image.join(rel);
        let f = fs::OpenOptions::new().write(true).open(&image_seg).map_err(|e| format!("open image segment: {e}"))?;
        f.set_len(len).map_err(|e| format!("cut image segment: {e}"))?;
        self.image_commit_durable = self.in_op && self.commit_end.is_some_and(|e| len >= e);
        if self.image_commit_durable {
            self.last_commit_end = self.commit_end.unwrap_or(self.last_commit_end);
        }
        if self.in_op {
            self.tail_has_full_frame = !self.image_commit_durable && self.frame_end.is_some_and(|e| len >= e);
        } else if len <= self.last_commit_end {
            self.tail_has_full_frame = false;
        } else if len < now {
            // Between operations the un-synced bytes are one complete frame record of a failed transaction.
            self.tail_has_full_frame = false;
        }
        self.image_kept = kept > 0;
        self.synced_len = len;
        self.image_ready = true;
        Ok(())
    }

    fn on_io(&mut self, kind: &str) -> bool {
        let k = self.io_count;
        self.io_count += 1;
        match kind {
            "seg.append.written" if self.in_op => {
                self.appends_written += 1;
                let len = file_len(&self.seg);
                if self.appends_written == 1 {
                    self.frame_end = Some(len);
                    self.tail_has_full_frame = true;
                } else if self.appends_written == 2 {
                    self.commit_end = Some(len);
                }
            }
            "seg.append.synced" => {
                let len = file_len(&self.seg);
                self.synced_len = len;
                self.last_commit_end = len;
                self.tail_has_full_frame = false;
            }
            // Protocol-agnostic recovery rewrite: an in-place rewrite syncs the segment itself
            // ("rewrite.synced" with no replacement file beside it); an atomic rewrite syncs a replacement
            // and publishes it with "rewrite.renamed". Either way the segment is then clean and durable.
            "rewrite.synced" if !self.seg.with_file_name(".segment-rewrite.tmp").exists() => {
                let len = file_len(&self.seg);
                self.synced_len = len;
                self.last_commit_end = len;
                self.tail_has_full_frame = false;
            }
            "rewrite.renamed" => {
                let len = file_len(&self.seg);
                self.synced_len = len;
                self.last_commit_end = len;
                self.tail_has_full_frame = false;
            }
            _ => {}
        }
        self.in_op && self.crash_at == Some(k)
    }
}

pub struct FsBackend {
    root: PathBuf,
    store: Option<FilesystemWalStore>,
    epoch: WriterEpochId,
    armed: Armed,
    frames_since_arm: u32,
    fired: Option<Fired>,
    mutating_calls: u64,
    journal: Vec<(Hash, Hash)>,
    pending_commit: Option<(Hash, Hash)>,
    shared: Rc<RefCell<Shared>>,
}

/// (Re)installs the calling thread's I/O observer. An observer that unwound (process death) has
/// been removed from its slot by the hook, so every crash is followed by a re-install.
fn install_observer(shared: &Rc<RefCell<Shared>>) {
    let obs = Rc::clone(shared);
    install_io_observer(Some(Box::new(move |kind: &str, _path: &Path| {
        let crash = {
            let mut st = obs.borrow_mut();
            let hit = st.on_io(kind);
            if hit {
                let mode = st.torn_mode;
                // A failed image copy is reported by `crash` (image_ready stays false).
                let _ = st.capture(mode);
                st.crash_fired = true;
                st.crash_at = None;
            }
            hit
        };
        if crash {
            std::panic::resume_unwind(Box::new(SimCrash));
        }
    })));
}

fn io(msg: &str) -> WalStoreError {
    WalStoreError::Io(format!("sim: {msg}"))
}

impl FsBackend {
    pub fn new(dir: &Path) -> Result<Self, String> {
        let root = dir.join("live");
        let image = dir.join("image");
        let (store, epoch) = Self::open_session(&root)?;
        let seg = store.segment_path();
        let len = file_len(&seg);
        let shared = Rc::new(RefCell::new(Shared {
            root: root.clone(),
            image,
            seg,
            synced_len: len,
            last_commit_end: len,
            tail_has_full_frame: false,
            in_op: false,
            io_count: 0,
            appends_written: 0,
            frame_end: None,
            commit_end: None,
            crash_at: None,
            torn_mode: 0,
            crash_fired: false,
            image_ready: false,
            image_kept: false,
            image_commit_durable: false,
        }));
        install_observer(&shared);
        Ok(Self {
            root,
            store: Some(store),
            epoch,
            armed: Armed::None,
            frames_since_arm: 0,
            fired: None,
            mutating_calls: 0,
            journal: Vec::new(),
            pending_commit: None,
            shared,
        })
    }

    fn open_session(root: &Path) -> Result<(FilesystemWalStore, WriterEpochId), String> {
        let mut store = FilesystemWalStore::open(root, WalSegmentId::from_raw(1)).map_err(|e| format!("open: {e:?}"))?;
        let epoch = store.acquire_fresh_writer_epoch(Lsn::from_raw(0)).map_err(|e| format!("acquire_fresh_writer_epoch: {e:?}"))?;
        Ok((store, epoch.epoch_id))
    }

    fn inner(&mut self) -> Result<&mut FilesystemWalStore, WalStoreError> {
        self.store.as_mut().ok_or(WalStoreError::NoActiveWriterEpoch)
    }

    fn reopen(&mut self) -> Result<(), String> {
        self.store = None;
        let (store, epoch) = Self::open_session(&self.root)?;
        self.store = Some(store);
        self.epoch = epoch;
        Ok(())
    }
}

impl Drop for FsBackend {
    fn drop(&mut self) {
        let _ = install_io_observer(None);
    }
}

impl WalStorePort for FsBackend {
    fn acquire_writer_epoch(&mut self, request: WriterEpochRequest) -> Result<WriterEpoch, WalStoreError> {
        self.inner()?.acquire_writer_epoch(request)
    }

    fn append_frame(&mut self, epoch_id: WriterEpochId, frame: WalFrame) -> Result<(), WalStoreError> {
        self.mutating_calls += 1;
        let k = self.frames_since_arm;
        self.frames_since_arm += 1;
        if let Armed::AppendError { frame: at, stored } = self.armed {
            if at == k {
                self.fired = Some(Fired::AppendError);
                if stored {
                    self.inner()?.append_frame(epoch_id, frame)?;
                }
                return Err(io("injected append_frame failure"));
            }
        }
        self.inner()?.append_frame(epoch_id, frame)
    }

    fn flush_commit(&mut self, epoch_id: WriterEpochId, commit: WalTransactionCommit) -> Result<(), WalStoreError> {
        self.mutating_calls += 1;
        self.inner()?.flush_commit(epoch_id, commit)
    }

    fn flush_external_action_commit(
        &mut self,
        epoch_id: WriterEpochId,
        commit: WalTransactionCommit,
        capability: ExternalActionCoordinatorCapability,
    ) -> Result<(), WalStoreError> {
        self.mutating_calls += 1;
        let pending = (commit.transaction_id.as_hash(), commit.commit_digest);
        self.pending_commit = Some(pending);
        if self.armed == Armed::FlushErrBeforeDurable {
            self.fired = Some(Fired::FlushErrBeforeDurable);
            self.pending_commit = None;
            return Err(io("injected commit flush failure before durability"));
        }
        self.inner()?.flush_external_action_commit(epoch_id, commit, capability)?;
        self.journal.push(pending);
        self.pending_commit = None;
        if self.armed == Armed::FlushErrAfterDurable {
            self.fired = Some(Fired::FlushErrAfterDurable);
            return Err(io("injected lost acknowledgement after durable commit flush"));
        }
        Ok(())
    }

    fn read_frames(&self) -> Vec<WalFrame> {
        self.store.as_ref().map(WalStorePort::read_frames).unwrap_or_default()
    }

    fn read_commits(&self) -> Vec<WalTransactionCommit> {
        self.store.as_ref().map(WalStorePort::read_commits).unwrap_or_default()
    }

    fn read_snapshot(&self) -> Result<WalStoreSnapshot, WalStoreError> {
        self.store.as_ref().ok_or(WalStoreError::NoActiveWriterEpoch)?.read_snapshot()
    }

    fn seal_segment(&mut self, epoch_id: WriterEpochId, segment_id: WalSegmentId) -> Result<WalSegmentSeal, WalStoreError> {
        self.inner()?.seal_segment(epoch_id, segment_id)
    }

    fn truncate_tail_after(&mut self, after_lsn: Lsn) -> Result<(), WalStoreError> {
        self.mutating_calls += 1;
        self.inner()?.truncate_tail_after(after_lsn)
    }

    fn publish_manifest(&mut self, epoch_id: WriterEpochId, manifest: WalManifest) -> Result<(), WalStoreError> {
        self.inner()?.publish_manifest(epoch_id, manifest)
    }

    fn close_epoch(&mut self, epoch_id: WriterEpochId) -> Result<(), WalStoreError> {
        self.inner()?.close_epoch(epoch_id)
    }
}

impl Backend for FsBackend {
    fn arm(&mut self, armed: Armed, nudge: u8, keep_tail: u32) {
        self.armed = armed;
        self.frames_since_arm = 0;
        self.fired = None;
        self.pending_commit = None;
        let mut st = self.shared.borrow_mut();
        st.in_op = true;
        st.io_count = 0;
        st.appends_written = 0;
        st.frame_end = None;
        st.commit_end = None;
        st.crash_fired = false;
        st.image_ready = false;
        st.torn_mode = keep_tail;
        // I/O points of one lifecycle transaction: 0 frame begin, 1 frame written, 2 commit begin,
        // 3 commit written, 4 commit synced, 5 ledger temp synced, 6 ledger renamed.
        st.crash_at = match armed {
            Armed::CrashBeforeFrame(_) => Some(0),
            Armed::CrashAfterFrame(_) => Some(1),
            Armed::CrashFlushBeforeDurable => Some(2 + u32::from(nudge % 2)),
            Armed::CrashFlushAfterDurable => Some(4 + u32::from(nudge % 3)),
            _ => None,
        };
    }

    fn disarm(&mut self) -> Option<Fired> {
        self.armed = Armed::None;
        let mut st = self.shared.borrow_mut();
        st.in_op = false;
        st.crash_at = None;
        if st.crash_fired {
            st.crash_fired = false;
            // Durability verdict for the transaction in flight, from the image that was kept.
            if st.image_commit_durable {
                if let Some(p) = self.pending_commit.take() {
                    self.journal.push(p);
                }
            }
            return Some(Fired::CrashMidTransaction);
        }
        self.fired.take()
    }

    fn mutating_calls(&self) -> u64 {
        self.mutating_calls
    }

    fn log_fingerprint(&self) -> (u64, u64) {
        (file_len(&self.shared.borrow().seg), 0)
    }

    fn journal(&self) -> &[(Hash, Hash)] {
        &self.journal
    }

    fn tail_is_clean(&self) -> bool {
        let st = self.shared.borrow();
        file_len(&st.seg) == st.last_commit_end
    }

    fn tail_visible_in_snapshot(&self) -> bool {
        self.shared.borrow().tail_has_full_frame
    }

    fn nothing_volatile(&self) -> bool {
        let st = self.shared.borrow();
        file_len(&st.seg) == st.synced_len
    }

    fn crash(&mut self, keep_tail: u32, _new_epoch: bool) -> Result<usize, String> {
        self.store = None;
        let kept = {
            let mut st = self.shared.borrow_mut();
            if !st.image_ready {
                st.in_op = false;
                st.capture(keep_tail)?;
            }
            st.image_ready = false;
            let _ = fs::remove_dir_all(&st.root);
            fs::rename(&st.image, &st.root).map_err(|e| format!("swap crash image in: {e}"))?;
            usize::from(st.image_kept)
        };
        install_observer(&self.shared);
        self.reopen()?;
        Ok(kept)
    }

    fn restart(&mut self, _new_epoch: bool) -> Result<(), String> {
        self.reopen()
    }

    fn writable_wal_recovery(&mut self) -> Result<RecoveryTailPosture, String> {
        self.mutating_calls += 1;
        let report = recover_filesystem_store(&self.root, RecoveryAccessMode::Writable).map_err(|e| format!("{e:?}"))?;
        if report.tail_posture == RecoveryTailPosture::Clean {
            return Ok(report.tail_posture);
        }
        // The rewrite reported "rewrite.synced"; the observer has already moved the lines.
        Ok(report.tail_posture)
    }

    fn context(&self, op_idx: usize) -> ExternalActionTransactionContextV1 {
        make_context(op_idx, self.epoch, WalDurabilityMode::StrictFilesystem)
    }
}
