//! `SimWalStore`: simulator-owned implementation of the real `WalStorePort` with a durable line.
//!
//! Storage model (the only stub in C17): an append-only list of frames and a list of commit
//! markers. Everything appended since the last successful commit flush is *volatile*; a
//! successful flush makes the commit marker and every frame appended before it durable (one
//! fsync covers the whole file prefix). A crash keeps the durable prefix plus a chosen prefix of
//! the volatile frames (a real disk may have written some of the un-synced bytes). Commit markers
//! are recorded only when their flush reached durability, so `read_snapshot` never shows a commit
//! that a crash could take away.
//!
//! Faults are armed by the driver for exactly one protocol operation at a time and recorded in
//! `fired` when they actually trigger.

use warp_core::causal_wal::{
    recover_from_frames_and_commits, ExternalActionCoordinatorCapability, Lsn, PayloadCodecId, PayloadSchemaId, RecoveryAccessMode,
    RecoveryTailPosture, WalDurabilityMode, WalFrame, WalManifest, WalSegmentId, WalSegmentSeal, WalStoreError, WalStorePort,
    WalStoreSnapshot, WalTransactionCommit, WalTransactionId, WalTransactionKind, WalValidationError, WriterEpoch, WriterEpochId,
    WriterEpochRequest,
};
use warp_core::external_action::ExternalActionTransactionContextV1;
use warp_core::Hash;

pub fn d(label: &str) -> Hash {
    blake3::hash(label.as_bytes()).into()
}

pub fn tx_hash(op_idx: usize) -> Hash {
    d(&format!("c17:tx:{op_idx}"))
}

pub fn sim_epoch_id(k: u32) -> WriterEpochId {
    WriterEpochId::from_hash(d(&format!("c17:epoch:{k}")))
}

pub fn make_context(op_idx: usize, epoch: WriterEpochId, mode: WalDurabilityMode) -> ExternalActionTransactionContextV1 {
    ExternalActionTransactionContextV1 {
        writer_epoch: epoch,
        segment_id: WalSegmentId::from_raw(1),
        transaction_id: WalTransactionId::from_hash(tx_hash(op_idx)),
        durability_mode: mode,
        payload_codec_id: PayloadCodecId::from_hash(d("c17:codec")),
        payload_schema_id: PayloadSchemaId::from_hash(d("c17:schema")),
        payload_schema_version: 1,
        canonical_encoding_version: 1,
        digest_domain: d("c17:domain"),
    }
}

/// What the driver needs from a storage surface besides the real `WalStorePort`:
/// fault arming, the surface's *own* durability / tail verdicts, crash and restart.
pub trait Backend: WalStorePort {
    /// `nudge` / `keep_tail` refine crash points on surfaces with more than one I/O point per phase.
    fn arm(&mut self, armed: Armed, nudge: u8, keep_tail: u32);
    fn disarm(&mut self) -> Option<Fired>;
    /// Mutating port calls seen so far.
    fn mutating_calls(&self) -> u64;
    /// Changes whenever the log contents change.
    fn log_fingerprint(&self) -> (u64, u64);
    /// (transaction id, commit digest) of every commit that reached durability, in order (own verdict).
    fn journal(&self) -> &[(Hash, Hash)];
    fn is_durable_commit(&self, digest: &Hash) -> bool {
        self.journal().iter().any(|(_, dg)| dg == digest)
    }
    /// Own tail verdict: nothing after the last durable commit record.
    fn tail_is_clean(&self) -> bool;
    /// Does `read_snapshot` show every kind of unclean tail this surface can produce right now?
    fn tail_visible_in_snapshot(&self) -> bool;
    fn nothing_volatile(&self) -> bool;
    /// Process death and restart of the storage. Returns how many un-flushed units survived.
    fn crash(&mut self, keep_tail: u32, new_epoch: bool) -> Result<usize, String>;
    /// Clean stop and restart.
    fn restart(&mut self, new_epoch: bool) -> Result<(), String>;
    /// The surface's ordinary writable WAL recovery (real scan, truncation of the uncommitted tail).
    fn writable_wal_recovery(&mut self) -> Result<RecoveryTailPosture, String>;
    fn context(&self, op_idx: usize) -> ExternalActionTransactionContextV1;
}

/// Sensitivity switch for checking the checker (must be 0 in committed code).
/// 1 = flush reports success without advancing the durable line;
/// 2 = `read_snapshot` hides the newest committed transaction from recovery.
pub const WEAKEN: u8 = 0;

/// Private panic payload used to simulate process death inside a store call.
pub struct SimCrash;

#[derive(Clone, Copy, Debug, PartialEq, Eq)]
pub enum Armed {
    None,
    /// `append_frame` fails at the k-th frame of the transaction; `stored` = the bytes reached the file anyway.
    AppendError { frame: u32, stored: bool },
    /// Commit flush fails and nothing of the commit reaches the disk.
    FlushErrBeforeDurable,
    /// Commit flush reaches the disk, the acknowledgement is lost (caller sees Err).
    FlushErrAfterDurable,
    /// Process dies when the k-th frame is about to be written.
    CrashBeforeFrame(u32),
    /// Process dies right after the k-th frame was written (not synced).
    CrashAfterFrame(u32),
    /// Process dies inside the commit flush before the marker is durable.
    CrashFlushBeforeDurable,
    /// Process dies inside the commit flush after the marker is durable (nobody hears the ack).
    CrashFlushAfterDurable,
}

#[derive(Clone, Copy, Debug, PartialEq, Eq)]
pub enum Fired {
    AppendError,
    FlushErrBeforeDurable,
    FlushErrAfterDurable,
    CrashMidTransaction,
}

#[derive(Clone, Debug)]
pub struct SimWalStore {
    active_epoch: Option<WriterEpochId>,
    used_epochs: Vec<WriterEpochId>,
    frames: Vec<WalFrame>,
    commits: Vec<WalTransactionCommit>,
    /// Durable line: `frames[..durable_frames]` and `commits[..durable_commits]` survive any crash.
    durable_frames: usize,
    durable_commits: usize,
    armed: Armed,
    frames_since_arm: u32,
    pub fired: Option<Fired>,
    /// Mutating port calls seen (append, flush, truncate) — used for "rejected op left the log alone".
    pub mutating_calls: u64,
    /// (transaction id, commit digest) of every commit that reached durability, in order.
    pub durable_journal: Vec<(Hash, Hash)>,
    epoch_counter: u32,
}

fn io(msg: &str) -> WalStoreError {
    WalStoreError::Io(format!("sim: {msg}"))
}

impl Default for SimWalStore {
    fn default() -> Self {
        Self::new()
    }
}

impl SimWalStore {
    pub fn new() -> Self {
        Self {
            active_epoch: None,
            used_epochs: Vec::new(),
            frames: Vec::new(),
            commits: Vec::new(),
            durable_frames: 0,
            durable_commits: 0,
            armed: Armed::None,
            frames_since_arm: 0,
            fired: None,
            mutating_calls: 0,
            durable_journal: Vec::new(),
            epoch_counter: 0,
        }
    }

    pub fn arm(&mut self, armed: Armed) {
        self.armed = armed;
        self.frames_since_arm = 0;
        self.fired = None;
    }

    pub fn disarm(&mut self) -> Option<Fired> {
        self.armed = Armed::None;
        self.fired.take()
    }

    /// Switches the active writer epoch without ceremony (used by the fault-free twin and after a crash).
    pub fn force_epoch(&mut self, epoch: WriterEpochId) {
        if !self.used_epochs.contains(&epoch) {
            self.used_epochs.push(epoch);
        }
        self.active_epoch = Some(epoch);
    }

    /// Number of frames above the durable line.
    pub fn volatile_frames(&self) -> usize {
        self.frames.len() - self.durable_frames.min(self.frames.len())
    }

    /// Own durability verdict: is this commit digest below the durable line?
    pub fn is_durable_commit(&self, digest: &Hash) -> bool {
        self.commits[..self.durable_commits.min(self.commits.len())].iter().any(|c| &c.commit_digest == digest)
    }

    fn last_committed_lsn(&self) -> Option<Lsn> {
        self.commits.iter().map(|c| c.last_lsn).max()
    }

    /// Own tail verdict: no frame beyond the last committed LSN.
    pub fn tail_is_clean(&self) -> bool {
        let last = self.last_committed_lsn();
        !self.frames.iter().any(|f| last.is_none_or(|l| f.header.lsn > l))
    }

    /// Process death: everything above the durable line is lost except the first `keep_tail`
    /// volatile frames. Returns the number of volatile frames that survived.
    pub fn crash(&mut self, keep_tail: u32) -> usize {
        self.armed = Armed::None;
        self.commits.truncate(self.durable_commits.min(self.commits.len()));
        let vol = self.volatile_frames();
        let kept = (keep_tail as usize).min(vol);
        let new_len = self.durable_frames.min(self.frames.len()) + kept;
        self.frames.truncate(new_len);
        kept
    }

    /// Store-specific half of ordinary writable WAL recovery for the "no committed transaction at
    /// all" posture (the port has no way to express "truncate everything"; the repository's own
    /// stores do this on their concrete types as well).
    pub fn truncate_all_uncommitted(&mut self) {
        self.mutating_calls += 1;
        if self.commits.is_empty() {
            self.frames.clear();
            self.durable_frames = 0;
        }
    }

    fn check_epoch(&self, epoch_id: WriterEpochId) -> Result<(), WalStoreError> {
        match self.active_epoch {
            None => Err(WalStoreError::NoActiveWriterEpoch),
            Some(e) if e != epoch_id => Err(WalStoreError::WriterEpochMismatch),
            Some(_) => Ok(()),
        }
    }

    fn flush_inner(&mut self, epoch_id: WriterEpochId, commit: WalTransactionCommit) -> Result<(), WalStoreError> {
        self.mutating_calls += 1;
        self.check_epoch(epoch_id)?;
        if commit.writer_epoch != epoch_id {
            return Err(WalStoreError::WriterEpochMismatch);
        }
        match self.armed {
            Armed::FlushErrBeforeDurable => {
                self.fired = Some(Fired::FlushErrBeforeDurable);
                return Err(io("injected commit flush failure before durability"));
            }
            Armed::CrashFlushBeforeDurable => {
                self.fired = Some(Fired::CrashMidTransaction);
                std::panic::resume_unwind(Box::new(SimCrash));
            }
            _ => {}
        }
        let tx = commit.transaction_id.as_hash();
        let digest = commit.commit_digest;
        self.commits.push(commit);
        if WEAKEN != 1 {
            self.durable_commits = self.commits.len();
            self.durable_frames = self.frames.len();
            self.durable_journal.push((tx, digest));
        }
        match self.armed {
            Armed::FlushErrAfterDurable => {
                self.fired = Some(Fired::FlushErrAfterDurable);
                Err(io("injected lost acknowledgement after durable commit flush"))
            }
            Armed::CrashFlushAfterDurable => {
                self.fired = Some(Fired::CrashMidTransaction);
                std::panic::resume_unwind(Box::new(SimCrash));
            }
            _ => Ok(()),
        }
    }
}

fn is_external_action_kind(kind: WalTransactionKind) -> bool {
    matches!(
        kind,
        WalTransactionKind::ExternalActionRequest | WalTransactionKind::ExternalActionClaim | WalTransactionKind::ExternalActionSettlement
    )
}

impl WalStorePort for SimWalStore {
    fn acquire_writer_epoch(&mut self, request: WriterEpochRequest) -> Result<WriterEpoch, WalStoreError> {
        if self.active_epoch.is_some() {
            return Err(WalStoreError::WriterEpochAlreadyActive);
        }
        if self.used_epochs.contains(&request.epoch_id) {
            return Err(WalStoreError::WriterEpochChainGap);
        }
        self.used_epochs.push(request.epoch_id);
        self.active_epoch = Some(request.epoch_id);
        Ok(WriterEpoch {
            epoch_id: request.epoch_id,
            storage_fencing_token: request.storage_fencing_token,
            process_identity: request.process_identity,
            host_identity: request.host_identity,
            started_at_lsn: request.started_at_lsn,
            previous_epoch_id: request.previous_epoch_id,
            previous_epoch_final_commit_digest: request.previous_epoch_final_commit_digest,
            lease_or_lock_evidence: request.lease_or_lock_evidence,
        })
    }

    fn append_frame(&mut self, epoch_id: WriterEpochId, frame: WalFrame) -> Result<(), WalStoreError> {
        self.mutating_calls += 1;
        self.check_epoch(epoch_id)?;
        if frame.header.writer_epoch != epoch_id {
            return Err(WalStoreError::WriterEpochMismatch);
        }
        frame.validate_integrity()?;
        let k = self.frames_since_arm;
        self.frames_since_arm += 1;
        match self.armed {
            Armed::AppendError { frame: at, stored } if at == k => {
                self.fired = Some(Fired::AppendError);
                if stored {
                    self.frames.push(frame);
                }
                return Err(io("injected append_frame failure"));
            }
            Armed::CrashBeforeFrame(at) if at == k => {
                self.fired = Some(Fired::CrashMidTransaction);
                std::panic::resume_unwind(Box::new(SimCrash));
            }
            Armed::CrashAfterFrame(at) if at == k => {
                self.frames.push(frame);
                self.fired = Some(Fired::CrashMidTransaction);
                std::panic::resume_unwind(Box::new(SimCrash));
            }
            _ => {}
        }
        self.frames.push(frame);
        Ok(())
    }

    fn flush_commit(&mut self, epoch_id: WriterEpochId, commit: WalTransactionCommit) -> Result<(), WalStoreError> {
        // Raw callers carry no coordinator capability: lifecycle commits are refused, as in the repository's stores.
        if is_external_action_kind(commit.transaction_kind) {
            return Err(WalStoreError::Validation(WalValidationError::ExternalActionCoordinatorCapabilityRequired));
        }
        self.flush_inner(epoch_id, commit)
    }

    fn flush_external_action_commit(
        &mut self,
        epoch_id: WriterEpochId,
        commit: WalTransactionCommit,
        _capability: ExternalActionCoordinatorCapability,
    ) -> Result<(), WalStoreError> {
        self.flush_inner(epoch_id, commit)
    }

    fn read_frames(&self) -> Vec<WalFrame> {
        self.frames.clone()
    }

    fn read_commits(&self) -> Vec<WalTransactionCommit> {
        self.commits.clone()
    }

    fn read_snapshot(&self) -> Result<WalStoreSnapshot, WalStoreError> {
        if WEAKEN == 2 && self.commits.len() >= 2 {
            let mut commits = self.commits.clone();
            let dropped = commits.pop();
            let mut frames = self.frames.clone();
            if let Some(d) = dropped {
                frames.retain(|f| f.header.lsn < d.first_lsn);
            }
            return Ok(WalStoreSnapshot { frames, commits });
        }
        Ok(WalStoreSnapshot {
            frames: self.frames.clone(),
            commits: self.commits.clone(),
        })
    }

    fn seal_segment(&mut self, epoch_id: WriterEpochId, segment_id: WalSegmentId) -> Result<WalSegmentSeal, WalStoreError> {
        self.check_epoch(epoch_id)?;
        Ok(WalSegmentSeal {
            segment_id,
            sealed_lsn: self.frames.iter().filter(|f| f.header.segment_id == segment_id).map(|f| f.header.lsn).max(),
            segment_digest: [0; 32],
        })
    }

    fn truncate_tail_after(&mut self, after_lsn: Lsn) -> Result<(), WalStoreError> {
        self.mutating_calls += 1;
        self.frames.retain(|f| f.header.lsn <= after_lsn);
        self.durable_frames = self.durable_frames.min(self.frames.len());
        Ok(())
    }

    fn publish_manifest(&mut self, epoch_id: WriterEpochId, _manifest: WalManifest) -> Result<(), WalStoreError> {
        self.check_epoch(epoch_id)
    }

    fn close_epoch(&mut self, epoch_id: WriterEpochId) -> Result<(), WalStoreError> {
        self.check_epoch(epoch_id)?;
        self.active_epoch = None;
        Ok(())
    }
}

impl Backend for SimWalStore {
    fn arm(&mut self, armed: Armed, _nudge: u8, _keep_tail: u32) {
        SimWalStore::arm(self, armed);
    }
    fn disarm(&mut self) -> Option<Fired> {
        SimWalStore::disarm(self)
    }
    fn mutating_calls(&self) -> u64 {
        self.mutating_calls
    }
    fn log_fingerprint(&self) -> (u64, u64) {
        (self.frames.len() as u64, self.commits.len() as u64)
    }
    fn journal(&self) -> &[(Hash, Hash)] {
        &self.durable_journal
    }
    fn is_durable_commit(&self, digest: &Hash) -> bool {
        SimWalStore::is_durable_commit(self, digest)
    }
    fn tail_is_clean(&self) -> bool {
        SimWalStore::tail_is_clean(self)
    }
    fn tail_visible_in_snapshot(&self) -> bool {
        true
    }
    fn nothing_volatile(&self) -> bool {
        self.volatile_frames() == 0
    }
    fn crash(&mut self, keep_tail: u32, new_epoch: bool) -> Result<usize, String> {
        let kept = SimWalStore::crash(self, keep_tail);
        if new_epoch {
            self.epoch_counter += 1;
            self.force_epoch(sim_epoch_id(self.epoch_counter));
        }
        Ok(kept)
    }
    fn restart(&mut self, new_epoch: bool) -> Result<(), String> {
        if new_epoch {
            self.epoch_counter += 1;
            self.force_epoch(sim_epoch_id(self.epoch_counter));
        }
        Ok(())
    }
    fn writable_wal_recovery(&mut self) -> Result<RecoveryTailPosture, String> {
        let snap = self.read_snapshot().map_err(|e| format!("snapshot: {e:?}"))?;
        let report = recover_from_frames_and_commits(&snap.frames, &snap.commits, RecoveryAccessMode::Writable).map_err(|e| format!("scan: {e:?}"))?;
        match report.tail_posture {
            RecoveryTailPosture::TruncatedAfter(lsn) => self.truncate_tail_after(lsn).map_err(|e| format!("truncate: {e:?}"))?,
            RecoveryTailPosture::TruncatedAll => self.truncate_all_uncommitted(),
            _ => {}
        }
        Ok(report.tail_posture)
    }
    fn context(&self, op_idx: usize) -> ExternalActionTransactionContextV1 {
        make_context(op_idx, sim_epoch_id(self.epoch_counter), WalDurabilityMode::Buffered)
    }
}
