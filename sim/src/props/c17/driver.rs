//! C17 driver: executes one scenario against the real protocol and checks it against the
//! independent lifecycle model, the store's own durability verdicts and a fault-free twin.

use std::panic::{catch_unwind, AssertUnwindSafe};

use warp_core::causal_wal::{recover_from_frames_and_commits, RecoveryAccessMode, RecoveryTailPosture, WalRecordKind, WalStoreError};
use warp_core::external_action::{
    admit_external_action_settlement, claim_external_action, observe_external_actions, reconcile_external_action_settlement_retry,
    record_external_action_request, AdmittedExternalActionSettlementV1, DurablyRecordedExternalActionRequestV1,
    ExternalActionAdapterBindingV1, ExternalActionAdapterIdV1, ExternalActionAdapterRegistryV1, ExternalActionAttemptIdV1,
    ExternalActionBudgetV1, ExternalActionClaimGrantV1, ExternalActionClaimV1, ExternalActionCoordinatorV1, ExternalActionOperationIdV1,
    ExternalActionProtocolErrorV1, ExternalActionRequestV1, ExternalActionSettlementCandidateV1, ExternalActionSettlementKindV1,
    ExternalActionTransactionContextV1, RecoveredExternalActionIndexV1, RecoveredExternalActionPostureV1,
};
use warp_core::{Hash, WorldlineId};

use super::store::{d, tx_hash, Armed, Backend, Fired, SimCrash, SimWalStore};
use super::{adapter_bound, CrashPoint, Fault, FaultKind, Op, ReqBad, SettleBad, C17};
use crate::kernel::{Outcome, RunCtx};

type R<T> = Result<T, Outcome>;
type PErr = ExternalActionProtocolErrorV1;

fn viol<T>(class: &str, detail: String) -> R<T> {
    Err(Outcome::violation(class, detail))
}

macro_rules! req {
    ($cond:expr, $class:expr, $($fmt:tt)*) => {
        if !($cond) {
            return Err(Outcome::violation($class, format!($($fmt)*)));
        }
    };
}

fn operation_id() -> ExternalActionOperationIdV1 {
    ExternalActionOperationIdV1::from_hash(d("c17:operation@1"))
}

fn scope_digest(s: u8) -> Hash {
    d(&format!("c17:scope:{s}"))
}

fn adapter_id(a: u8) -> ExternalActionAdapterIdV1 {
    ExternalActionAdapterIdV1::from_hash(d(&format!("c17:adapter:{a}")))
}

fn lease_digest(l: u8) -> Hash {
    if l == 0 {
        [0; 32]
    } else {
        d(&format!("c17:lease:{l}"))
    }
}

fn kind_of(k: u8) -> ExternalActionSettlementKindV1 {
    match k.wrapping_sub(1) % 4 {
        0 => ExternalActionSettlementKindV1::Succeeded,
        1 => ExternalActionSettlementKindV1::Rejected,
        2 => ExternalActionSettlementKindV1::Failed,
        _ => ExternalActionSettlementKindV1::OutcomeUnknown,
    }
}

thread_local! {
    /// Size-boundary mode of the scenario being executed on this thread (see `C17::huge`).
    pub(crate) static HUGE: std::cell::Cell<bool> = const { std::cell::Cell::new(false) };
}

fn result_bytes(a: SettleArgs) -> Vec<u8> {
    let n = if HUGE.with(std::cell::Cell::get) { 1_048_576usize.saturating_sub(usize::from(a.len)) } else { usize::from(a.len) };
    (0..n).map(|i| a.salt.wrapping_mul(37).wrapping_add(i as u8)).collect()
}

fn make_request(label: usize, scope: u8, budget: ExternalActionBudgetV1) -> Result<ExternalActionRequestV1, PErr> {
    ExternalActionRequestV1::new(
        WorldlineId::from_bytes([label as u8 + 1; 32]),
        operation_id(),
        d("c17:input-schema"),
        d("c17:settlement-schema"),
        scope_digest(scope),
        d(&format!("c17:basis:{label}")),
        budget,
        d(&format!("c17:input:{label}")),
        d("c17:reconciliation-law"),
    )
}

#[derive(Clone, Copy, Debug, PartialEq, Eq)]
struct ClaimArgs {
    adapter: u8,
    lease: u8,
    attempt: u32,
}

#[derive(Clone, Copy, Debug, PartialEq, Eq)]
struct SettleArgs {
    kind: u8,
    len: u16,
    salt: u8,
}

/// Independent reference lifecycle of one request id.
#[derive(Clone, Copy, Debug, PartialEq, Eq)]
enum Life {
    Absent,
    Requested,
    Claimed(ClaimArgs),
    Settled(ClaimArgs, SettleArgs),
}

impl Life {
    fn rank(&self) -> u8 {
        match self {
            Life::Absent => 0,
            Life::Requested => 1,
            Life::Claimed(_) => 2,
            Life::Settled(..) => 3,
        }
    }
}

#[derive(Clone, Copy, Debug)]
enum DKind {
    Request,
    Claim(ClaimArgs),
    Settle(SettleArgs),
}

/// One operation whose commit marker is below the durable line (in log order).
#[derive(Clone, Copy, Debug)]
struct DurableOp {
    op_idx: usize,
    /// The transaction metadata the operation ran with (the twin reuses it verbatim).
    ctx: ExternalActionTransactionContextV1,
    id: usize,
    kind: DKind,
}

#[derive(Clone, Copy, Debug, PartialEq, Eq)]
struct GrantFp {
    request: ExternalActionRequestV1,
    claim: ExternalActionClaimV1,
    commit: Hash,
}

fn fp_of(g: &ExternalActionClaimGrantV1) -> GrantFp {
    GrantFp { request: g.request(), claim: g.claim(), commit: g.claim_commit_digest() }
}

enum Expect {
    Accept,
    /// Class reported when the code accepts the operation anyway.
    Reject(&'static str),
}

enum Receipt {
    Token(DurablyRecordedExternalActionRequestV1),
    StashedToken(DurablyRecordedExternalActionRequestV1),
    Grant(ExternalActionClaimGrantV1),
    StashedGrant(ExternalActionClaimGrantV1),
    Admitted(AdmittedExternalActionSettlementV1),
    Reconciled(AdmittedExternalActionSettlementV1),
}

enum Perf {
    /// Rejected before any coordinator API was reached (request construction, registry authorization).
    PreReject(String),
    Done(Result<Receipt, PErr>),
}

struct Sim<'a, B: Backend> {
    sc: &'a C17,
    n: usize,
    reqs: Vec<ExternalActionRequestV1>,
    ghost: ExternalActionRequestV1,
    registry: ExternalActionAdapterRegistryV1,
    store: B,
    coord: Option<ExternalActionCoordinatorV1>,
    poisoned: bool,
    linger_left: u32,
    recover_direct_first: bool,
    /// Surface could not show a torn tail to coordinator recovery and the workload went on (filesystem only).
    torn_tail_ignored: bool,
    tokens: Vec<Vec<DurablyRecordedExternalActionRequestV1>>,
    grants: Vec<Vec<ExternalActionClaimGrantV1>>,
    first_grant: Vec<Option<GrantFp>>,
    first_settlement: Vec<Option<AdmittedExternalActionSettlementV1>>,
    model: Vec<Life>,
    durable_ops: Vec<DurableOp>,
    max_rank_seen: Vec<u8>,
    /// Grants / token commit digests obtained inside `perform` by re-derivation (checked afterwards).
    seen_grants: Vec<(usize, GrantFp)>,
    seen_digests: Vec<Hash>,
    /// The operation consumed a token / grant the client was holding (it reached the protocol function proper).
    used_held: bool,
    faults_fired: u32,
    reached_claimed: bool,
}

pub fn run<B: Backend>(sc: &C17, store: B, ctx: &mut RunCtx) -> Outcome {
    let mut sim = match Sim::new(sc, store) {
        Ok(s) => s,
        Err(o) => return o,
    };
    match sim.run(ctx) {
        Ok(()) => Outcome::Ok,
        // Every consequence of going on over an invisible torn tail is one finding, whatever shape it takes later.
        Err(Outcome::Violation { class, detail }) if sim.torn_tail_ignored => {
            Outcome::violation("fs_torn_tail_invisible_to_coordinator_recovery", format!("[{class}] {detail}"))
        }
        Err(o) => o,
    }
}

fn is_injected(e: &PErr) -> bool {
    matches!(e, PErr::WalStore(WalStoreError::Io(s)) if s.starts_with("sim:"))
}

impl<'a, B: Backend> Sim<'a, B> {
    fn new(sc: &'a C17, store: B) -> R<Self> {
        let n = sc.n();
        let mut reqs = Vec::new();
        for i in 0..n {
            let budget = ExternalActionBudgetV1 { max_settlement_bytes: sc.budget_bytes(i), max_attempts: 1 };
            match make_request(i, sc.scope(i), budget) {
                Ok(r) => reqs.push(r),
                Err(e) => return viol("harness:request_fixture", format!("request {i}: {e:?}")),
            }
        }
        let ghost = match make_request(200, 0, ExternalActionBudgetV1 { max_settlement_bytes: 8, max_attempts: 1 }) {
            Ok(r) => r,
            Err(e) => return viol("harness:request_fixture", format!("ghost: {e:?}")),
        };
        let mut bindings = Vec::new();
        for a in 0..3u8 {
            for s in 0..2u8 {
                if adapter_bound(a, s) {
                    bindings.push(ExternalActionAdapterBindingV1 {
                        adapter_id: adapter_id(a),
                        operation_id: operation_id(),
                        authority_scope_digest: scope_digest(s),
                    });
                }
            }
        }
        Ok(Sim {
            sc,
            n,
            reqs,
            ghost,
            registry: ExternalActionAdapterRegistryV1::new(bindings),
            store,
            coord: None,
            poisoned: false,
            linger_left: 0,
            recover_direct_first: false,
            torn_tail_ignored: false,
            tokens: (0..n).map(|_| Vec::new()).collect(),
            grants: (0..n).map(|_| Vec::new()).collect(),
            first_grant: vec![None; n],
            first_settlement: vec![None; n],
            model: vec![Life::Absent; n],
            durable_ops: Vec::new(),
            max_rank_seen: vec![0; n],
            seen_grants: Vec::new(),
            seen_digests: Vec::new(),
            used_held: false,
            faults_fired: 0,
            reached_claimed: false,
        })
    }

    fn id(&self, raw: u8) -> usize {
        raw as usize % self.n
    }

    fn fault_at(&self, idx: usize) -> Option<Fault> {
        self.sc.faults.iter().find(|f| f.at_op as usize == idx).copied()
    }

    // ---------------------------------------------------------------- expectations (model only)

    fn claim_args_valid(&self, i: usize, adapter: u8, auth_from: Option<u8>, basis_ok: bool, attempt: u32, lease: u8) -> bool {
        let src = auth_from.map(|s| self.id(s)).unwrap_or(i);
        adapter_bound(adapter, self.sc.scope(src)) && src == i && basis_ok && attempt == 0 && lease != 0
    }

    fn expectation(&self, op: &Op) -> Expect {
        match op {
            Op::Request { id, bad } => {
                if *bad != ReqBad::None {
                    Expect::Reject("invalid_request_admitted")
                } else if self.model[self.id(*id)] != Life::Absent {
                    Expect::Reject("duplicate_request_admitted")
                } else {
                    Expect::Accept
                }
            }
            Op::StashToken { id } => match self.model[self.id(*id)] {
                Life::Requested => Expect::Accept,
                _ => Expect::Reject("token_without_open_request"),
            },
            Op::Claim { id, adapter, auth_from, basis_ok, attempt, lease } => {
                let i = self.id(*id);
                match self.model[i] {
                    Life::Absent => Expect::Reject("claim_without_request_admitted"),
                    Life::Claimed(_) | Life::Settled(..) => Expect::Reject("second_distinct_grant"),
                    Life::Requested => {
                        if self.claim_args_valid(i, *adapter, *auth_from, *basis_ok, *attempt, *lease) {
                            Expect::Accept
                        } else {
                            Expect::Reject("invalid_claim_admitted")
                        }
                    }
                }
            }
            Op::StashGrant { id } => match self.model[self.id(*id)] {
                Life::Claimed(_) => Expect::Accept,
                Life::Settled(..) => Expect::Reject("grant_after_settlement"),
                _ => Expect::Reject("grant_before_durable:derived_without_claim"),
            },
            Op::Settle { id, len, bad, .. } => {
                let i = self.id(*id);
                match self.model[i] {
                    Life::Absent | Life::Requested => Expect::Reject("settlement_without_claim_admitted"),
                    Life::Settled(..) => Expect::Reject("second_settlement_admitted"),
                    Life::Claimed(_) => match bad {
                        SettleBad::None => {
                            if self.sc.huge || *len <= self.sc.budget(i) {
                                Expect::Accept
                            } else {
                                Expect::Reject("settlement_out_of_bounds_admitted")
                            }
                        }
                        SettleBad::WrongAttempt
                        | SettleBad::OtherIdsAttempt(_)
                        | SettleBad::WrongAdapter
                        | SettleBad::WrongBasis
                        | SettleBad::WrongRequestId(_) => Expect::Reject("settlement_wrong_attempt_admitted"),
                        _ => Expect::Reject("settlement_out_of_bounds_admitted"),
                    },
                }
            }
            Op::Reconcile { id, retained, kind, len, salt, bad } => {
                let i = self.id(*id);
                match self.model[i] {
                    Life::Settled(_, sa) => {
                        let params = if *retained { sa } else { SettleArgs { kind: *kind, len: *len, salt: *salt } };
                        let same = kind_of(params.kind) == kind_of(sa.kind) && result_bytes(params) == result_bytes(sa);
                        if same && *bad == SettleBad::None {
                            Expect::Accept
                        } else {
                            Expect::Reject("retry_answered_without_retained_match")
                        }
                    }
                    _ => Expect::Reject("retry_answered_without_retained_match"),
                }
            }
            Op::Observe => Expect::Accept,
        }
    }

    fn durable_kind(&self, op: &Op) -> Option<(usize, DKind)> {
        match op {
            Op::Request { id, .. } => Some((self.id(*id), DKind::Request)),
            Op::Claim { id, adapter, attempt, lease, .. } => {
                Some((self.id(*id), DKind::Claim(ClaimArgs { adapter: *adapter, lease: *lease, attempt: *attempt })))
            }
            Op::Settle { id, kind, len, salt, .. } => Some((self.id(*id), DKind::Settle(SettleArgs { kind: *kind, len: *len, salt: *salt }))),
            _ => None,
        }
    }

    // ---------------------------------------------------------------- operations against the real code

    fn candidate(
        &self,
        i: usize,
        attempt_id: ExternalActionAttemptIdV1,
        claim_adapter: ExternalActionAdapterIdV1,
        args: SettleArgs,
        bad: SettleBad,
    ) -> ExternalActionSettlementCandidateV1 {
        let req = self.reqs[i];
        let mut c = ExternalActionSettlementCandidateV1::new(
            req.request_id(),
            attempt_id,
            claim_adapter,
            kind_of(args.kind),
            req.settlement_schema_digest,
            req.basis_digest,
            result_bytes(args),
            d("c17:schema-admission-evidence"),
            d("c17:external-evidence"),
        );
        match bad {
            SettleBad::None => {}
            SettleBad::WrongAttempt => c.attempt_id = ExternalActionAttemptIdV1::from_hash(d("c17:no-such-attempt")),
            SettleBad::OtherIdsAttempt(o) => {
                let o = self.id(o);
                c.attempt_id = match self.first_grant[o] {
                    Some(fp) if o != i => fp.claim.attempt_id,
                    _ => ExternalActionAttemptIdV1::from_hash(d("c17:no-such-attempt")),
                };
            }
            SettleBad::WrongAdapter => {
                c.adapter_id = if claim_adapter == adapter_id(0) { adapter_id(1) } else { adapter_id(0) };
            }
            SettleBad::WrongBasis => c.basis_digest = d("c17:stale-basis"),
            SettleBad::WrongSchema => c.settlement_schema_digest = d("c17:other-settlement-schema"),
            SettleBad::ZeroSchemaEvidence => c.schema_admission_evidence_digest = [0; 32],
            SettleBad::ZeroExternalEvidence => c.external_evidence_digest = [0; 32],
            SettleBad::BadDigest => c.declared_result_digest = d("c17:not-the-result-digest"),
            SettleBad::WrongRequestId(o) => {
                let o = self.id(o);
                c.request_id = if o != i { self.reqs[o].request_id() } else { self.ghost.request_id() };
            }
        }
        c
    }

    /// Runs one operation against the real protocol. May unwind with `SimCrash`.
    fn perform(&mut self, idx: usize, op: &Op) -> Perf {
        let ctx = self.store.context(idx);
        match op {
            Op::Request { id, bad } => {
                let i = self.id(*id);
                let request = match bad {
                    ReqBad::None => self.reqs[i],
                    other => {
                        let b = self.sc.budget_bytes(i);
                        let budget = match other {
                            ReqBad::ZeroBytes => ExternalActionBudgetV1 { max_settlement_bytes: 0, max_attempts: 1 },
                            ReqBad::ZeroAttempts => ExternalActionBudgetV1 { max_settlement_bytes: b, max_attempts: 0 },
                            ReqBad::TwoAttempts => ExternalActionBudgetV1 { max_settlement_bytes: b, max_attempts: 2 },
                            _ => ExternalActionBudgetV1 { max_settlement_bytes: 1_048_577, max_attempts: 1 },
                        };
                        match make_request(i, self.sc.scope(i), budget) {
                            Ok(r) => r,
                            Err(e) => return Perf::PreReject(format!("{e:?}")),
                        }
                    }
                };
                let Some(coord) = self.coord.as_mut() else { return Perf::PreReject("no coordinator".into()) };
                Perf::Done(record_external_action_request(&mut self.store, coord, ctx, request).map(Receipt::Token))
            }
            Op::StashToken { id } => {
                let i = self.id(*id);
                let Some(coord) = self.coord.as_ref() else { return Perf::PreReject("no coordinator".into()) };
                Perf::Done(coord.recorded_request(self.reqs[i].request_id()).map(Receipt::StashedToken))
            }
            Op::Claim { id, adapter, auth_from, basis_ok, attempt, lease } => {
                let i = self.id(*id);
                let req = self.reqs[i];
                let src = auth_from.map(|s| self.id(s)).unwrap_or(i);
                let auth = match self.registry.authorize(&self.reqs[src], adapter_id(*adapter)) {
                    Ok(a) => a,
                    Err(e) => return Perf::PreReject(format!("{e:?}")),
                };
                let Some(coord) = self.coord.as_mut() else { return Perf::PreReject("no coordinator".into()) };
                let token = match self.tokens[i].pop() {
                    Some(t) => {
                        self.used_held = true;
                        t
                    }
                    None => match coord.recorded_request(req.request_id()) {
                        Ok(t) => {
                            self.seen_digests.push(t.request_commit_digest());
                            t
                        }
                        Err(e) => return Perf::Done(Err(e)),
                    },
                };
                let basis = if *basis_ok { req.basis_digest } else { d("c17:stale-basis") };
                Perf::Done(claim_external_action(&mut self.store, coord, ctx, token, auth, basis, *attempt, lease_digest(*lease)).map(Receipt::Grant))
            }
            Op::StashGrant { id } => {
                let i = self.id(*id);
                let Some(coord) = self.coord.as_ref() else { return Perf::PreReject("no coordinator".into()) };
                Perf::Done(coord.claim_grant(self.reqs[i].request_id()).map(Receipt::StashedGrant))
            }
            Op::Settle { id, kind, len, salt, bad } => {
                let i = self.id(*id);
                let rid = self.reqs[i].request_id();
                let grant = match self.grants[i].pop() {
                    Some(g) => {
                        self.used_held = true;
                        g
                    }
                    None => {
                        let Some(coord) = self.coord.as_ref() else { return Perf::PreReject("no coordinator".into()) };
                        match coord.claim_grant(rid) {
                            Ok(g) => {
                                self.seen_grants.push((i, fp_of(&g)));
                                g
                            }
                            Err(e) => return Perf::Done(Err(e)),
                        }
                    }
                };
                let claim = grant.claim();
                let cand = self.candidate(i, claim.attempt_id, claim.adapter_id, SettleArgs { kind: *kind, len: *len, salt: *salt }, *bad);
                let Some(coord) = self.coord.as_mut() else { return Perf::PreReject("no coordinator".into()) };
                Perf::Done(admit_external_action_settlement(&mut self.store, coord, ctx, grant, cand).map(Receipt::Admitted))
            }
            Op::Reconcile { id, retained, kind, len, salt, bad } => {
                let i = self.id(*id);
                let Some(coord) = self.coord.as_ref() else { return Perf::PreReject("no coordinator".into()) };
                // The retrying adapter kept what it was granted; an adapter that never saw its grant reads the index.
                let known = match self.first_grant[i] {
                    Some(fp) => Some((fp.claim.attempt_id, fp.claim.adapter_id)),
                    None => coord
                        .observed_index()
                        .get(self.reqs[i].request_id())
                        .and_then(|e| e.claim)
                        .map(|c| (c.attempt_id, c.adapter_id)),
                };
                let (attempt_id, adapter) = known.unwrap_or((ExternalActionAttemptIdV1::from_hash(d("c17:no-such-attempt")), adapter_id(0)));
                let params = match (self.model[i], *retained) {
                    (Life::Settled(_, sa), true) => sa,
                    _ => SettleArgs { kind: *kind, len: *len, salt: *salt },
                };
                let cand = self.candidate(i, attempt_id, adapter, params, *bad);
                Perf::Done(reconcile_external_action_settlement_retry(coord, cand).map(Receipt::Reconciled))
            }
            Op::Observe => Perf::PreReject("observe".into()),
        }
    }

    // ---------------------------------------------------------------- index / log oracles

    /// Compares one lifecycle index (live, observed from the log, or recovered) with the model.
    fn check_index(&mut self, index: &RecoveredExternalActionIndexV1, origin: &str, mismatch_class: &str) -> R<()> {
        let live = self.model.iter().filter(|l| **l != Life::Absent).count();
        req!(index.len() == live, mismatch_class, "{origin}: index holds {} requests, model {}", index.len(), live);
        for i in 0..self.n {
            let req = self.reqs[i];
            let entry = index.get(req.request_id());
            let Some(e) = entry else {
                req!(self.model[i] == Life::Absent, mismatch_class, "{origin}: id {i} missing from index, model {:?}", self.model[i]);
                req!(self.max_rank_seen[i] == 0, "lifecycle_not_prefix:regressed", "{origin}: id {i} vanished after rank {}", self.max_rank_seen[i]);
                continue;
            };
            // Shape: requested -> claimed -> settled prefix.
            let shape_ok = e.claim.is_some() == e.claim_commit_digest.is_some()
                && e.settlement.is_some() == e.settlement_commit_digest.is_some()
                && (e.settlement.is_none() || e.claim.is_some())
                && match e.posture {
                    RecoveredExternalActionPostureV1::Requested => e.claim.is_none() && e.settlement.is_none(),
                    RecoveredExternalActionPostureV1::Claimed => e.claim.is_some() && e.settlement.is_none(),
                    RecoveredExternalActionPostureV1::Settled(k) => e.settlement.as_ref().is_some_and(|s| s.kind == k),
                };
            req!(shape_ok, "lifecycle_not_prefix", "{origin}: id {i} entry is not a requested->claimed->settled prefix: {e:?}");
            let rank = match e.posture {
                RecoveredExternalActionPostureV1::Requested => 1,
                RecoveredExternalActionPostureV1::Claimed => 2,
                RecoveredExternalActionPostureV1::Settled(_) => 3,
            };
            req!(rank >= self.max_rank_seen[i], "lifecycle_not_prefix:regressed", "{origin}: id {i} went from rank {} back to {rank}", self.max_rank_seen[i]);
            self.max_rank_seen[i] = rank;
            req!(e.request == req, mismatch_class, "{origin}: id {i} holds a different request");
            req!(rank == self.model[i].rank(), mismatch_class, "{origin}: id {i} observed rank {rank}, model {:?}", self.model[i]);
            let claim_args = match self.model[i] {
                Life::Claimed(ca) | Life::Settled(ca, _) => Some(ca),
                _ => None,
            };
            if let (Some(ca), Some(c)) = (claim_args, e.claim) {
                let ok = c.request_id == req.request_id()
                    && c.adapter_id == adapter_id(ca.adapter)
                    && c.attempt_ordinal == ca.attempt
                    && c.lease_evidence_digest == lease_digest(ca.lease)
                    && c.basis_digest == req.basis_digest
                    && c.reconciliation_law_digest == req.reconciliation_law_digest;
                req!(ok, mismatch_class, "{origin}: id {i} claim {c:?} does not match durable claim args {ca:?}");
                if let Some(fp) = self.first_grant[i] {
                    req!(fp.claim == c && Some(fp.commit) == e.claim_commit_digest, "second_distinct_grant:index_differs_from_grant", "{origin}: id {i} index claim differs from the grant handed out");
                }
            }
            if let (Life::Settled(_, sa), Some(s), Some(c)) = (self.model[i], e.settlement.as_ref(), e.claim) {
                let ok = s.request_id == req.request_id()
                    && s.attempt_id == c.attempt_id
                    && s.adapter_id == c.adapter_id
                    && s.kind == kind_of(sa.kind)
                    && s.canonical_result_bytes == result_bytes(sa)
                    && s.settlement_schema_digest == req.settlement_schema_digest
                    && s.basis_digest == req.basis_digest;
                req!(ok, mismatch_class, "{origin}: id {i} settlement does not match durable settle args {sa:?}");
            }
        }
        Ok(())
    }

    /// Independent scan of the committed log: per request id at most one request, one claim and
    /// one settlement transaction, in that order, and exactly the steps the model holds.
    fn scan_wal(&self, origin: &str) -> R<()> {
        let mut steps: Vec<Vec<u8>> = vec![Vec::new(); self.n];
        let snap = match self.store.read_snapshot() {
            Ok(s) => s,
            Err(e) => return viol("wal_unreadable", format!("{origin}: {e:?}")),
        };
        for c in &snap.commits {
            let tx = c.transaction_id;
            for f in snap.frames.iter().filter(|f| f.header.transaction_id == tx && f.header.lsn >= c.first_lsn && f.header.lsn <= c.last_lsn) {
                let step = match f.header.record_kind {
                    WalRecordKind::ExternalActionRequestRecorded => 1u8,
                    WalRecordKind::ExternalActionClaimRecorded => 2,
                    WalRecordKind::ExternalActionSettlementRecorded => 3,
                    _ => continue,
                };
                let bytes = &f.payload.canonical_bytes;
                req!(bytes.len() >= 36, "wal_payload_malformed", "{origin}: lifecycle payload of {} bytes", bytes.len());
                let rid = &bytes[4..36];
                let Some(i) = (0..self.n).find(|i| self.reqs[*i].request_id().as_hash()[..] == *rid) else {
                    return viol("wal_unknown_request", format!("{origin}: committed lifecycle record for an id nobody requested"));
                };
                steps[i].push(step);
            }
        }
        for i in 0..self.n {
            let want: Vec<u8> = (1..=self.model[i].rank()).collect();
            let mut sorted = steps[i].clone();
            sorted.sort_unstable();
            sorted.dedup();
            req!(sorted.len() == steps[i].len(), "duplicate_step_in_wal", "{origin}: id {i} committed steps {:?}", steps[i]);
            req!(steps[i] == want, "wal_model_mismatch", "{origin}: id {i} committed steps {:?}, model {:?}", steps[i], self.model[i]);
        }
        Ok(())
    }

    /// Fault-free twin: a fresh store and coordinator that execute exactly the durable operations.
    fn twin(&self) -> Result<ExternalActionCoordinatorV1, String> {
        let mut store = SimWalStore::new();
        let mut coord = ExternalActionCoordinatorV1::recover(&store).map_err(|e| format!("twin genesis recover: {e:?}"))?;
        for dop in &self.durable_ops {
            store.force_epoch(dop.ctx.writer_epoch);
            let ctx = dop.ctx;
            let req = self.reqs[dop.id];
            match dop.kind {
                DKind::Request => {
                    record_external_action_request(&mut store, &mut coord, ctx, req).map_err(|e| format!("twin request op#{}: {e:?}", dop.op_idx))?;
                }
                DKind::Claim(ca) => {
                    let token = coord.recorded_request(req.request_id()).map_err(|e| format!("twin token op#{}: {e:?}", dop.op_idx))?;
                    let auth = self.registry.authorize(&req, adapter_id(ca.adapter)).map_err(|e| format!("twin authorize op#{}: {e:?}", dop.op_idx))?;
                    claim_external_action(&mut store, &mut coord, ctx, token, auth, req.basis_digest, ca.attempt, lease_digest(ca.lease))
                        .map_err(|e| format!("twin claim op#{}: {e:?}", dop.op_idx))?;
                }
                DKind::Settle(sa) => {
                    let grant = coord.claim_grant(req.request_id()).map_err(|e| format!("twin grant op#{}: {e:?}", dop.op_idx))?;
                    let claim = grant.claim();
                    let cand = self.candidate(dop.id, claim.attempt_id, claim.adapter_id, sa, SettleBad::None);
                    admit_external_action_settlement(&mut store, &mut coord, ctx, grant, cand).map_err(|e| format!("twin settle op#{}: {e:?}", dop.op_idx))?;
                }
            }
        }
        Ok(coord)
    }

    fn check_against_twin(&self, rec: &ExternalActionCoordinatorV1, origin: &str) -> R<()> {
        let twin = match catch_unwind(AssertUnwindSafe(|| self.twin())) {
            Ok(Ok(t)) => t,
            Ok(Err(e)) => return viol("twin_replay_failed", format!("{origin}: {e}")),
            Err(_) => return viol("twin_replay_failed", format!("{origin}: twin panicked")),
        };
        let (ti, ri) = (twin.observed_index(), rec.observed_index());
        req!(
            ti.root_digest() == ri.root_digest(),
            "root_incremental_vs_rebuilt",
            "{origin}: twin (incrementally maintained) root {} != recovered (rebuilt) root {}",
            hex::encode(ti.root_digest()),
            hex::encode(ri.root_digest())
        );
        if ti != ri {
            // Same root, different entries: only commit digests can differ.
            return viol("recovered_index_mismatch:commit_digests", format!("{origin}: twin index and recovered index agree on the root but not on entries"));
        }
        for i in 0..self.n {
            let rid = self.reqs[i].request_id();
            req!(twin.claim_grant(rid) == rec.claim_grant(rid), "recovered_grant_mismatch", "{origin}: id {i}: twin grant {:?} vs recovered {:?}", twin.claim_grant(rid), rec.claim_grant(rid));
            req!(twin.recorded_request(rid) == rec.recorded_request(rid), "recovered_grant_mismatch:request_token", "{origin}: id {i}: request tokens differ");
            req!(twin.admitted_settlement(rid) == rec.admitted_settlement(rid), "recovered_grant_mismatch:settlement", "{origin}: id {i}: admitted settlements differ");
        }
        Ok(())
    }

    // ---------------------------------------------------------------- recovery

    fn try_recover(&self) -> Result<Result<ExternalActionCoordinatorV1, PErr>, ()> {
        catch_unwind(AssertUnwindSafe(|| ExternalActionCoordinatorV1::recover(&self.store))).map_err(|_| ())
    }

    /// Ordinary writable WAL recovery through the port, then trusted coordinator recovery (twice).
    fn recover(&mut self, ctx: &mut RunCtx, origin: &str) -> R<()> {
        self.coord = None;
        self.poisoned = false;
        self.linger_left = 0;
        let dirty = !self.store.tail_is_clean();
        let mut skip_wal_recovery = false;
        let steer_around = self.sc.avoid_torn_direct && !self.store.tail_visible_in_snapshot();
        if dirty && self.recover_direct_first && !steer_around {
            match self.try_recover() {
                Err(()) => return viol("recovery_panicked", format!("{origin}: recover on unclean tail panicked")),
                Ok(Err(PErr::WalTailNotClean)) => ctx.hit("reach.recover_refused_unclean_tail"),
                // A torn final disk record is refused at the store boundary (typed store error naming the
                // uncommitted tail) before the frame-level tail check can run: equally a lawful refusal.
                Ok(Err(e)) if format!("{e:?}").contains("SegmentHasUncommittedTail") => ctx.hit("reach.recover_refused_torn_tail_at_store"),
                Ok(Err(e)) => return viol("recovery_failed:unclean_tail_other_error", format!("{origin}: {e:?}")),
                Ok(Ok(_)) => {
                    if self.store.tail_visible_in_snapshot() {
                        return viol("recovered_over_unclean_tail", format!("{origin}: coordinator recovered although an uncommitted frame is in the log"));
                    }
                    // The surface's snapshot cannot show this tail (torn record bytes): the workload, like the
                    // repository's own multi-process test, goes on with the coordinator it was given.
                    ctx.hit("reach.recovered_over_invisible_torn_tail");
                    self.torn_tail_ignored = true;
                    skip_wal_recovery = true;
                }
            }
        }
        self.recover_direct_first = false;
        if !skip_wal_recovery {
            let posture = match catch_unwind(AssertUnwindSafe(|| self.store.writable_wal_recovery())) {
                Err(_) => return viol("recovery_panicked", format!("{origin}: writable WAL recovery panicked")),
                Ok(Err(e)) => return viol("recovery_failed:wal_scan", format!("{origin}: {e}")),
                Ok(Ok(p)) => p,
            };
            match posture {
                RecoveryTailPosture::Clean => req!(!dirty, "recovery_failed:tail_not_reported", "{origin}: store holds an uncommitted tail but the scan says Clean"),
                RecoveryTailPosture::TruncatedAfter(_) | RecoveryTailPosture::TruncatedAll => {
                    req!(dirty, "recovery_failed:phantom_tail", "{origin}: scan truncated a clean log ({posture:?})");
                    ctx.hit("reach.recovery_truncated_tail");
                }
                other => return viol("recovery_failed:posture", format!("{origin}: writable scan returned {other:?}")),
            }
            req!(self.store.tail_is_clean(), "recovery_failed:tail_survived_truncation", "{origin}: tail still unclean after truncation");
        }
        let c1 = match self.try_recover() {
            Err(()) => return viol("recovery_panicked", format!("{origin}: coordinator recovery panicked")),
            Ok(Err(e)) => return viol("recovery_failed", format!("{origin}: {e:?}")),
            Ok(Ok(c)) => c,
        };
        let c2 = match self.try_recover() {
            Err(()) => return viol("recovery_panicked", format!("{origin}: second coordinator recovery panicked")),
            Ok(Err(e)) => return viol("recovery_not_idempotent", format!("{origin}: second recovery failed: {e:?}")),
            Ok(Ok(c)) => c,
        };
        req!(c1 == c2, "recovery_not_idempotent", "{origin}: two recoveries of the same store differ");
        let index = c1.observed_index().clone();
        self.check_index(&index, origin, "recovered_index_mismatch")?;
        self.scan_wal(origin)?;
        self.check_against_twin(&c1, origin)?;
        // Re-derived grants equal the ones handed out before.
        for i in 0..self.n {
            if let (Some(fp), Life::Claimed(_)) = (self.first_grant[i], self.model[i]) {
                match c1.claim_grant(self.reqs[i].request_id()) {
                    Ok(g) => req!(fp_of(&g) == fp, "second_distinct_grant:after_recovery", "{origin}: id {i} re-derived grant differs from the original"),
                    Err(e) => return viol("outstanding_grant_lost", format!("{origin}: id {i}: {e:?}")),
                }
            }
        }
        ctx.trace(&index.root_digest());
        ctx.hit("time.recoveries");
        self.coord = Some(c1);
        Ok(())
    }

    fn crash_and_recover(&mut self, ctx: &mut RunCtx, keep_tail: u32, recrash: u8, direct_first: bool, idx: usize, between_ops: bool) -> R<()> {
        // A ready coordinator's incrementally maintained index must be what recovery rebuilds.
        let live = if self.poisoned || !between_ops { None } else { self.coord.as_ref().map(|c| c.observed_index().clone()) };
        let live_ok = self.store.nothing_volatile();
        self.coord = None;
        for cycle in 0..=u32::from(recrash) {
            let kept = match self.store.crash(if cycle == 0 { keep_tail } else { 0 }, self.sc.new_epoch_on_crash) {
                Ok(k) => k,
                Err(e) => return viol("recovery_failed:store_reopen", format!("crash@op{idx}/cycle{cycle}: {e}")),
            };
            ctx.hit("fault.crash");
            self.faults_fired += 1;
            if kept > 0 {
                ctx.hit("fault.crash_partial_tail");
            }
            self.recover_direct_first = direct_first && cycle == 0;
            self.recover(ctx, &format!("crash@op{idx}/cycle{cycle}"))?;
        }
        if let (Some(live), true, Some(rec)) = (live, live_ok, self.coord.as_ref()) {
            req!(
                live.root_digest() == rec.observed_index().root_digest(),
                "root_incremental_vs_rebuilt",
                "crash@op{idx}: live root before the crash != rebuilt root"
            );
            req!(&live == rec.observed_index(), "recovered_index_mismatch:live_vs_rebuilt", "crash@op{idx}: live index before the crash != rebuilt index");
        }
        Ok(())
    }

    // ---------------------------------------------------------------- one step

    fn observe(&mut self, ctx: &mut RunCtx, origin: &str) -> R<()> {
        let snap = match self.store.read_snapshot() {
            Ok(s) => s,
            Err(e) => return viol("wal_unreadable", format!("{origin}: {e:?}")),
        };
        let observed = catch_unwind(AssertUnwindSafe(|| {
            let report = recover_from_frames_and_commits(&snap.frames, &snap.commits, RecoveryAccessMode::ReadOnly).map_err(|e| format!("{e:?}"))?;
            observe_external_actions(&report).map_err(|e| format!("{e:?}"))
        }));
        let index = match observed {
            Err(_) => return viol("observe_panicked", origin.to_owned()),
            Ok(Err(e)) => return viol("observe_failed", format!("{origin}: {e}")),
            Ok(Ok(i)) => i,
        };
        self.check_index(&index, origin, "lifecycle_model_mismatch:observed")?;
        if !self.poisoned {
            if let Some(c) = self.coord.as_ref() {
                req!(
                    c.observed_index().root_digest() == index.root_digest(),
                    "root_incremental_vs_rebuilt",
                    "{origin}: coordinator's incrementally maintained root != root rebuilt from the log"
                );
                req!(c.observed_index() == &index, "index_incremental_vs_rebuilt", "{origin}: coordinator index != index rebuilt from the log");
            }
        }
        ctx.trace(&index.root_digest());
        Ok(())
    }

    fn note_grant(&mut self, i: usize, fp: GrantFp, origin: &str) -> R<()> {
        req!(self.store.is_durable_commit(&fp.commit), "grant_before_durable", "{origin}: id {i} grant names a claim commit that is not below the durable line");
        match self.first_grant[i] {
            None => self.first_grant[i] = Some(fp),
            Some(first) => req!(first == fp, "second_distinct_grant", "{origin}: id {i} received a grant different from the first one"),
        }
        Ok(())
    }

    fn step(&mut self, idx: usize, ctx: &mut RunCtx) -> R<()> {
        let op = self.sc.ops[idx].clone();
        if self.poisoned {
            if self.linger_left == 0 {
                self.recover(ctx, &format!("recover-before-op{idx}"))?;
            } else {
                self.linger_left -= 1;
            }
        }
        let fault = self.fault_at(idx);
        ctx.hit("time.ops");
        if op == Op::Observe {
            self.observe(ctx, &format!("op{idx}"))?;
        } else {
            self.protocol_op(idx, &op, fault, ctx)?;
        }
        // Cheap per-op check: the ready coordinator's index is the model.
        if !self.poisoned {
            if let Some(index) = self.coord.as_ref().map(|c| c.observed_index().clone()) {
                self.check_index(&index, &format!("after-op{idx}"), "lifecycle_model_mismatch:live")?;
            }
        }
        if let Some(Fault { kind: FaultKind::Crash { point: CrashPoint::AfterOp, keep_tail, recrash }, direct_first, .. }) = fault {
            if self.coord.is_some() {
                self.crash_and_recover(ctx, keep_tail, recrash, direct_first, idx, true)?;
            }
        }
        Ok(())
    }

    fn protocol_op(&mut self, idx: usize, op: &Op, fault: Option<Fault>, ctx: &mut RunCtx) -> R<()> {
        let origin = format!("op{idx}");
        let expect = self.expectation(op);
        let poisoned_before = self.poisoned;
        let pre_calls = self.store.mutating_calls();
        let op_ctx = self.store.context(idx);
        let pre_log = self.store.log_fingerprint();
        let pre_journal = self.store.journal().len();
        let pre_coord = self.coord.clone();
        let armed = match fault.map(|f| f.kind) {
            Some(FaultKind::AppendError { frame, stored }) => Armed::AppendError { frame, stored },
            Some(FaultKind::FlushErrorBeforeDurable) => Armed::FlushErrBeforeDurable,
            Some(FaultKind::FlushErrorAfterDurable) => Armed::FlushErrAfterDurable,
            Some(FaultKind::Crash { point, .. }) => match point {
                CrashPoint::AfterOp => Armed::None,
                CrashPoint::BeforeFrame(k) => Armed::CrashBeforeFrame(k),
                CrashPoint::AfterFrame(k) => Armed::CrashAfterFrame(k),
                CrashPoint::FlushBeforeDurable => Armed::CrashFlushBeforeDurable,
                CrashPoint::FlushAfterDurable => Armed::CrashFlushAfterDurable,
            },
            None => Armed::None,
        };
        let (nudge, keep) = match fault {
            Some(Fault { kind: FaultKind::Crash { keep_tail, .. }, io_nudge, .. }) => (io_nudge, keep_tail),
            Some(f) => (f.io_nudge, 0),
            None => (0, 0),
        };
        self.store.arm(armed, nudge, keep);
        self.seen_grants.clear();
        self.seen_digests.clear();
        self.used_held = false;
        let result = catch_unwind(AssertUnwindSafe(|| self.perform(idx, op)));
        let fired = self.store.disarm();
        match fired {
            Some(Fired::AppendError) => ctx.hit("fault.append_error"),
            Some(Fired::FlushErrBeforeDurable) => ctx.hit("fault.flush_error_before_durable"),
            Some(Fired::FlushErrAfterDurable) => ctx.hit("fault.flush_error_after_durable"),
            Some(Fired::CrashMidTransaction) => ctx.hit("reach.crash_mid_transaction"),
            None => {}
        }
        if matches!(fired, Some(Fired::AppendError | Fired::FlushErrBeforeDurable | Fired::FlushErrAfterDurable)) {
            self.faults_fired += 1;
        }

        // Durability verdict: taken from the store model, never from the code under test.
        let new_durable: Vec<(Hash, Hash)> = self.store.journal()[pre_journal..].to_vec();
        req!(new_durable.len() <= 1, "duplicate_step_in_wal:two_commits_in_one_op", "{origin}: {} commits became durable in one operation", new_durable.len());
        let became_durable = new_durable.first().copied();
        if let Some((tx, _)) = became_durable {
            req!(tx == tx_hash(idx), "harness:foreign_transaction", "{origin}: durable commit carries another transaction id");
            let Some((i, kind)) = self.durable_kind(op) else {
                let class = if matches!(op, Op::Reconcile { .. }) { "retry_grew_wal" } else { "invalid_op_mutated_state:read_op_wrote" };
                return viol(class, format!("{origin}: {op:?} made a commit durable"));
            };
            if let Expect::Reject(class) = expect {
                return viol(class, format!("{origin}: {op:?} is invalid in model state {:?} but its transaction became durable", self.model[i]));
            }
            req!(!poisoned_before, "worked_after_failed_append", "{origin}: poisoned coordinator wrote a durable transaction");
            self.model[i] = match (kind, self.model[i]) {
                (DKind::Request, _) => Life::Requested,
                (DKind::Claim(ca), _) => Life::Claimed(ca),
                (DKind::Settle(sa), Life::Claimed(ca)) => Life::Settled(ca, sa),
                (DKind::Settle(_), other) => return viol("harness:model", format!("{origin}: settle accepted from {other:?}")),
            };
            if self.model[i].rank() >= 2 {
                self.reached_claimed = true;
            }
            self.durable_ops.push(DurableOp { op_idx: idx, ctx: op_ctx, id: i, kind });
            ctx.hit("time.wal_transactions");
        }

        let perf = match result {
            Ok(p) => p,
            Err(payload) => {
                if payload.is::<SimCrash>() {
                    let (keep_tail, recrash, direct_first) = match fault {
                        Some(Fault { kind: FaultKind::Crash { keep_tail, recrash, .. }, direct_first, .. }) => (keep_tail, recrash, direct_first),
                        _ => (0, 0, false),
                    };
                    ctx.trace_str(&format!("{idx}:crash-mid-tx"));
                    return self.crash_and_recover(ctx, keep_tail, recrash, direct_first, idx, false);
                }
                let msg = payload.downcast_ref::<String>().cloned().or_else(|| payload.downcast_ref::<&str>().map(|s| (*s).to_owned())).unwrap_or_default();
                return viol("protocol_op_panicked", format!("{origin}: {op:?}: {msg}"));
            }
        };
        for (i, fp) in std::mem::take(&mut self.seen_grants) {
            self.note_grant(i, fp, &origin)?;
        }
        for dg in std::mem::take(&mut self.seen_digests) {
            req!(self.store.is_durable_commit(&dg), "grant_before_durable:request_token", "{origin}: re-derived request token names a commit that is not durable");
        }
        let untouched = self.store.mutating_calls() == pre_calls && self.store.log_fingerprint() == pre_log;

        match perf {
            Perf::PreReject(why) => {
                ctx.trace_str(&format!("{idx}:pre:{why}"));
                req!(matches!(expect, Expect::Reject(_)), "lawful_op_rejected:before_coordinator", "{origin}: {op:?} refused with {why} although the model says it is lawful");
                req!(untouched && self.coord == pre_coord, "invalid_op_mutated_state", "{origin}: pre-rejected {op:?} changed store or coordinator");
                ctx.hit("reach.invalid_op_rejected");
            }
            Perf::Done(Ok(receipt)) => {
                req!(!poisoned_before, "worked_after_failed_append", "{origin}: {op:?} returned Ok on a coordinator whose previous append failed");
                if let Expect::Reject(class) = expect {
                    return viol(class, format!("{origin}: {op:?} accepted in model state {:?}", self.model[self.op_id(op)]));
                }
                self.accept_receipt(idx, op, receipt, became_durable, untouched, ctx)?;
                req!(
                    !matches!(fired, Some(Fired::AppendError | Fired::FlushErrBeforeDurable | Fired::FlushErrAfterDurable)),
                    "store_error_swallowed",
                    "{origin}: store reported a failure but {op:?} returned Ok"
                );
            }
            Perf::Done(Err(e)) => {
                ctx.trace_str(&format!("{idx}:err:{e:?}"));
                if e == PErr::CoordinatorRecoveryRequired {
                    req!(poisoned_before, "lawful_op_rejected:recovery_required_without_failure", "{origin}: coordinator demands recovery although no append failed");
                    req!(untouched, "worked_after_failed_append:store_touched", "{origin}: poisoned coordinator touched the store");
                    ctx.hit("reach.poisoned_coordinator_refused");
                } else if is_injected(&e) {
                    req!(fired.is_some(), "harness:spurious_store_error", "{origin}: {e:?} without a fired fault");
                    if fired == Some(Fired::FlushErrAfterDurable) {
                        req!(became_durable.is_some(), "harness:lost_ack_without_commit", "{origin}");
                        ctx.hit("reach.lost_ack_commit_durable");
                    } else {
                        req!(became_durable.is_none(), "harness:failed_flush_became_durable", "{origin}");
                    }
                    self.poisoned = true;
                    self.linger_left = u32::from(fault.map(|f| f.linger).unwrap_or(0));
                    self.recover_direct_first = fault.is_some_and(|f| f.direct_first);
                    // The coordinator must refuse further work until recovered.
                    if let Some(c) = self.coord.as_ref() {
                        let rid = self.reqs[self.op_id(op)].request_id();
                        req!(c.recorded_request(rid) == Err(PErr::CoordinatorRecoveryRequired), "worked_after_failed_append", "{origin}: recorded_request served after a failed append");
                        req!(c.claim_grant(rid) == Err(PErr::CoordinatorRecoveryRequired), "worked_after_failed_append", "{origin}: claim_grant served after a failed append");
                        req!(c.admitted_settlement(rid) == Err(PErr::CoordinatorRecoveryRequired), "worked_after_failed_append", "{origin}: admitted_settlement served after a failed append");
                    }
                } else {
                    // Typed protocol rejection.
                    req!(became_durable.is_none(), "invalid_op_mutated_state:rejected_but_durable", "{origin}: {op:?} returned {e:?} but its commit is durable");
                    req!(untouched, "invalid_op_mutated_state", "{origin}: {op:?} rejected with {e:?} but the store was touched");
                    req!(self.coord == pre_coord, "invalid_op_mutated_state:coordinator", "{origin}: {op:?} rejected with {e:?} but the coordinator changed");
                    if !poisoned_before {
                        req!(matches!(expect, Expect::Reject(_)), "lawful_op_rejected", "{origin}: {op:?} rejected with {e:?} in model state {:?}", self.model[self.op_id(op)]);
                    }
                    ctx.hit("reach.invalid_op_rejected");
                    if self.used_held && e == PErr::DuplicateClaim {
                        ctx.hit("reach.second_claim_refused");
                    }
                    if self.used_held && e == PErr::DuplicateSettlement {
                        ctx.hit("reach.second_settlement_refused");
                    }
                    if e == PErr::ConflictingSettlement {
                        ctx.hit("reach.conflicting_retry_refused");
                    }
                }
            }
        }
        Ok(())
    }

    fn op_id(&self, op: &Op) -> usize {
        match op {
            Op::Request { id, .. } | Op::StashToken { id } | Op::Claim { id, .. } | Op::StashGrant { id } | Op::Settle { id, .. } | Op::Reconcile { id, .. } => self.id(*id),
            Op::Observe => 0,
        }
    }

    fn accept_receipt(&mut self, idx: usize, op: &Op, receipt: Receipt, became_durable: Option<(Hash, Hash)>, untouched: bool, ctx: &mut RunCtx) -> R<()> {
        let origin = format!("op{idx}");
        let i = self.op_id(op);
        let req = self.reqs[i];
        let durable_digest = became_durable.map(|(_, dg)| dg);
        match receipt {
            Receipt::Token(t) => {
                ctx.trace_str(&format!("{idx}:token"));
                req!(durable_digest == Some(t.request_commit_digest()) && self.store.is_durable_commit(&t.request_commit_digest()), "grant_before_durable:request_token", "{origin}: request token returned but its commit is not below the durable line");
                req!(t.request() == req, "receipt_fields_mismatch:request", "{origin}: token carries another request");
                self.tokens[i].push(t);
            }
            Receipt::StashedToken(t) => {
                ctx.trace_str(&format!("{idx}:stash-token"));
                req!(untouched, "invalid_op_mutated_state:read_op_wrote", "{origin}: recorded_request touched the store");
                req!(self.store.is_durable_commit(&t.request_commit_digest()), "grant_before_durable:request_token", "{origin}: re-derived token names a non-durable commit");
                req!(t.request() == req, "receipt_fields_mismatch:request", "{origin}: token carries another request");
                self.tokens[i].push(t);
            }
            Receipt::Grant(g) => {
                ctx.trace_str(&format!("{idx}:grant"));
                req!(durable_digest == Some(g.claim_commit_digest()), "grant_before_durable", "{origin}: claim grant returned but no commit with its digest became durable in this operation");
                let fp = fp_of(&g);
                self.note_grant(i, fp, &origin)?;
                if let Op::Claim { adapter, attempt, lease, .. } = op {
                    let c = g.claim();
                    let ok = g.request() == req
                        && c.request_id == req.request_id()
                        && c.adapter_id == adapter_id(*adapter)
                        && c.attempt_ordinal == *attempt
                        && c.lease_evidence_digest == lease_digest(*lease)
                        && c.basis_digest == req.basis_digest;
                    req!(ok, "receipt_fields_mismatch:grant", "{origin}: grant {c:?} does not carry the claim arguments");
                }
                self.grants[i].push(g);
            }
            Receipt::StashedGrant(g) => {
                ctx.trace_str(&format!("{idx}:stash-grant"));
                req!(untouched, "invalid_op_mutated_state:read_op_wrote", "{origin}: claim_grant touched the store");
                self.note_grant(i, fp_of(&g), &origin)?;
                self.grants[i].push(g);
            }
            Receipt::Admitted(a) => {
                ctx.trace_str(&format!("{idx}:admitted"));
                req!(
                    durable_digest == Some(a.settlement_commit_digest()) && self.store.is_durable_commit(&a.settlement_commit_digest()),
                    "grant_before_durable:settlement",
                    "{origin}: settlement fact returned but its commit is not below the durable line"
                );
                if let (Op::Settle { kind, len, salt, .. }, Some(fp)) = (op, self.first_grant[i]) {
                    let s = a.settlement();
                    let sa = SettleArgs { kind: *kind, len: *len, salt: *salt };
                    let ok = s.request_id == req.request_id()
                        && s.attempt_id == fp.claim.attempt_id
                        && s.adapter_id == fp.claim.adapter_id
                        && s.kind == kind_of(sa.kind)
                        && s.canonical_result_bytes == result_bytes(sa);
                    req!(ok, "settlement_wrong_attempt_admitted:receipt", "{origin}: admitted settlement does not name the claimed attempt / submitted result");
                }
                self.first_settlement[i] = Some(a);
            }
            Receipt::Reconciled(a) => {
                ctx.trace_str(&format!("{idx}:reconciled"));
                req!(untouched && became_durable.is_none(), "retry_grew_wal", "{origin}: settlement retry touched the WAL");
                req!(self.store.is_durable_commit(&a.settlement_commit_digest()), "grant_before_durable:settlement", "{origin}: retry answered with a non-durable commit");
                if let Some(first) = &self.first_settlement[i] {
                    req!(first == &a, "retry_returned_other_settlement", "{origin}: retry answer differs from the settlement fact returned at admission");
                }
                if let Life::Settled(_, sa) = self.model[i] {
                    let s = a.settlement();
                    req!(s.kind == kind_of(sa.kind) && s.canonical_result_bytes == result_bytes(sa), "retry_returned_other_settlement", "{origin}: retry answer is not the retained result");
                }
                ctx.hit("reach.retry_after_settle");
            }
        }
        Ok(())
    }

    fn run(&mut self, ctx: &mut RunCtx) -> R<()> {
        // Genesis: trusted recovery of the empty store.
        self.recover(ctx, "genesis")?;
        for idx in 0..self.sc.ops.len() {
            self.step(idx, ctx)?;
        }
        if self.poisoned {
            self.recover(ctx, "recover-at-end")?;
        }
        // Clean stop and restart at the end of every history.
        self.observe(ctx, "final-observe")?;
        self.coord = None;
        if let Err(e) = self.store.restart(self.sc.new_epoch_on_crash) {
            return viol("recovery_failed:store_reopen", format!("final-restart: {e}"));
        }
        self.recover(ctx, "final-restart")?;
        let settled = self.model.iter().filter(|l| l.rank() == 3).count() as u64;
        ctx.count("reach.settled_lifecycles", settled);
        ctx.count("reach.claimed_lifecycles", self.model.iter().filter(|l| l.rank() >= 2).count() as u64);
        if self.reached_claimed && self.faults_fired > 0 {
            let sig = serde_json::to_vec(&(&self.sc.ops, &self.sc.faults)).unwrap_or_default();
            ctx.nontrivial(&sig);
        }
        Ok(())
    }
}
