//! One module per claimed property.
pub mod c18;
