//! One module per claimed property.
pub mod c01;
pub mod c18;
