//! One module per claimed property.
pub mod c01;
pub mod c02;
pub mod c03;
pub mod c04;
pub mod c05;
pub mod c06;
pub mod c07;
pub mod c08;
pub mod c09;
pub mod c10;
pub mod c11;
pub mod c14;
pub mod c15;
pub mod c16;
pub mod c17;
pub mod c18;
pub mod c20;
