//! C03 scenario generators (the only place randomness is drawn).

use super::model::{Enq, FpEntry, Key, Round, TxSpec, N_RES};
use crate::kernel::Rng;

const DIGITS: [u16; 11] = [0, 1, 2, 0x00ff, 0x0100, 0x0101, 0x7fff, 0x8000, 0xff00, 0xfffe, 0xffff];

/// Compact rule ids: pairs that differ only in the low or only in the high 16 bits, extremes.
const RULE_POOL: [u32; 15] = [
    0,
    1,
    2,
    0x0000_ffff,
    0x0001_0000,
    0x0001_0001,
    0x0001_0002,
    0x0002_0001,
    0x00ff_0000,
    0x0100_0000,
    0x7fff_ffff,
    0x8000_0000,
    0xffff_0000,
    0xffff_fffe,
    0xffff_ffff,
];

pub fn gen_rules(rng: &mut Rng) -> Vec<u32> {
    let n = rng.urange(1, 6);
    let mut out: Vec<u32> = Vec::new();
    let mut guard = 0;
    while out.len() < n && guard < 100 {
        guard += 1;
        let c = if rng.chance(1, 5) { rng.next_u64() as u32 } else { *rng.pick(&RULE_POOL) };
        if !out.contains(&c) {
            out.push(c);
        }
    }
    out
}

#[derive(Clone, Debug)]
pub struct FpKnobs {
    /// chance (of 16) that a given resource is touched
    pub touch16: u64,
    /// chance (of 8) that a touched resource is written / out
    pub write8: u64,
    /// enabled instances (bit 0, bit 1)
    pub insts: u8,
    /// enabled classes: bit0 nodes, bit1 edges, bit2 attachments, bit3 ports
    pub classes: u8,
    /// chance (of 100) that a footprint is empty
    pub empty100: u64,
    /// apart from that chance, never leave a footprint empty
    pub nonempty: bool,
}

pub fn gen_fp_knobs(rng: &mut Rng, big: bool) -> FpKnobs {
    FpKnobs {
        touch16: *rng.pick(&[1u64, 1, 2, 2, 4, 8]),
        write8: *rng.pick(&[1u64, 2, 4, 4, 6, 8]),
        insts: *rng.pick(&[1u8, 2, 3, 3, 3]),
        classes: if rng.chance(1, 2) { 0xf } else { (rng.below(15) + 1) as u8 },
        empty100: if big { *rng.pick(&[0u64, 2, 10]) } else { *rng.pick(&[0u64, 5, 20, 50]) },
        nonempty: false,
    }
}

fn class_bit(r: u8) -> u8 {
    match r % 8 {
        0 | 1 => 1,
        2 | 3 => 2,
        4 | 5 => 4,
        _ => 8,
    }
}

pub fn gen_fp(rng: &mut Rng, kn: &FpKnobs) -> Vec<FpEntry> {
    let mut fp = Vec::new();
    if rng.below(100) < kn.empty100 {
        return fp;
    }
    for r in 0..N_RES {
        if kn.insts & (1 << (r / 8)) == 0 || kn.classes & class_bit(r) == 0 {
            continue;
        }
        if rng.below(16) < kn.touch16 {
            let acc = if rng.below(8) < kn.write8 { 2 } else { 1 };
            fp.push((r, acc));
            // rarely the same key sits in both the read and the write set
            if rng.chance(1, 40) {
                fp.push((r, 3 - acc));
            }
        }
    }
    if fp.is_empty() && kn.nonempty {
        let r = rng.below(u64::from(N_RES)) as u8;
        fp.push((r, if rng.below(8) < kn.write8 { 2 } else { 1 }));
    }
    fp
}

#[derive(Clone, Debug)]
pub struct KeyKnobs {
    pub seeds: Vec<u32>,
    /// weights: fresh random hash, pool hash unmodified, pool hash + one digit, pool hash + last digit, pool hash + fixed digit position
    pub modes: [u32; 5],
    pub fixed_pos: u8,
    pub n_rules: u8,
    /// chance (of 32) of re-enqueueing an earlier key of the transaction
    pub dup32: u64,
}

pub fn gen_key_knobs(rng: &mut Rng, n_rules: usize) -> KeyKnobs {
    let n_seeds = *rng.pick(&[1usize, 1, 2, 3, 6]);
    let seeds = (0..n_seeds).map(|_| if rng.chance(1, 3) { rng.below(4) as u32 } else { 4 + rng.below(1 << 30) as u32 }).collect();
    let modes = match rng.below(6) {
        0 => [1, 0, 0, 0, 0],
        1 => [0, 1, 4, 2, 0],
        2 => [0, 0, 0, 0, 1],
        3 => [0, 0, 0, 1, 0],
        4 => [0, 1, 6, 0, 0],
        _ => [2, 1, 2, 2, 2],
    };
    KeyKnobs {
        seeds,
        modes,
        fixed_pos: rng.below(16) as u8,
        n_rules: n_rules.max(1) as u8,
        dup32: *rng.pick(&[0u64, 1, 4, 8]),
    }
}

pub fn gen_key(rng: &mut Rng, kn: &KeyKnobs) -> Key {
    let seed = *rng.pick(&kn.seeds);
    let digit = |rng: &mut Rng| if rng.chance(1, 2) { *rng.pick(&DIGITS) } else { rng.below(1 << 16) as u16 };
    let r = rng.below(u64::from(kn.n_rules)) as u8;
    match rng.weighted(&kn.modes) {
        0 => Key { s: 4 + rng.below(u64::from(u32::MAX) - 4) as u32, p: 16, v: 0, r },
        1 => Key { s: seed, p: 16, v: 0, r },
        2 => Key { s: seed, p: rng.below(16) as u8, v: digit(rng), r },
        3 => Key { s: seed, p: 15, v: digit(rng), r },
        _ => Key { s: seed, p: kn.fixed_pos, v: rng.below(1 << 16) as u16, r },
    }
}

pub fn gen_enqs(rng: &mut Rng, n: usize, kk: &KeyKnobs, fk: &FpKnobs) -> Vec<Enq> {
    let mut out: Vec<Enq> = Vec::with_capacity(n);
    for _ in 0..n {
        let k = if !out.is_empty() && rng.below(32) < kk.dup32 { out[rng.usize_below(out.len())].k } else { gen_key(rng, kk) };
        out.push(Enq { k, fp: gen_fp(rng, fk) });
    }
    out
}

/// Large batch: `n` DISTINCT (scope hash, rule) keys (so the drained batch has exactly the drawn
/// size relative to the 1024 threshold) plus re-enqueues of earlier keys on top.
pub fn gen_enqs_distinct(rng: &mut Rng, n: usize, kk: &KeyKnobs, fk: &FpKnobs) -> Vec<Enq> {
    let mut seen: std::collections::BTreeSet<([u8; 32], u8)> = std::collections::BTreeSet::new();
    let mut out: Vec<Enq> = Vec::with_capacity(n + n / 8);
    let mut guard = 0usize;
    while seen.len() < n && guard < 6 * n + 64 {
        guard += 1;
        let k = if !out.is_empty() && rng.below(32) < kk.dup32 { out[rng.usize_below(out.len())].k } else { gen_key(rng, kk) };
        seen.insert((super::model::scope_hash_of(&k), k.r % kk.n_rules));
        out.push(Enq { k, fp: gen_fp(rng, fk) });
    }
    out
}

/// Key knobs for large batches: families with enough distinct members.
pub fn gen_big_key_knobs(rng: &mut Rng, n_rules: usize) -> KeyKnobs {
    let mut kk = gen_key_knobs(rng, n_rules);
    kk.modes = match rng.below(5) {
        0 => [1, 0, 0, 0, 0],
        1 => [0, 0, 0, 0, 1],
        2 => [0, 0, 1, 0, 1],
        3 => [0, 0, 0, 1, 0],
        _ => [4, 1, 2, 2, 4],
    };
    kk.dup32 = *rng.pick(&[0u64, 1, 1, 3]);
    kk
}

pub fn gen_big_size(rng: &mut Rng) -> usize {
    match rng.weighted(&[6, 2, 3, 1]) {
        0 => rng.urange(1020, 1030),
        1 => rng.urange(900, 1024),
        2 => rng.urange(1025, 2500),
        _ => rng.urange(2500, 5000),
    }
}

pub fn gen_small_size(rng: &mut Rng) -> usize {
    match rng.weighted(&[1, 6, 4, 2]) {
        0 => 0,
        1 => rng.urange(1, 6),
        2 => rng.urange(4, 16),
        _ => rng.urange(10, 60),
    }
}

pub fn gen_tx_id(rng: &mut Rng, taken: &[u64]) -> u64 {
    loop {
        let id = match rng.below(8) {
            0 => 0,
            1 => u64::MAX,
            2 => rng.next_u64(),
            _ => rng.range(1, 6),
        };
        if !taken.contains(&id) {
            return id;
        }
    }
}

pub fn gen_tape(rng: &mut Rng, n_tx: usize, total_ops: usize) -> Vec<(u8, u16)> {
    if n_tx <= 1 {
        return Vec::new();
    }
    match rng.below(4) {
        0 => Vec::new(),
        1 => {
            // fine-grained
            let len = total_ops.min(600);
            (0..len).map(|_| (rng.below(n_tx as u64) as u8, rng.range(1, 3) as u16)).collect()
        }
        2 => {
            // coarse bursts
            let len = rng.urange(2, 12);
            let max = (total_ops / 2).clamp(1, 4000);
            (0..len).map(|_| (rng.below(n_tx as u64) as u8, rng.urange(1, max) as u16)).collect()
        }
        _ => {
            let len = (total_ops / 4).clamp(1, 400);
            (0..len).map(|_| (rng.below(n_tx as u64) as u8, rng.range(1, 16) as u16)).collect()
        }
    }
}

fn ops_estimate(tx: &TxSpec) -> usize {
    2 * (tx.enq.len() + tx.late.len()) + 4
}

/// A round of 1..=3 transactions with seeded interleaving; `big` puts one large batch in it.
pub fn gen_round(rng: &mut Rng, rules: &[u32], big: bool, reuse_ids: &[u64]) -> Round {
    let n_tx = rng.weighted(&[3, 4, 3]) + 1;
    let big_slot = if big { Some(rng.usize_below(n_tx)) } else { None };
    let mut txs: Vec<TxSpec> = Vec::new();
    let shared_kk = gen_key_knobs(rng, rules.len());
    for slot in 0..n_tx {
        let is_big = big_slot == Some(slot);
        // transactions of one round often draw from the same key family (same keys in two txs)
        let kk = if is_big {
            gen_big_key_knobs(rng, rules.len())
        } else if rng.chance(1, 2) {
            shared_kk.clone()
        } else {
            gen_key_knobs(rng, rules.len())
        };
        let n = if is_big { gen_big_size(rng) } else { gen_small_size(rng) };
        let mut fk = gen_fp_knobs(rng, is_big);
        if is_big {
            // The Legacy scheduler scans the whole accepted frontier per reserve: keep the frontier of
            // very large batches small (write-heavy, non-empty footprints) so a run stays in budget.
            fk.nonempty = true;
            if n > 1100 {
                fk.write8 = fk.write8.max(4);
                fk.empty100 = fk.empty100.min(2);
            }
        }
        let enq = if is_big { gen_enqs_distinct(rng, n, &kk, &fk) } else { gen_enqs(rng, n, &kk, &fk) };
        let late = if !is_big && rng.chance(1, 6) {
            let n_late = rng.urange(1, 8);
            gen_enqs(rng, n_late, &kk, &fk)
        } else {
            Vec::new()
        };
        let taken: Vec<u64> = txs.iter().map(|t| t.id).collect();
        let id = if !reuse_ids.is_empty() && rng.chance(1, 2) {
            let c = *rng.pick(reuse_ids);
            if taken.contains(&c) {
                gen_tx_id(rng, &taken)
            } else {
                c
            }
        } else {
            gen_tx_id(rng, &taken)
        };
        let mut tx = TxSpec { id, enq, late, redrain: rng.chance(1, 5), abort_at: None };
        if !is_big && rng.chance(1, 12) {
            tx.abort_at = Some(rng.below(ops_estimate(&tx) as u64) as u32);
        }
        txs.push(tx);
    }
    let total: usize = txs.iter().map(ops_estimate).sum();
    let tape = gen_tape(rng, n_tx, total);
    Round { txs, tape }
}

/// Stratified block: for one resource, all 9 (access x access) pairs between two candidates (one
/// mini transaction per pair), plus the rejected-reserves-nothing triple.
pub fn gen_stratified(rng: &mut Rng, rules: &[u32]) -> Round {
    let r = rng.below(u64::from(N_RES)) as u8;
    let other_inst = (r + 8) % N_RES;
    let kk = gen_key_knobs(rng, rules.len());
    let mut txs: Vec<TxSpec> = Vec::new();
    let base_id = rng.range(10, 1 << 40);
    // Ascending keys for (A, B, C): same hash family, one digit position, ascending digit values.
    let asc_keys = |rng: &mut Rng| -> [Key; 3] {
        let s = *rng.pick(&kk.seeds);
        let p = rng.below(16) as u8;
        let rule = rng.below(u64::from(kk.n_rules)) as u8;
        let mut v: Vec<u16> = Vec::new();
        while v.len() < 3 {
            let d = if rng.chance(1, 2) { *rng.pick(&DIGITS) } else { rng.below(1 << 16) as u16 };
            if !v.contains(&d) {
                v.push(d);
            }
        }
        v.sort_unstable();
        [Key { s, p, v: v[0], r: rule }, Key { s, p, v: v[1], r: rule }, Key { s, p, v: v[2], r: rule }]
    };
    let entry = |rng: &mut Rng, acc: u8| -> Vec<FpEntry> {
        match acc {
            0 => {
                // "none": touches nothing, or the same local key in the OTHER instance (must not conflict)
                if rng.chance(1, 2) {
                    vec![(other_inst, 2)]
                } else {
                    Vec::new()
                }
            }
            a => vec![(r, a)],
        }
    };
    for a in 0..3u8 {
        for b in 0..3u8 {
            let keys = asc_keys(rng);
            let mut enq = vec![Enq { k: keys[0], fp: entry(rng, a) }, Enq { k: keys[1], fp: entry(rng, b) }];
            if rng.chance(1, 2) {
                enq.swap(0, 1);
            }
            txs.push(TxSpec { id: base_id + u64::from(a * 3 + b), enq, late: Vec::new(), redrain: false, abort_at: None });
        }
    }
    // Triple: A takes x; B conflicts with A on x and also touches r; C touches only r.
    let mut x = rng.below(u64::from(N_RES)) as u8;
    if x == r {
        x = (x + 1) % N_RES;
    }
    let keys = asc_keys(rng);
    let c_acc = rng.range(1, 2) as u8;
    let mut enq = vec![
        Enq { k: keys[0], fp: vec![(x, 2)] },
        Enq { k: keys[1], fp: vec![(x, 2), (r, 2)] },
        Enq { k: keys[2], fp: vec![(r, c_acc)] },
    ];
    rng.shuffle(&mut enq);
    txs.push(TxSpec { id: base_id + 9, enq, late: Vec::new(), redrain: false, abort_at: None });
    let tape = gen_tape(rng, txs.len(), 80);
    Round { txs, tape }
}
