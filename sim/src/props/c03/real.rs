//! Adapter from the plain-data history to the real `RawScheduler` (hook H2).

use warp_core::verif::RawScheduler;
use warp_core::{pack_port_key, AttachmentKey, EdgeId, EdgeKey, Footprint, NodeId, NodeKey, SchedulerKind, WarpId};

use super::model::{DKey, FpEntry, REnq, Sched, N_RES};

/// Two instance ids that share a 31-byte prefix.
pub fn warp(inst: u8) -> WarpId {
    let mut b = [0xC3u8; 32];
    b[31] = inst;
    WarpId(b)
}

/// Local ids: node k and edge k have identical raw bytes on purpose (different resource classes
/// must never be confused), and the two keys of a class differ in the last byte only.
fn local(k: u8) -> [u8; 32] {
    let mut b = [0x11u8; 32];
    b[0] = 0x01;
    b[31] = k;
    b
}

pub fn node_key(inst: u8, k: u8) -> NodeKey {
    NodeKey { warp_id: warp(inst), local_id: NodeId(local(k)) }
}

pub fn edge_key(inst: u8, k: u8) -> EdgeKey {
    EdgeKey { warp_id: warp(inst), local_id: EdgeId(local(k)) }
}

pub fn build_footprint(fp: &[FpEntry]) -> Footprint {
    let mut f = Footprint { factor_mask: u64::MAX, ..Footprint::default() };
    for &(res, acc) in fp {
        if res >= N_RES || acc == 0 {
            continue;
        }
        let inst = res / 8;
        let write = acc != 1;
        match res % 8 {
            k @ (0 | 1) => {
                if write {
                    f.n_write.insert(node_key(inst, k));
                } else {
                    f.n_read.insert(node_key(inst, k));
                }
            }
            k @ (2 | 3) => {
                if write {
                    f.e_write.insert(edge_key(inst, k - 2));
                } else {
                    f.e_read.insert(edge_key(inst, k - 2));
                }
            }
            4 => {
                let key = AttachmentKey::node_alpha(node_key(inst, 0));
                if write {
                    f.a_write.insert(key);
                } else {
                    f.a_read.insert(key);
                }
            }
            5 => {
                let key = AttachmentKey::edge_beta(edge_key(inst, 0));
                if write {
                    f.a_write.insert(key);
                } else {
                    f.a_read.insert(key);
                }
            }
            k => {
                // ports p0 / p1: same packed key in both instances (instance-qualified by the set)
                let pk = pack_port_key(&NodeId(local(0)), u32::from(k - 6) + 1, k == 6);
                if write {
                    f.b_out.insert(warp(inst), pk);
                } else {
                    f.b_in.insert(warp(inst), pk);
                }
            }
        }
    }
    f
}

pub struct Real(pub RawScheduler);

impl Real {
    pub fn new(kind: SchedulerKind) -> Self {
        Real(RawScheduler::new(kind))
    }
}

impl Sched for Real {
    fn enqueue(&mut self, tx: u64, e: &REnq<'_>) {
        // The scope key is payload only; derive it from the ordering key.
        let scope = NodeKey { warp_id: warp(e.scope_hash[31] & 1), local_id: NodeId(e.scope_hash) };
        self.0.enqueue(tx, e.scope_hash, e.rule_id, e.compact, scope, build_footprint(e.fp), e.tag);
    }
    fn drain(&mut self, tx: u64) -> Vec<DKey> {
        self.0
            .drain(tx)
            .into_iter()
            .map(|k| DKey { scope_hash: k.scope_hash, rule_id: k.rule_id, compact: k.compact_rule, tag: k.tag })
            .collect()
    }
    fn reserve(&mut self, tx: u64, idx: usize) -> Option<bool> {
        self.0.reserve(tx, idx)
    }
    fn finalize(&mut self, tx: u64) {
        self.0.finalize(tx);
    }
}
