//! C03 reference scheduler and plain-data footprints (written from docs/spec/scheduler-warp-core.md
//! and the property statement; shares no code with the scheduler under test).

use std::collections::BTreeMap;

use serde::{Deserialize, Serialize};

/// Resource universe: 2 instances x 8 resources. Resource index `r = inst * 8 + k`, with
/// k: 0,1 = nodes n0,n1; 2,3 = edges e0,e1; 4 = node-alpha attachment of n0; 5 = edge-beta
/// attachment of e0; 6,7 = boundary ports p0,p1.
pub const N_RES: u8 = 16;

/// One footprint entry: (resource index, access). access 1 = read (ports: in), 2 = write (ports: out).
pub type FpEntry = (u8, u8);

pub fn is_port(r: u8) -> bool {
    r % 8 >= 6
}

/// Footprint as plain data: per resource class membership bit sets, instance-qualified by index.
#[derive(Clone, Copy, Debug, Default, PartialEq, Eq)]
pub struct Masks {
    /// non-port resources read
    pub r: u16,
    /// non-port resources written
    pub w: u16,
    /// ports touched (in or out)
    pub p: u16,
}

impl Masks {
    pub fn of(fp: &[FpEntry]) -> Masks {
        let mut m = Masks::default();
        for &(res, acc) in fp {
            if res >= N_RES || acc == 0 {
                continue;
            }
            let bit = 1u16 << res;
            if is_port(res) {
                m.p |= bit;
            } else if acc == 1 {
                m.r |= bit;
            } else {
                m.w |= bit;
            }
        }
        m
    }

    /// Conflict: write/write or write/read on the same node, edge or attachment key, or any shared
    /// port key. Same resource index = same instance and same key, so instances never mix.
    pub fn conflicts(&self, o: &Masks) -> bool {
        (self.w & (o.w | o.r)) != 0 || (o.w & self.r) != 0 || (self.p & o.p) != 0
    }
}

/// Key of a drained candidate as every scheduler reports it.
#[derive(Clone, Copy, Debug, PartialEq, Eq)]
pub struct DKey {
    pub scope_hash: [u8; 32],
    pub rule_id: [u8; 32],
    pub compact: u32,
    pub tag: u64,
}

/// A resolved enqueue (keys already materialised).
#[derive(Clone, Debug)]
pub struct REnq<'a> {
    pub scope_hash: [u8; 32],
    pub rule_id: [u8; 32],
    pub compact: u32,
    pub fp: &'a [FpEntry],
    pub tag: u64,
}

/// Interface shared by the reference and the two real schedulers so one driver runs all three.
pub trait Sched {
    fn enqueue(&mut self, tx: u64, e: &REnq<'_>);
    fn drain(&mut self, tx: u64) -> Vec<DKey>;
    fn reserve(&mut self, tx: u64, idx: usize) -> Option<bool>;
    fn finalize(&mut self, tx: u64);
    /// Reference only: blockers (indices into the current drained batch) of the last reserve.
    fn last_blockers(&self) -> Option<Vec<u32>> {
        None
    }
    /// Reference only: footprint of the idx-th candidate of the current drained batch.
    fn drained_masks(&self, _tx: u64) -> Option<Vec<Masks>> {
        None
    }
    /// Reference only: number of last-wins replacements so far.
    fn replaced(&self) -> u64 {
        0
    }
}

#[derive(Default)]
struct RefTx {
    /// pending candidates: ascending (scope hash, rule id) is the canonical order; insert = last wins
    pending: BTreeMap<([u8; 32], [u8; 32]), (u64, u32, Masks)>,
    drained: Vec<Masks>,
    batch: u32,
    /// accepted candidates of this transaction: (batch number, index in that batch, footprint)
    accepted: Vec<(u32, u32, Masks)>,
}

/// Reference scheduler: one independent record per transaction id.
#[derive(Default)]
pub struct RefScheduler {
    txs: BTreeMap<u64, RefTx>,
    last_blockers: Vec<u32>,
    replaced: u64,
}

impl Sched for RefScheduler {
    fn enqueue(&mut self, tx: u64, e: &REnq<'_>) {
        let t = self.txs.entry(tx).or_default();
        if t.pending.insert((e.scope_hash, e.rule_id), (e.tag, e.compact, Masks::of(e.fp))).is_some() {
            self.replaced += 1;
        }
    }

    fn drain(&mut self, tx: u64) -> Vec<DKey> {
        let Some(t) = self.txs.get_mut(&tx) else {
            return Vec::new();
        };
        let pending = std::mem::take(&mut t.pending);
        t.batch += 1;
        t.drained.clear();
        let mut out = Vec::with_capacity(pending.len());
        for ((scope_hash, rule_id), (tag, compact, m)) in pending {
            out.push(DKey { scope_hash, rule_id, compact, tag });
            t.drained.push(m);
        }
        out
    }

    fn reserve(&mut self, tx: u64, idx: usize) -> Option<bool> {
        let t = self.txs.get_mut(&tx)?;
        let m = *t.drained.get(idx)?;
        let mut blockers = Vec::new();
        let mut blocked = false;
        for (batch, i, a) in &t.accepted {
            if a.conflicts(&m) {
                blocked = true;
                if *batch == t.batch {
                    blockers.push(*i);
                }
            }
        }
        if !blocked {
            t.accepted.push((t.batch, idx as u32, m));
        }
        self.last_blockers = blockers;
        Some(!blocked)
    }

    fn finalize(&mut self, tx: u64) {
        self.txs.remove(&tx);
    }

    fn last_blockers(&self) -> Option<Vec<u32>> {
        Some(self.last_blockers.clone())
    }

    fn drained_masks(&self, tx: u64) -> Option<Vec<Masks>> {
        self.txs.get(&tx).map(|t| t.drained.clone())
    }

    fn replaced(&self) -> u64 {
        self.replaced
    }
}

// ---------------------------------------------------------------------------
// Scenario data
// ---------------------------------------------------------------------------

/// Ordering key of a candidate. scope hash = base(s) with 16-bit digit `p` (0..16, big-endian pair
/// at bytes 2p..2p+2) overwritten by `v`; p >= 16 leaves the base untouched. `r` indexes the
/// scenario's rule table.
#[derive(Clone, Copy, Debug, Serialize, Deserialize, PartialEq, Eq)]
pub struct Key {
    pub s: u32,
    pub p: u8,
    pub v: u16,
    pub r: u8,
}

pub fn base_hash(s: u32) -> [u8; 32] {
    match s {
        0 => [0x00; 32],
        1 => [0xff; 32],
        2 => [0x55; 32],
        3 => {
            let mut b = [0u8; 32];
            for (i, x) in b.iter_mut().enumerate() {
                *x = i as u8;
            }
            b
        }
        _ => *blake3::hash(&s.to_le_bytes()).as_bytes(),
    }
}

pub fn scope_hash_of(k: &Key) -> [u8; 32] {
    let mut h = base_hash(k.s);
    if k.p < 16 {
        let off = 2 * usize::from(k.p);
        let d = k.v.to_be_bytes();
        h[off] = d[0];
        h[off + 1] = d[1];
    }
    h
}

/// rule id = big-endian compact id padded with zeros: ascending compact id == ascending rule id
/// bytes, the isomorphism the engine guarantees between the two schedulers' keys.
pub fn rule_id_of(compact: u32) -> [u8; 32] {
    let mut h = [0u8; 32];
    h[..4].copy_from_slice(&compact.to_be_bytes());
    h
}

#[derive(Clone, Debug, Serialize, Deserialize, PartialEq, Eq)]
pub struct Enq {
    pub k: Key,
    pub fp: Vec<FpEntry>,
}

#[derive(Clone, Debug, Serialize, Deserialize, PartialEq, Eq)]
pub struct TxSpec {
    pub id: u64,
    pub enq: Vec<Enq>,
    /// enqueued after the first drain's reserves, then drained and reserved as a second batch
    pub late: Vec<Enq>,
    /// drain once more before finalize (must be empty)
    pub redrain: bool,
    /// finalize prematurely after this many ops of the transaction (abort)
    pub abort_at: Option<u32>,
}

#[derive(Clone, Debug, Serialize, Deserialize, PartialEq, Eq)]
pub struct Round {
    pub txs: Vec<TxSpec>,
    /// interleaving tape: (transaction slot, burst of ops)
    pub tape: Vec<(u8, u16)>,
}

/// What one scheduler did for one transaction.
#[derive(Clone, Debug, Default, PartialEq, Eq)]
pub struct TxObs {
    /// one entry per drain call (first batch, second batch, re-drain)
    pub drains: Vec<Vec<DKey>>,
    /// reserve results per drain batch
    pub accepts: Vec<Vec<Option<bool>>>,
    /// reference only
    pub blockers: Vec<Vec<Vec<u32>>>,
    pub masks: Vec<Vec<Masks>>,
    pub finalized_early: bool,
    pub enqueues: u64,
}

#[derive(Clone, Copy, Debug, PartialEq, Eq)]
enum Stage {
    Enq1(usize),
    Drain1,
    Res1(usize),
    Enq2(usize),
    Drain2,
    Res2(usize),
    Redrain,
    Fin,
    Done,
}

struct Cursor {
    stage: Stage,
    steps: u32,
    batch_len: usize,
    started: bool,
}

pub struct DriveStats {
    /// switches between two transactions that were both in flight
    pub interleave_switches: u64,
    pub replaced: u64,
}

fn resolve<'a>(e: &'a Enq, rules: &[u32], tag: u64) -> REnq<'a> {
    let compact = if rules.is_empty() { 0 } else { rules[usize::from(e.k.r) % rules.len()] };
    REnq { scope_hash: scope_hash_of(&e.k), rule_id: rule_id_of(compact), compact, fp: &e.fp, tag }
}

/// Tag of an enqueue call: unique per (round, tx slot, batch, position).
pub fn tag_of(round: usize, slot: usize, late: bool, i: usize) -> u64 {
    ((round as u64 + 1) << 48) | ((slot as u64 + 1) << 40) | (u64::from(late) << 32) | (i as u64 + 1)
}

fn step<S: Sched>(s: &mut S, ri: usize, slot: usize, tx: &TxSpec, c: &mut Cursor, o: &mut TxObs, rules: &[u32]) {
    if c.stage == Stage::Done {
        return;
    }
    c.started = true;
    if tx.abort_at == Some(c.steps) && c.stage != Stage::Fin {
        s.finalize(tx.id);
        o.finalized_early = true;
        c.stage = Stage::Done;
        return;
    }
    c.steps += 1;
    // Skip over empty phases.
    loop {
        match c.stage {
            Stage::Enq1(i) if i >= tx.enq.len() => c.stage = Stage::Drain1,
            Stage::Res1(i) if i >= c.batch_len => c.stage = if tx.late.is_empty() { Stage::Redrain } else { Stage::Enq2(0) },
            Stage::Enq2(i) if i >= tx.late.len() => c.stage = Stage::Drain2,
            Stage::Res2(i) if i >= c.batch_len => c.stage = Stage::Redrain,
            Stage::Redrain if !tx.redrain => c.stage = Stage::Fin,
            _ => break,
        }
    }
    match c.stage {
        Stage::Enq1(i) => {
            s.enqueue(tx.id, &resolve(&tx.enq[i], rules, tag_of(ri, slot, false, i)));
            o.enqueues += 1;
            c.stage = Stage::Enq1(i + 1);
        }
        Stage::Enq2(i) => {
            s.enqueue(tx.id, &resolve(&tx.late[i], rules, tag_of(ri, slot, true, i)));
            o.enqueues += 1;
            c.stage = Stage::Enq2(i + 1);
        }
        Stage::Drain1 | Stage::Drain2 | Stage::Redrain => {
            let d = s.drain(tx.id);
            c.batch_len = d.len();
            o.drains.push(d);
            o.accepts.push(Vec::new());
            o.blockers.push(Vec::new());
            o.masks.push(s.drained_masks(tx.id).unwrap_or_default());
            c.stage = match c.stage {
                Stage::Drain1 => Stage::Res1(0),
                Stage::Drain2 => Stage::Res2(0),
                _ => Stage::Fin,
            };
        }
        Stage::Res1(i) | Stage::Res2(i) => {
            let r = s.reserve(tx.id, i);
            if let Some(a) = o.accepts.last_mut() {
                a.push(r);
            }
            if let (Some(b), Some(bl)) = (o.blockers.last_mut(), s.last_blockers()) {
                b.push(bl);
            }
            c.stage = if matches!(c.stage, Stage::Res1(_)) { Stage::Res1(i + 1) } else { Stage::Res2(i + 1) };
        }
        Stage::Fin => {
            s.finalize(tx.id);
            c.stage = Stage::Done;
        }
        Stage::Done => {}
    }
}

/// Run the history (all rounds on the one scheduler instance `s`), or only transaction
/// `solo = (round, slot)` when given. Returns observations indexed [round][slot].
pub fn drive<S: Sched>(s: &mut S, rounds: &[Round], rules: &[u32], solo: Option<(usize, usize)>) -> (Vec<Vec<TxObs>>, DriveStats) {
    let mut out: Vec<Vec<TxObs>> = Vec::with_capacity(rounds.len());
    let mut switches = 0u64;
    for (ri, round) in rounds.iter().enumerate() {
        let n = round.txs.len();
        let mut obs: Vec<TxObs> = vec![TxObs::default(); n];
        if let Some((sr, _)) = solo {
            if sr != ri {
                out.push(obs);
                continue;
            }
        }
        let mut cur: Vec<Cursor> = (0..n).map(|_| Cursor { stage: Stage::Enq1(0), steps: 0, batch_len: 0, started: false }).collect();
        if let Some((_, ss)) = solo {
            for (i, c) in cur.iter_mut().enumerate() {
                if i != ss {
                    c.stage = Stage::Done;
                }
            }
        }
        let mut tape = round.tape.iter();
        let mut last: Option<usize> = None;
        loop {
            let Some(lowest) = (0..n).find(|i| cur[*i].stage != Stage::Done) else { break };
            let (slot, burst) = match tape.next() {
                Some(&(t, b)) => {
                    let t = usize::from(t) % n;
                    (if cur[t].stage == Stage::Done { lowest } else { t }, u32::from(b).max(1))
                }
                None => (lowest, u32::MAX),
            };
            if let Some(l) = last {
                if l != slot && cur[l].stage != Stage::Done && cur[l].started {
                    switches += 1;
                }
            }
            last = Some(slot);
            let mut k = 0u32;
            while k < burst && cur[slot].stage != Stage::Done {
                step(s, ri, slot, &round.txs[slot], &mut cur[slot], &mut obs[slot], rules);
                k += 1;
            }
        }
        out.push(obs);
    }
    let replaced = s.replaced();
    (out, DriveStats { interleave_switches: switches, replaced })
}
