//! Scenario generator for C15. All randomness is drawn here; the result is plain data.
//!
//! Programs must be applicable to whatever state their lane has when they run, otherwise the tick
//! fails and the tape stops. The generator therefore keeps a three-valued knowledge model
//! (present / absent / unknown) of the data nodes and edges of every lane: a fork copies the
//! parent's knowledge at the fork tick, a settlement makes everything the strand wrote "unknown"
//! on the parent, and steps are only emitted when the knowledge says they can apply (or after the
//! program itself re-establishes the fact, e.g. by upserting the node first).

use std::collections::{BTreeMap, BTreeSet};

use super::{ForkFault, ForkOp, LaneProg, Op, SettleOp, C15};
use crate::kernel::{Rng, Tier};
use crate::world::gen::{gen_val, InstSpec, StateSpec};
use crate::world::prog::{Decl, Prog, Step, Val, N};
use crate::world::rules::N_RULES;
use crate::world::runtime::{HeadSpec, PolicySpec, WlSpec, WorldSpec};

#[derive(Clone, Copy, Debug, PartialEq, Eq)]
enum Tri {
    Present,
    Absent,
    Unknown,
}

#[derive(Clone, Debug)]
struct EdgeK {
    state: Tri,
    from: Option<N>,
    to: Option<N>,
}

#[derive(Clone, Debug)]
struct LaneModel {
    nodes: Vec<Tri>,
    edges: Vec<EdgeK>,
}

impl LaneModel {
    fn node_present(&self, n: N) -> bool {
        match n {
            N::R(_) => true,
            N::D(i) => self.nodes.get(usize::from(i)).copied() == Some(Tri::Present),
            _ => false,
        }
    }
    /// Known to have no incident edge.
    fn isolated(&self, i: u8) -> bool {
        self.edges.iter().all(|e| match e.state {
            Tri::Absent => true,
            Tri::Unknown => false,
            Tri::Present => e.from != Some(N::D(i)) && e.to != Some(N::D(i)) && e.from.is_some() && e.to.is_some(),
        })
    }
}

/// How the lanes' slot sets relate.
#[derive(Clone, Copy, Debug, PartialEq, Eq)]
enum Mode {
    /// Every lane reads and writes everything.
    Mixed,
    /// Lanes of different parity touch disjoint node / edge sets.
    Partitioned,
    /// Strands write their own partition but read the parent's.
    ReadOverlap,
    /// Everybody writes everything with values from a two-element set.
    WriteOverlapSmall,
}

struct Knobs {
    /// Steer around the shape of the listed finding
    /// `import_overwrote_parent_change:attachment_of_recreated_edge_outside_footprint`: strands never
    /// re-parent an edge (an upsert keeps the known source or creates an edge known to be absent).
    avoid_reparent_in_strands: bool,
    np: u8,
    ne: u8,
    max_steps: usize,
    mode: Mode,
    small_vals: bool,
}

#[derive(Clone, Debug, Default)]
struct Focus {
    write_nodes: Vec<u8>,
    read_nodes: Vec<u8>,
    write_edges: Vec<u8>,
    read_edges: Vec<u8>,
    /// May the root node be used as an edge source (it is then a written node of the lane)?
    root_source: bool,
}

fn focus_for(kn: &Knobs, lane: u8) -> Focus {
    let all_n: Vec<u8> = (0..kn.np).collect();
    let all_e: Vec<u8> = (0..kn.ne).collect();
    let side = lane % 2; // parent and even strands on one side, odd strands on the other
    let part_n: Vec<u8> = all_n.iter().copied().filter(|i| i % 2 == side).collect();
    let part_e: Vec<u8> = all_e.iter().copied().filter(|i| i % 2 == side).collect();
    match kn.mode {
        Mode::Mixed | Mode::WriteOverlapSmall => Focus { write_nodes: all_n.clone(), read_nodes: all_n, write_edges: all_e.clone(), read_edges: all_e, root_source: true },
        Mode::Partitioned => Focus { write_nodes: part_n.clone(), read_nodes: part_n, write_edges: part_e.clone(), read_edges: part_e, root_source: side == 0 },
        Mode::ReadOverlap => {
            if lane == 0 {
                Focus { write_nodes: part_n.clone(), read_nodes: part_n, write_edges: part_e.clone(), read_edges: part_e, root_source: side == 0 }
            } else {
                Focus { write_nodes: part_n, read_nodes: all_n, write_edges: part_e, read_edges: all_e, root_source: side == 0 }
            }
        }
    }
}

fn val(rng: &mut Rng, kn: &Knobs) -> Val {
    if kn.small_vals {
        Val { ty: 0, bytes: vec![*rng.pick(b"ab")] }
    } else {
        gen_val(rng)
    }
}

struct ProgBuilder<'a> {
    model: &'a mut LaneModel,
    steps: Vec<Step>,
    /// nodes deleted by this program
    deleted: BTreeSet<u8>,
    /// nodes used as attachment owner or edge endpoint by this program
    used: BTreeSet<u8>,
    /// write keys already taken (one write per slot and program)
    keys: BTreeSet<String>,
    written_nodes: BTreeSet<u8>,
    written_edges: BTreeSet<u8>,
}

impl ProgBuilder<'_> {
    fn take(&mut self, key: String) -> bool {
        self.keys.insert(key)
    }

    /// Make node `i` present for a following step of the same program (upserts precede edge and
    /// attachment ops in the canonical op order).
    fn ensure_node(&mut self, rng: &mut Rng, i: u8, may_write: bool) -> bool {
        if self.deleted.contains(&i) {
            return false;
        }
        if self.model.node_present(N::D(i)) {
            return true;
        }
        if !may_write || !self.take(format!("N{i}")) {
            return false;
        }
        self.steps.push(Step::UpsertNode { n: N::D(i), ty: rng.below(2) as u8 });
        self.model.nodes[usize::from(i)] = Tri::Present;
        self.written_nodes.insert(i);
        true
    }
}

fn pick_u8(rng: &mut Rng, v: &[u8]) -> Option<u8> {
    if v.is_empty() {
        None
    } else {
        Some(*rng.pick(v))
    }
}

/// Generate one program for a lane; updates the lane's knowledge. Returns the program and the
/// node / edge indices it may have written.
fn gen_lane_prog(rng: &mut Rng, model: &mut LaneModel, fo: &Focus, nonce: u32, kn: &Knobs, is_strand: bool) -> (Prog, BTreeSet<u8>, BTreeSet<u8>) {
    // node deletes are applied before edge upserts: isolation must already hold in the pre-state
    let start = model.clone();
    let mut b = ProgBuilder { model, steps: Vec::new(), deleted: BTreeSet::new(), used: BTreeSet::new(), keys: BTreeSet::new(), written_nodes: BTreeSet::new(), written_edges: BTreeSet::new() };
    let n_steps = rng.urange(1, kn.max_steps.max(1));
    let any_read_node = |rng: &mut Rng| -> N {
        let pool: Vec<u8> = fo.read_nodes.iter().chain(fo.write_nodes.iter()).copied().collect();
        match pick_u8(rng, &pool) {
            Some(i) => N::D(i),
            None => N::R(0),
        }
    };
    let any_read_edge = |rng: &mut Rng| -> Option<u8> {
        let pool: Vec<u8> = fo.read_edges.iter().chain(fo.write_edges.iter()).copied().collect();
        pick_u8(rng, &pool)
    };
    let mut guard = 0;
    let target = n_steps;
    let mut added = 0usize;
    while added < target && guard < 30 {
        guard += 1;
        let before = b.steps.len();
        match rng.weighted(&[2, 1, 2, 1, 1, 4, 2, 4, 2, 6, 3, 3, 2, 2, 2, 2, 2]) {
            0 => b.steps.push(Step::ReadNode(any_read_node(rng))),
            1 => b.steps.push(Step::ReadAdj(any_read_node(rng))),
            2 => b.steps.push(Step::ReadNodeAtt(any_read_node(rng))),
            3 => {
                if let Some(e) = any_read_edge(rng) {
                    b.steps.push(Step::ReadEdgeAtt(e));
                }
            }
            4 => {
                if let Some(e) = any_read_edge(rng) {
                    b.steps.push(Step::HasEdge(e));
                }
            }
            5 => {
                if let Some(i) = pick_u8(rng, &fo.write_nodes) {
                    if !b.deleted.contains(&i) && b.take(format!("N{i}")) {
                        b.steps.push(Step::UpsertNode { n: N::D(i), ty: rng.below(2) as u8 });
                        b.model.nodes[usize::from(i)] = Tri::Present;
                        b.written_nodes.insert(i);
                    }
                }
            }
            6 => {
                if let Some(i) = pick_u8(rng, &fo.write_nodes) {
                    if b.model.node_present(N::D(i)) && b.model.isolated(i) && start.isolated(i) && !b.used.contains(&i) && !b.keys.contains(&format!("N{i}")) && !b.keys.contains(&format!("A{i}")) && b.take(format!("N{i}")) {
                        b.keys.insert(format!("A{i}"));
                        b.steps.push(Step::DeleteNode { n: N::D(i) });
                        b.model.nodes[usize::from(i)] = Tri::Absent;
                        b.deleted.insert(i);
                        b.written_nodes.insert(i);
                    }
                }
            }
            7 => {
                if let Some(e) = pick_u8(rng, &fo.write_edges) {
                    if !b.keys.contains(&format!("E{e}")) {
                        // source: keep the known source half of the time, otherwise re-parent
                        let cur = b.model.edges[usize::from(e)].clone();
                        let keep_source = kn.avoid_reparent_in_strands && is_strand;
                        if keep_source && cur.state == Tri::Unknown {
                            continue;
                        }
                        let mut from = match (cur.state, cur.from) {
                            (Tri::Present, Some(f)) if keep_source || rng.chance(1, 2) => f,
                            _ => {
                                if fo.root_source && rng.chance(1, 3) {
                                    N::R(0)
                                } else {
                                    match pick_u8(rng, &fo.write_nodes) {
                                        Some(i) => N::D(i),
                                        None => N::R(0),
                                    }
                                }
                            }
                        };
                        if from == N::R(0) && !fo.root_source {
                            if keep_source && cur.state == Tri::Present {
                                continue;
                            }
                            from = match pick_u8(rng, &fo.write_nodes) {
                                Some(i) => N::D(i),
                                None => continue,
                            };
                        }
                        // a known previous source outside the lane's write set would be written too
                        if let (Tri::Present, Some(N::D(p))) = (cur.state, cur.from) {
                            if Some(N::D(p)) != Some(from) && !fo.write_nodes.contains(&p) {
                                continue;
                            }
                        }
                        if let (Tri::Present, Some(N::R(_))) = (cur.state, cur.from) {
                            if from != N::R(0) && !fo.root_source {
                                continue;
                            }
                        }
                        let to = {
                            let pool: Vec<u8> = fo.write_nodes.iter().chain(fo.read_nodes.iter()).copied().collect();
                            match pick_u8(rng, &pool) {
                                Some(i) if !rng.chance(1, 5) => N::D(i),
                                _ => N::R(0),
                            }
                        };
                        let mut ok = true;
                        for end in [from, to] {
                            if let N::D(i) = end {
                                let may_write = fo.write_nodes.contains(&i);
                                if !b.ensure_node(rng, i, may_write) {
                                    ok = false;
                                }
                            }
                        }
                        if ok && b.take(format!("E{e}")) {
                            for end in [from, to] {
                                if let N::D(i) = end {
                                    b.used.insert(i);
                                }
                            }
                            if let N::D(i) = from {
                                b.written_nodes.insert(i);
                            }
                            if let (Tri::Present | Tri::Unknown, Some(N::D(p))) = (cur.state, cur.from) {
                                b.written_nodes.insert(p);
                            }
                            b.steps.push(Step::UpsertEdge { e, from, to, ty: rng.below(2) as u8 });
                            b.model.edges[usize::from(e)] = EdgeK { state: Tri::Present, from: Some(from), to: Some(to) };
                            b.written_edges.insert(e);
                        }
                    }
                }
            }
            8 => {
                if let Some(e) = pick_u8(rng, &fo.write_edges) {
                    let cur = b.model.edges[usize::from(e)].clone();
                    if let (Tri::Present, Some(from)) = (cur.state, cur.from) {
                        let from_ok = match from {
                            N::D(i) => fo.write_nodes.contains(&i),
                            _ => fo.root_source,
                        };
                        if from_ok && !b.keys.contains(&format!("E{e}")) && !b.keys.contains(&format!("B{e}")) && b.take(format!("E{e}")) {
                            b.keys.insert(format!("B{e}"));
                            b.steps.push(Step::DeleteEdge { from, e });
                            b.model.edges[usize::from(e)] = EdgeK { state: Tri::Absent, from: None, to: None };
                            b.written_edges.insert(e);
                            if let N::D(i) = from {
                                b.written_nodes.insert(i);
                            }
                        }
                    }
                }
            }
            9 => {
                if let Some(i) = pick_u8(rng, &fo.write_nodes) {
                    if !b.keys.contains(&format!("A{i}")) && b.ensure_node(rng, i, true) && b.take(format!("A{i}")) {
                        let v = if rng.chance(1, 5) { None } else { Some(val(rng, kn)) };
                        b.steps.push(Step::SetNodeAtt { n: N::D(i), val: v });
                        b.used.insert(i);
                        b.written_nodes.insert(i);
                    }
                }
            }
            10 => {
                if let Some(e) = pick_u8(rng, &fo.write_edges) {
                    let st = b.model.edges[usize::from(e)].state;
                    if st != Tri::Absent && !b.keys.contains(&format!("B{e}")) && b.take(format!("B{e}")) {
                        let v = if rng.chance(1, 5) { None } else { Some(val(rng, kn)) };
                        let inner = Step::SetEdgeAtt { e, val: v };
                        // the guard makes the step applicable whatever the edge's actual state is
                        if st == Tri::Present && rng.chance(2, 3) {
                            b.steps.push(inner);
                        } else {
                            b.steps.push(Step::IfEdge { e, then: Box::new(inner) });
                        }
                        b.written_edges.insert(e);
                    }
                }
            }
            k @ 11..=15 => {
                if let Some(i) = pick_u8(rng, &fo.write_nodes) {
                    if !b.keys.contains(&format!("A{i}")) && b.ensure_node(rng, i, true) && b.take(format!("A{i}")) {
                        let dst = N::D(i);
                        let step = match k {
                            11 => Step::CopyNodeAtt { dst, src: any_read_node(rng) },
                            12 => Step::CountAdjInto { dst, src: any_read_node(rng) },
                            13 => Step::NodeInfoInto { dst, src: any_read_node(rng) },
                            14 => match any_read_edge(rng) {
                                Some(e) => Step::EdgeFlagInto { dst, e },
                                None => Step::NodeInfoInto { dst, src: any_read_node(rng) },
                            },
                            _ => match any_read_edge(rng) {
                                Some(e) => Step::CopyEdgeAttInto { dst, e },
                                None => Step::CopyNodeAtt { dst, src: any_read_node(rng) },
                            },
                        };
                        b.steps.push(step);
                        b.used.insert(i);
                        b.written_nodes.insert(i);
                    }
                }
            }
            _ => {
                if let (Some(i), Some(e)) = (pick_u8(rng, &fo.write_nodes), any_read_edge(rng)) {
                    if !b.keys.contains(&format!("A{i}")) && b.ensure_node(rng, i, true) && b.take(format!("A{i}")) {
                        let inner = Step::SetNodeAtt { n: N::D(i), val: Some(val(rng, kn)) };
                        b.steps.push(Step::IfEdge { e, then: Box::new(inner) });
                        b.used.insert(i);
                        b.written_nodes.insert(i);
                    }
                }
            }
        }
        if b.steps.len() > before {
            added += 1;
        }
    }
    if b.steps.is_empty() {
        b.steps.push(Step::Noop);
    }
    let rule = rng.below(u64::from(N_RULES)) as u8;
    let prog = Prog { rule, nonce, steps: std::mem::take(&mut b.steps), decl: Decl::Honest };
    (prog, b.written_nodes, b.written_edges)
}

struct StrandGen {
    id: u8,
    shared: bool,
    model: LaneModel,
    suffix_len: u64,
    touched_nodes: BTreeSet<u8>,
    touched_edges: BTreeSet<u8>,
}

struct Gen<'a> {
    rng: &'a mut Rng,
    kn: Knobs,
    parent: LaneModel,
    /// parent knowledge after each parent entry (index = tick)
    parent_hist: Vec<LaneModel>,
    parent_heads: u8,
    strands: Vec<StrandGen>,
    pins: BTreeSet<(u8, u8)>,
    next_id: u8,
    nonce: u32,
    ops: Vec<Op>,
    max_strands: usize,
}

impl Gen<'_> {
    fn lane_prog(&mut self, lane: u8) -> Option<LaneProg> {
        self.nonce += 1;
        let nonce = self.nonce;
        let fo = focus_for(&self.kn, lane);
        let kind = self.rng.below(3) as u8;
        if lane == 0 {
            let head = self.rng.below(u64::from(self.parent_heads)) as u8;
            let (prog, _, _) = gen_lane_prog(self.rng, &mut self.parent, &fo, nonce, &self.kn, false);
            self.parent_hist.push(self.parent.clone());
            Some(LaneProg { lane, head, kind, prog })
        } else {
            let kn = &self.kn;
            let s = self.strands.iter_mut().find(|s| s.id == lane)?;
            let (prog, wn, we) = gen_lane_prog(self.rng, &mut s.model, &fo, nonce, kn, true);
            s.suffix_len += 1;
            s.touched_nodes.extend(wn);
            s.touched_edges.extend(we);
            Some(LaneProg { lane, head: 0, kind, prog })
        }
    }

    fn tick(&mut self, lanes: &[u8]) {
        let mut ps = Vec::new();
        for l in lanes {
            if let Some(p) = self.lane_prog(*l) {
                ps.push(p);
            }
        }
        if !ps.is_empty() {
            self.ops.push(Op::Tick(ps));
        }
    }

    fn fork(&mut self) {
        if self.parent_hist.is_empty() || self.strands.len() >= self.max_strands {
            return;
        }
        let id = self.next_id;
        self.next_id += 1;
        let len = self.parent_hist.len() as u64;
        // every tick of the history is reachable; the tip is the most common choice
        let t = if self.rng.chance(1, 2) { len - 1 } else { self.rng.below(len) };
        let tick_sel = (t + len * self.rng.below(3)) as u16;
        let shared = !self.rng.chance(1, 7);
        let fault = if self.rng.chance(1, 4) {
            Some(match self.rng.below(8) {
                0 | 1 => ForkFault::DupStrandId,
                2 => ForkFault::BadPosture,
                3 => ForkFault::WrongHeadWorldline,
                4 => ForkFault::TwoHeads,
                5 => ForkFault::NoHeads,
                6 => ForkFault::DupChildWorldline,
                _ => ForkFault::TickOutOfRange,
            })
        } else {
            None
        };
        self.ops.push(Op::Fork(ForkOp { id, tick_sel, shared, fault }));
        let model = self.parent_hist[(u64::from(tick_sel) % len) as usize].clone();
        self.strands.push(StrandGen { id, shared, model, suffix_len: 0, touched_nodes: BTreeSet::new(), touched_edges: BTreeSet::new() });
    }

    fn settle(&mut self, id: u8) {
        let Some(ix) = self.strands.iter().position(|s| s.id == id) else { return };
        let plural = self.rng.chance(2, 5);
        let n = self.strands[ix].suffix_len;
        let fail_steps: Vec<u8> = if n == 0 || !self.strands[ix].shared {
            Vec::new()
        } else {
            match self.rng.below(4) {
                0 | 1 => Vec::new(),
                2 => vec![self.rng.below(n + 1) as u8],
                _ => {
                    let mut v: Vec<u8> = (0..=n.min(7) as u8).collect();
                    if self.rng.chance(1, 2) {
                        self.rng.shuffle(&mut v);
                    }
                    v
                }
            }
        };
        let plain_api = !plural && self.rng.chance(1, 3);
        self.ops.push(Op::Settle(SettleOp { strand: id, plural, plain_api, fail_steps }));
        if self.strands[ix].shared && n > 0 {
            let s = &self.strands[ix];
            for i in &s.touched_nodes {
                self.parent.nodes[usize::from(*i)] = Tri::Unknown;
            }
            for e in &s.touched_edges {
                self.parent.edges[usize::from(*e)] = EdgeK { state: Tri::Unknown, from: None, to: None };
            }
            // an edge written by the strand may now start or end anywhere: isolation of every node is unknown
            for _ in 0..n {
                self.parent_hist.push(self.parent.clone());
            }
        }
    }
}

fn base_state(rng: &mut Rng, kn: &Knobs) -> (StateSpec, LaneModel) {
    let mut nodes = Vec::new();
    let mut model = LaneModel { nodes: vec![Tri::Absent; usize::from(kn.np)], edges: vec![EdgeK { state: Tri::Absent, from: None, to: None }; usize::from(kn.ne)] };
    for i in 0..kn.np {
        if rng.chance(3, 4) {
            nodes.push((N::D(i), rng.below(2) as u8));
            model.nodes[usize::from(i)] = Tri::Present;
        }
    }
    let present: Vec<N> = nodes.iter().map(|(n, _)| *n).chain(std::iter::once(N::R(0))).collect();
    let mut edges = Vec::new();
    for e in 0..kn.ne {
        if rng.chance(1, 2) {
            let from = if rng.chance(1, 2) { N::R(0) } else { *rng.pick(&present) };
            let to = *rng.pick(&present);
            edges.push((e, from, to, rng.below(2) as u8));
            model.edges[usize::from(e)] = EdgeK { state: Tri::Present, from: Some(from), to: Some(to) };
        }
    }
    let mut node_atts = Vec::new();
    for (n, _) in &nodes {
        if rng.chance(1, 2) {
            node_atts.push((*n, val(rng, kn)));
        }
    }
    let mut edge_atts = Vec::new();
    for (e, ..) in &edges {
        if rng.chance(1, 2) {
            edge_atts.push((*e, val(rng, kn)));
        }
    }
    (StateSpec { insts: vec![InstSpec { w: 0, nodes, edges, node_atts, edge_atts, portal: None, progs: Vec::new(), filler: None }] }, model)
}

pub fn generate(rng: &mut Rng, tier: Tier, avoid: bool) -> C15 {
    let thorough = tier == Tier::Thorough;
    let mode = match rng.weighted(&[3, 3, 2, 3]) {
        0 => Mode::Mixed,
        1 => Mode::Partitioned,
        2 => Mode::ReadOverlap,
        _ => Mode::WriteOverlapSmall,
    };
    let kn = Knobs {
        avoid_reparent_in_strands: false && avoid, // defect repaired by a fix: commit; no avoidance any more
        np: rng.urange(2, if thorough { 5 } else { 4 }) as u8,
        ne: rng.urange(1, 3) as u8,
        max_steps: rng.urange(1, 3),
        mode,
        small_vals: mode == Mode::WriteOverlapSmall || rng.chance(1, 3),
    };
    let (state, model) = base_state(rng, &kn);
    let parent_heads = if rng.chance(1, 4) { 2u8 } else { 1u8 };
    let heads: Vec<HeadSpec> = (0..parent_heads).map(|h| HeadSpec { label: h, policy: PolicySpec::AcceptAll, inbox: None, default: h == 0 }).collect();
    let mut rule_order: Vec<u8> = (0..N_RULES).collect();
    rng.shuffle(&mut rule_order);
    let world = WorldSpec { worldlines: vec![WlSpec { id: 0, state, heads }], workers: *rng.pick(&[1usize, 1, 2]), legacy: rng.chance(1, 6), rule_order };

    let max_strands = if thorough { 4 } else { 3 };
    let mut g = Gen { rng, kn, parent: model, parent_hist: Vec::new(), parent_heads, strands: Vec::new(), pins: BTreeSet::new(), next_id: 1, nonce: 0, ops: Vec::new(), max_strands };

    // parent history
    let hist = g.rng.urange(1, if thorough { 6 } else { 4 });
    for _ in 0..hist {
        g.tick(&[0]);
    }
    g.fork();
    let n_ops = g.rng.urange(3, if thorough { 16 } else { 10 });
    let mut settled: BTreeMap<u8, u32> = BTreeMap::new();
    for _ in 0..n_ops {
        let ids: Vec<u8> = g.strands.iter().map(|s| s.id).collect();
        match g.rng.weighted(&[12, 2, 3, 2, 1]) {
            0 => {
                if ids.is_empty() {
                    g.tick(&[0]);
                    continue;
                }
                let c = *g.rng.pick(&ids);
                match g.rng.weighted(&[3, 5, 2, 1]) {
                    0 => g.tick(&[0]),
                    1 => g.tick(&[c]),
                    2 => g.tick(&[0, c]),
                    _ => {
                        let mut lanes = vec![0];
                        lanes.extend(ids.iter().copied());
                        g.tick(&lanes);
                    }
                }
            }
            1 => g.fork(),
            2 => {
                if !ids.is_empty() {
                    let c = *g.rng.pick(&ids);
                    g.settle(c);
                    *settled.entry(c).or_insert(0) += 1;
                }
            }
            3 => {
                if ids.len() >= 2 {
                    let owner = *g.rng.pick(&ids);
                    let target = if g.rng.chance(1, 8) { owner } else { *g.rng.pick(&ids) };
                    g.ops.push(Op::Pin { owner, target, tick_sel: g.rng.below(16) as u16 });
                    if owner != target {
                        g.pins.insert((owner, target));
                    }
                }
            }
            _ => {
                if let Some((owner, target)) = g.pins.iter().next().copied() {
                    g.pins.remove(&(owner, target));
                    g.ops.push(Op::Unpin { owner, target });
                }
            }
        }
    }
    // closing settlements; sometimes a re-fork with more work and another settlement
    let ids: Vec<u8> = g.strands.iter().map(|s| s.id).collect();
    for id in &ids {
        if g.rng.chance(4, 5) {
            g.settle(*id);
        }
    }
    if g.rng.chance(1, 3) && g.strands.len() < g.max_strands {
        g.fork();
        if let Some(id) = g.strands.last().map(|s| s.id) {
            for _ in 0..g.rng.urange(1, 3) {
                match g.rng.below(3) {
                    0 => g.tick(&[0]),
                    1 => g.tick(&[id]),
                    _ => g.tick(&[0, id]),
                }
            }
            g.settle(id);
        }
    }
    let ops = std::mem::take(&mut g.ops);
    C15 { world, ops }
}
