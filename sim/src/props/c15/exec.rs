//! Driver and oracle for C15.
//!
//! Oracle (each clause names its violation class):
//! * Fork — child provenance entries 0..=fork tick equal the parent's modulo the lane rewrite
//!   (`fork_prefix_differs`), the child frontier is the parent's recorded state at the fork tick
//!   (`fork_state_differs`), child heads are fresh and owned by the child (`fork_shares_head`), the
//!   receipt repeats the provenance facts of the fork coordinate (`fork_receipt_mismatch`), the
//!   fork leaves every other lane untouched (`lane_isolation:*`), a rejected fork leaves all
//!   fingerprints unchanged (`failed_fork_left_changes:<field>`).
//! * Isolation — a pass leaves every lane that had no work byte-identical: frontier tick, state
//!   root, abstract state, `{:?}` of all provenance entries (`lane_isolation:*`).
//! * Plan — twice ⇒ equal (`plan_not_deterministic`), no fingerprint moves
//!   (`plan_has_side_effects:<field>`), `settle` returns it (`settle_plan_differs_from_plan`).
//! * Settlement — slots the parent changed since the fork keep the parent's value
//!   (`import_overwrote_parent_change`); the parent holds the strand's values on the slots written
//!   by imported entries (`imported_value_missing`); an imported entry never carries a value for a
//!   parent-changed slot that differs from the parent's (`conflicting_entry_imported`); disjoint
//!   or absent parent movement ⇒ every applicable entry imported (`disjoint_entry_not_imported`,
//!   `unmoved_parent_diverges_from_strand`); the parent replays from U0 to its live state
//!   (`parent_not_replayable_after_settlement`); an injected failure restores every fingerprint
//!   (`failed_settlement_left_changes:<field>`), retains no shell
//!   (`shell_retained_after_failed_settlement`) and the settlement then succeeds with the same plan.

use std::collections::{BTreeMap, BTreeSet};

use warp_core::strand::{make_strand_id, StrandId};
use warp_core::{
    ActorId, AdmissionScopeId, AuthorityBinding, AuthorityDomainId, AuthorityDomainRef, CausalAuthority, CausalPosture, ForkStrandReceipt,
    ForkStrandRequest, InboxPolicy, IngressDisposition, OriginId, PlaybackMode, PostureDerivation, ProvenanceEntry, ProvenanceEventKind, ProvenanceStore,
    RetentionContractId, RetentionPosture, SealStrength, SettlementDecision, SettlementError, SettlementPlan, SettlementPolicy, SettlementService, SlotId,
    StrandRevalidationState, WorldlineId, WorldlineRuntime, WorldlineTick, WriterHead, WriterHeadKey, ProvenanceService,
};

use super::slots::{changed_slots, op_targets, slot_value};
use super::{ForkFault, ForkOp, LaneProg, Op, SettleOp, C15};
use crate::kernel::{catch, Outcome, RunCtx};
use crate::model::refstate::{abs, RefState};
use crate::world::ids;
use crate::world::runtime::{fingerprint, head_key, wl_id, Intent, PassResult, TargetSpec, World};

const SITE: &str = "settlement.exec";
const CHILD_WL_BASE: u8 = 10;

macro_rules! bail {
    ($class:expr, $($fmt:tt)*) => {
        return Err(Outcome::violation($class, format!($($fmt)*)))
    };
}

type Res<T> = Result<T, Outcome>;

struct Lane {
    wl: WorldlineId,
    /// State root after entry i (index = tick).
    roots: Vec<[u8; 32]>,
    /// Commit hash of entry i when a scheduler pass reported it.
    commits: Vec<Option<[u8; 32]>>,
    /// Abstract state at cursor coordinate `len` (after `len` entries), when it was observed.
    abs_at: BTreeMap<u64, RefState>,
    /// Isolation digest (see `lane_digest`) as of the last time this lane was allowed to change.
    digest: [u8; 32],
}

struct StrandInfo {
    sid: StrandId,
    lane: Lane,
    head: WriterHeadKey,
    fork_tick: u64,
    shared: bool,
    receipt: ForkStrandReceipt,
    child_ticked: bool,
    parent_ticked: bool,
    pins: BTreeSet<u8>,
}

struct Sim<'a, 'c> {
    sc: &'a C15,
    ctx: &'c mut RunCtx,
    w: World,
    parent: Lane,
    parent_heads: Vec<WriterHeadKey>,
    strands: BTreeMap<u8, StrandInfo>,
    settlements_done: u32,
    nontrivial: bool,
}

fn warps() -> Vec<warp_core::WarpId> {
    (0..ids::N_WARPS).map(ids::warp).collect()
}

fn posture(shared: bool) -> Result<RetentionPosture, String> {
    let origin_id = OriginId::from_bytes([0x51; 32]);
    let authority = AuthorityDomainRef::new(origin_id, AuthorityDomainId::from_bytes([0x52; 32]));
    let cp = if shared { CausalPosture::Shared } else { CausalPosture::AuthorOnly };
    let auth = CausalAuthority::new(origin_id, ActorId::from_bytes([0x53; 32]), authority, AuthorityBinding::LocalUnbound { origin: origin_id }, SealStrength::Advisory)
        .map_err(|e| format!("authority: {e:?}"))?;
    RetentionPosture::new(cp, PostureDerivation::ExplicitIntent, auth, RetentionContractId::from_bytes([0x54; 32]), shared.then_some(AdmissionScopeId::from_bytes([0x55; 32])))
        .map_err(|e| format!("posture: {e:?}"))
}

/// Snapshot of runtime and provenance for "nothing changed" checks. Rendering the whole runtime
/// with `{:#?}` costs tens of milliseconds, so equality is decided on the BLAKE3 of the compact
/// `{:?}` text; the copies are kept only to name the top-level fields that differ (field-wise
/// fingerprints of `world::runtime`, which also exclude the two instrumentation fields) when it is not.
struct Snap {
    rt: WorldlineRuntime,
    pv: ProvenanceService,
    d_rt: [u8; 32],
    d_pv: [u8; 32],
}

fn text_digest<T: std::fmt::Debug>(x: &T) -> [u8; 32] {
    *blake3::hash(format!("{x:?}").as_bytes()).as_bytes()
}

impl Snap {
    fn take(w: &World) -> Snap {
        Snap { rt: w.runtime.clone(), pv: w.provenance.clone(), d_rt: text_digest(&w.runtime), d_pv: text_digest(&w.provenance) }
    }

    /// `None` if nothing changed, else `runtime.<fields>` / `provenance.<fields>`.
    fn changed(&self, w: &World) -> Option<String> {
        if text_digest(&w.runtime) != self.d_rt {
            let d = fingerprint(&format!("{:#?}", self.rt)).diff(&fingerprint(&format!("{:#?}", w.runtime)));
            if !d.is_empty() {
                return Some(format!("runtime.{}", d.join("+")));
            }
        }
        if text_digest(&w.provenance) != self.d_pv {
            let d = fingerprint(&format!("{:#?}", self.pv)).diff(&fingerprint(&format!("{:#?}", w.provenance)));
            if !d.is_empty() {
                return Some(format!("provenance.{}", d.join("+")));
            }
        }
        None
    }
}

/// Compact rendering of a slot of the small universe (first id bytes only).
fn short_slot(s: &SlotId) -> String {
    match s {
        SlotId::Node(k) => format!("Node(W{} {})", k.warp_id.0[31], hex::encode(&k.local_id.0[..10])),
        SlotId::Edge(k) => format!("Edge(W{} {})", k.warp_id.0[31], hex::encode(&k.local_id.0[..4])),
        SlotId::Attachment(key) => match key.owner {
            warp_core::AttachmentOwner::Node(k) => format!("NodeAttachment(W{} {})", k.warp_id.0[31], hex::encode(&k.local_id.0[..10])),
            warp_core::AttachmentOwner::Edge(k) => format!("EdgeAttachment(W{} {})", k.warp_id.0[31], hex::encode(&k.local_id.0[..4])),
        },
        SlotId::Port(_) => "Port".to_owned(),
    }
}

fn err_kind<E: std::fmt::Debug>(e: &E) -> String {
    let s = format!("{e:?}");
    s.split(|c: char| !(c.is_ascii_alphanumeric() || c == '_')).next().unwrap_or("").to_owned()
}

pub fn execute(sc: &C15, ctx: &mut RunCtx) -> Outcome {
    warp_core::verif::clear_fail_points();
    let w = match World::new(&sc.world) {
        Ok(w) => w,
        Err(e) => return Outcome::violation("state_construction_failed", e),
    };
    let Some(wl0) = sc.world.worldlines.first() else { return Outcome::Ok };
    let parent_heads: Vec<WriterHeadKey> = wl0.heads.iter().map(|h| head_key(wl0.id, h.label)).collect();
    let parent = Lane { wl: wl_id(wl0.id), roots: Vec::new(), commits: Vec::new(), abs_at: BTreeMap::new(), digest: [0; 32] };
    let mut sim = Sim { sc, ctx, w, parent, parent_heads, strands: BTreeMap::new(), settlements_done: 0, nontrivial: false };
    let out = match sim.run() {
        Ok(()) => Outcome::Ok,
        Err(v) => v,
    };
    warp_core::verif::clear_fail_points();
    out
}

impl Sim<'_, '_> {
    fn run(&mut self) -> Res<()> {
        if let Some(a) = self.w.abs_of(0) {
            self.parent.abs_at.insert(0, a);
        }
        self.parent.digest = self.lane_digest(self.parent.wl);
        let sc = self.sc;
        for (oi, op) in sc.ops.iter().enumerate() {
            let go = match op {
                Op::Tick(ps) => self.tick(oi, ps)?,
                Op::Fork(f) => {
                    self.fork(oi, f)?;
                    true
                }
                Op::Settle(s) => {
                    self.settle(oi, s)?;
                    true
                }
                Op::Pin { owner, target, tick_sel } => {
                    self.pin(oi, *owner, *target, *tick_sel)?;
                    true
                }
                Op::Unpin { owner, target } => {
                    self.unpin(oi, *owner, *target)?;
                    true
                }
            };
            if !go {
                break;
            }
        }
        if self.nontrivial {
            self.ctx.nontrivial(&serde_json::to_vec(self.sc).unwrap_or_default());
        }
        Ok(())
    }

    // ------------------------------------------------------------------ helpers

    fn plen(&self, wl: WorldlineId) -> u64 {
        self.w.provenance.len(wl).unwrap_or(0)
    }

    fn entries(&self, wl: WorldlineId, from: u64, to: u64) -> Res<Vec<ProvenanceEntry>> {
        let mut v = Vec::new();
        for t in from..to {
            match self.w.provenance.entry(wl, WorldlineTick::from_raw(t)) {
                Ok(e) => v.push(e),
                Err(e) => bail!("provenance_entry_missing", "worldline {wl:?} tick {t}: {e:?}"),
            }
        }
        Ok(v)
    }

    fn abs_wl(&self, wl: WorldlineId) -> Option<RefState> {
        self.w.runtime.worldlines().get(&wl).map(|f| abs(f.state().warp_state(), &warps()))
    }

    /// Everything the isolation clause speaks about: frontier tick, state root, abstract state and the
    /// `{:?}` text of every provenance entry of the lane.
    fn lane_digest(&self, wl: WorldlineId) -> [u8; 32] {
        let mut h = blake3::Hasher::new();
        match self.w.runtime.worldlines().get(&wl) {
            Some(f) => {
                h.update(&f.frontier_tick().as_u64().to_le_bytes());
                h.update(&f.state().state_root());
                h.update(&f.state().current_tick().as_u64().to_le_bytes());
                h.update(format!("{:?}", abs(f.state().warp_state(), &warps())).as_bytes());
            }
            None => {
                h.update(b"absent");
            }
        }
        let len = self.plen(wl);
        h.update(&len.to_le_bytes());
        for t in 0..len {
            match self.w.provenance.entry(wl, WorldlineTick::from_raw(t)) {
                Ok(e) => h.update(format!("{e:?}").as_bytes()),
                Err(e) => h.update(format!("missing {t} {e:?}").as_bytes()),
            };
        }
        *h.finalize().as_bytes()
    }

    /// Check that every lane not in `may_change` still has its remembered digest.
    /// `actor` says who moved: 0 = parent, k = strand k, 255 = an operation (fork / settle).
    fn check_idle_lanes(&mut self, may_change: &BTreeSet<u8>, what: &str, oi: usize) -> Res<()> {
        let parent_moved = may_change.contains(&0);
        if !parent_moved {
            let d = self.lane_digest(self.parent.wl);
            if d != self.parent.digest {
                bail!("lane_isolation:parent_changed_by_child", "op#{oi} ({what}): parent worldline changed although only lanes {may_change:?} had work");
            }
        }
        let ids: Vec<u8> = self.strands.keys().copied().collect();
        for id in ids {
            if may_change.contains(&id) {
                continue;
            }
            let wl = self.strands[&id].lane.wl;
            let d = self.lane_digest(wl);
            if d != self.strands[&id].lane.digest {
                let class = if parent_moved && may_change.len() == 1 { "lane_isolation:child_changed_by_parent" } else if parent_moved { "lane_isolation:child_changed_by_other_lanes" } else { "lane_isolation:child_changed_by_sibling" };
                bail!(class, "op#{oi} ({what}): child worldline of strand {id} changed although only lanes {may_change:?} had work");
            }
        }
        Ok(())
    }

    fn refresh_digest(&mut self, lane: u8) {
        if lane == 0 {
            self.parent.digest = self.lane_digest(self.parent.wl);
        } else if let Some(wl) = self.strands.get(&lane).map(|s| s.lane.wl) {
            let d = self.lane_digest(wl);
            if let Some(s) = self.strands.get_mut(&lane) {
                s.lane.digest = d;
            }
        }
    }

    // ------------------------------------------------------------------ Tick

    fn tick(&mut self, oi: usize, progs: &[LaneProg]) -> Res<bool> {
        let mut expected: BTreeSet<u8> = BTreeSet::new();
        for p in progs {
            let target = if p.lane == 0 {
                let n = self.parent_heads.len().max(1);
                let label = self.sc.world.worldlines[0].heads[usize::from(p.head) % n].label;
                TargetSpec::Exact { wl: self.sc.world.worldlines[0].id, head: label }
            } else if self.strands.contains_key(&p.lane) {
                TargetSpec::Exact { wl: CHILD_WL_BASE + p.lane, head: 0 }
            } else {
                continue;
            };
            let intent = Intent { kind: p.kind, prog: p.prog.clone(), target };
            match self.w.deliver(&intent) {
                Ok(IngressDisposition::Accepted { .. }) => {
                    expected.insert(p.lane);
                }
                Ok(_) => self.ctx.hit("reach.delivery_duplicate"),
                Err(_) => self.ctx.hit("reach.delivery_rejected"),
            }
        }
        if expected.is_empty() {
            return Ok(true);
        }
        let result = self.w.pass();
        self.ctx.trace_str(&format!("{result:?}"));
        let records = match result {
            PassResult::Ok(r) => r,
            PassResult::Err(e) | PassResult::Panic(e) => {
                // a program that cannot apply (possible after shrinking): the tape ends here
                self.ctx.hit("reach.tick_failed");
                self.ctx.trace_str(&e);
                return Ok(false);
            }
        };
        let mut committed: BTreeSet<u8> = BTreeSet::new();
        for (ri, r) in records.iter().enumerate() {
            let wl = r.head_key.worldline_id;
            let lane_id = if wl == self.parent.wl { Some(0u8) } else { self.strands.iter().find(|(_, s)| s.lane.wl == wl).map(|(id, _)| *id) };
            let Some(lane_id) = lane_id else { bail!("unknown_lane_committed", "op#{oi}: step record for unknown worldline {wl:?}") };
            committed.insert(lane_id);
            // the abstract state is observable only after the worldline's last commit of the pass
            let last_of_wl = !records[ri + 1..].iter().any(|x| x.head_key.worldline_id == wl);
            let a = if last_of_wl { self.abs_wl(wl) } else { None };
            let lane = if lane_id == 0 { &mut self.parent } else { &mut self.strands.get_mut(&lane_id).ok_or_else(|| Outcome::violation("internal", "lane"))?.lane };
            lane.roots.push(r.state_root);
            lane.commits.push(Some(r.commit_hash));
            let len = r.worldline_tick_after.as_u64();
            if lane.roots.len() as u64 != len {
                bail!("worldline_tick_accounting", "op#{oi}: lane {lane_id} tick_after {len} but {} ticks recorded", lane.roots.len());
            }
            if let Some(a) = a {
                lane.abs_at.insert(len, a);
            }
            self.ctx.count("time.ticks", 1);
        }
        if committed != expected {
            self.ctx.hit("reach.commit_set_differs_from_deliveries");
        }
        self.check_idle_lanes(&committed, "tick", oi)?;
        for l in &committed {
            self.refresh_digest(*l);
        }
        if committed.contains(&0) {
            for s in self.strands.values_mut() {
                s.parent_ticked = true;
            }
        }
        for l in &committed {
            if let Some(s) = self.strands.get_mut(l) {
                s.child_ticked = true;
            }
        }
        if committed.len() >= 2 {
            self.ctx.hit("reach.pass_ticked_several_lanes");
        }
        Ok(true)
    }

    // ------------------------------------------------------------------ Fork

    fn child_head(id: u8) -> WriterHead {
        WriterHead::with_routing(head_key(CHILD_WL_BASE + id, 0), PlaybackMode::Play, InboxPolicy::AcceptAll, None, true)
    }

    fn fork(&mut self, oi: usize, f: &ForkOp) -> Res<()> {
        let parent_len = self.plen(self.parent.wl);
        if parent_len == 0 || f.id == 0 || self.strands.contains_key(&f.id) || usize::from(f.id) + usize::from(CHILD_WL_BASE) > 60 {
            return Ok(());
        }
        let t = u64::from(f.tick_sel) % parent_len;
        let good_posture = match posture(f.shared) {
            Ok(p) => p,
            Err(e) => bail!("harness:posture_construction", "{e}"),
        };
        let sid = make_strand_id(&format!("verif/s{}", f.id));
        let child_wl = wl_id(CHILD_WL_BASE + f.id);
        if let Some(fault) = f.fault {
            self.faulty_fork(oi, f, fault, t, parent_len, good_posture)?;
        }
        let head = Self::child_head(f.id);
        let child_head_key = *head.key();
        let request = ForkStrandRequest { strand_id: sid, source_lane_id: self.parent.wl, fork_tick: WorldlineTick::from_raw(t), child_worldline_id: child_wl, writer_heads: vec![head], retention_posture: good_posture };
        let heads_before: BTreeSet<WriterHeadKey> = self.w.runtime.heads().iter().map(|(k, _)| *k).collect();
        let w = &mut self.w;
        let res = catch(|| w.runtime.fork_strand(&mut w.provenance, request));
        let receipt = match res {
            Err(p) => bail!("fork_panicked", "op#{oi}: {p}"),
            Ok(Err(e)) => bail!(format!("fork_rejected:{}", err_kind(&e)), "op#{oi}: fork of strand {} at tick {t} (parent length {parent_len}): {e:?}", f.id),
            Ok(Ok(r)) => r,
        };
        self.ctx.trace_str(&format!("{receipt:?}"));
        // --- provenance prefix
        let child_len = self.plen(child_wl);
        if child_len != t + 1 {
            bail!("fork_prefix_differs", "op#{oi}: child history has {child_len} entries, fork tick {t} (expected {})", t + 1);
        }
        let pe = self.entries(self.parent.wl, 0, t + 1)?;
        let ce = self.entries(child_wl, 0, t + 1)?;
        for (p, c) in pe.iter().zip(ce.iter()) {
            let mut exp = p.clone();
            exp.worldline_id = child_wl;
            if let Some(h) = exp.head_key.as_mut() {
                if h.worldline_id == self.parent.wl {
                    h.worldline_id = child_wl;
                }
            }
            for par in &mut exp.parents {
                if par.worldline_id == self.parent.wl {
                    par.worldline_id = child_wl;
                }
            }
            if exp != *c {
                let what = if exp.expected != c.expected {
                    "hash triplet"
                } else if exp.patch != c.patch {
                    "patch"
                } else if exp.head_key != c.head_key {
                    "head key"
                } else if exp.parents != c.parents {
                    "parents"
                } else {
                    "other field"
                };
                bail!("fork_prefix_differs", "op#{oi}: child entry {} differs from the parent's in {what}", p.worldline_tick.as_u64());
            }
        }
        // --- receipt = provenance facts at the fork coordinate
        let basis = &pe[t as usize];
        let b = receipt.fork_basis_ref;
        let facts_ok = receipt.strand_id == sid
            && receipt.child_worldline_id == child_wl
            && receipt.writer_heads == vec![child_head_key]
            && receipt.retention_posture == good_posture
            && b.source_lane_id == self.parent.wl
            && b.fork_tick.as_u64() == t
            && b.commit_hash == basis.expected.commit_hash
            && b.boundary_hash == basis.expected.state_root
            && b.provenance_ref == basis.as_ref()
            && self.parent.roots.get(t as usize) == Some(&b.boundary_hash)
            && self.parent.commits.get(t as usize).copied().flatten().is_none_or(|c| c == b.commit_hash);
        if !facts_ok {
            bail!("fork_receipt_mismatch", "op#{oi}: receipt {receipt:?} vs provenance entry {:?} / recorded root {:?}", basis.as_ref(), self.parent.roots.get(t as usize));
        }
        match self.w.runtime.strands().get(&sid) {
            Some(s) if s.fork_basis_ref() == b && s.child_worldline_id() == child_wl && s.writer_heads() == [child_head_key] && s.support_pins().is_empty() && s.retention_posture() == good_posture => {}
            other => bail!("fork_receipt_mismatch", "op#{oi}: registered strand {other:?} disagrees with receipt"),
        }
        // --- heads
        let heads_after: BTreeSet<WriterHeadKey> = self.w.runtime.heads().iter().map(|(k, _)| *k).collect();
        let new_heads: Vec<WriterHeadKey> = heads_after.difference(&heads_before).copied().collect();
        if new_heads != vec![child_head_key] || heads_before.contains(&child_head_key) || child_head_key.worldline_id != child_wl || self.parent_heads.contains(&child_head_key) || !heads_before.is_subset(&heads_after) {
            bail!("fork_shares_head", "op#{oi}: heads added by the fork: {new_heads:?}; child head {child_head_key:?}");
        }
        for k in &heads_after {
            if k.worldline_id == child_wl && *k != child_head_key {
                bail!("fork_shares_head", "op#{oi}: foreign head {k:?} on the child worldline");
            }
        }
        // --- child frontier = recorded parent state at the fork tick
        let Some(front) = self.w.runtime.worldlines().get(&child_wl) else { bail!("fork_state_differs", "op#{oi}: child worldline not registered") };
        let child_root = front.state().state_root();
        let child_tick = front.frontier_tick().as_u64();
        let child_abs = abs(front.state().warp_state(), &warps());
        if child_tick != t + 1 || Some(&child_root) != self.parent.roots.get(t as usize) {
            bail!("fork_state_differs", "op#{oi}: child frontier tick {child_tick} root {} vs parent tick {t} root {:?}", hex::encode(child_root), self.parent.roots.get(t as usize).map(hex::encode));
        }
        if let Some(a) = self.parent.abs_at.get(&(t + 1)) {
            if *a != child_abs {
                bail!("fork_state_differs", "op#{oi}: child abstract state differs from the parent's state after tick {t}");
            }
        }
        // --- nobody else moved
        let mut lane = Lane { wl: child_wl, roots: self.parent.roots[..=(t as usize)].to_vec(), commits: self.parent.commits[..=(t as usize)].to_vec(), abs_at: BTreeMap::new(), digest: [0; 32] };
        lane.abs_at.insert(t + 1, child_abs);
        self.check_idle_lanes(&BTreeSet::new(), "fork", oi)?;
        lane.digest = self.lane_digest(child_wl);
        if self.settlements_done > 0 {
            self.ctx.hit("reach.refork_after_settlement");
        }
        self.ctx.hit(&format!("reach.fork_at_tick.{}", t.min(6)));
        if t + 1 < parent_len {
            self.ctx.hit("reach.fork_below_tip");
        }
        self.ctx.hit(if f.shared { "reach.fork_posture.shared" } else { "reach.fork_posture.author_only" });
        if !matches!(basis.event_kind, ProvenanceEventKind::LocalCommit) {
            self.ctx.hit("reach.fork_at_settlement_entry");
        }
        self.strands.insert(f.id, StrandInfo { sid, lane, head: child_head_key, fork_tick: t, shared: f.shared, receipt, child_ticked: false, parent_ticked: false, pins: BTreeSet::new() });
        if self.strands.len() >= 2 {
            self.ctx.hit("reach.multiple_strands");
        }
        Ok(())
    }

    fn faulty_fork(&mut self, oi: usize, f: &ForkOp, fault: ForkFault, t: u64, parent_len: u64, good: RetentionPosture) -> Res<()> {
        let other = self.strands.iter().next().map(|(_, s)| (s.sid, s.lane.wl));
        // fall back to a kind that is possible in the current world
        let fault = match (fault, other) {
            (ForkFault::DupStrandId, None) => ForkFault::BadPosture,
            (x, _) => x,
        };
        let mut sid = make_strand_id(&format!("verif/s{}", f.id));
        let mut child_wl = wl_id(CHILD_WL_BASE + f.id);
        let mut heads = vec![Self::child_head(f.id)];
        let mut post = good;
        let mut tick = t;
        let late = match fault {
            ForkFault::DupStrandId => {
                if let Some((s, _)) = other {
                    sid = s;
                }
                true
            }
            ForkFault::BadPosture => {
                match posture(true) {
                    Ok(mut p) => {
                        p.admission_scope = None;
                        post = p;
                    }
                    Err(e) => bail!("harness:posture_construction", "{e}"),
                }
                true
            }
            ForkFault::WrongHeadWorldline => {
                let key = WriterHeadKey { worldline_id: self.parent.wl, head_id: warp_core::make_head_id("verif/wrong-lane") };
                heads = vec![WriterHead::with_routing(key, PlaybackMode::Play, InboxPolicy::AcceptAll, None, false)];
                true
            }
            ForkFault::TwoHeads => {
                heads.push(WriterHead::with_routing(head_key(CHILD_WL_BASE + f.id, 1), PlaybackMode::Play, InboxPolicy::AcceptAll, None, false));
                true
            }
            ForkFault::NoHeads => {
                heads.clear();
                true
            }
            ForkFault::DupChildWorldline => {
                child_wl = other.map_or(self.parent.wl, |(_, w)| w);
                heads = vec![WriterHead::with_routing(WriterHeadKey { worldline_id: child_wl, head_id: warp_core::make_head_id("verif/dup-lane") }, PlaybackMode::Play, InboxPolicy::AcceptAll, None, false)];
                false
            }
            ForkFault::TickOutOfRange => {
                tick = parent_len + u64::from(f.tick_sel % 3);
                false
            }
        };
        let request = ForkStrandRequest { strand_id: sid, source_lane_id: self.parent.wl, fork_tick: WorldlineTick::from_raw(tick), child_worldline_id: child_wl, writer_heads: heads, retention_posture: post };
        let snap = Snap::take(&self.w);
        let w = &mut self.w;
        let res = catch(|| w.runtime.fork_strand(&mut w.provenance, request));
        match res {
            Err(p) => bail!("fork_panicked", "op#{oi}: faulty request {fault:?}: {p}"),
            Ok(Ok(r)) => bail!(format!("faulty_fork_accepted:{fault:?}"), "op#{oi}: request with {fault:?} was accepted: {r:?}"),
            Ok(Err(e)) => {
                self.ctx.trace_str(&format!("{e:?}"));
                self.ctx.hit(if late { "fault.fork_late_failure" } else { "fault.fork_early_rejection" });
                self.ctx.hit(&format!("reach.fork_fault.{fault:?}"));
            }
        }
        if let Some(d) = snap.changed(&self.w) {
            bail!(format!("failed_fork_left_changes:{d}"), "op#{oi}: rejected fork ({fault:?}) changed {d}");
        }
        Ok(())
    }

    // ------------------------------------------------------------------ Pins

    fn pin(&mut self, oi: usize, owner: u8, target: u8, tick_sel: u16) -> Res<()> {
        let (Some(o), Some(tg)) = (self.strands.get(&owner), self.strands.get(&target)) else { return Ok(()) };
        let (osid, tsid, twl) = (o.sid, tg.sid, tg.lane.wl);
        let tlen = self.plen(twl);
        if tlen == 0 {
            return Ok(());
        }
        let tick = u64::from(tick_sel) % tlen;
        let already = o.pins.contains(&target);
        let exp_root = tg.lane.roots.get(tick as usize).copied();
        let w = &mut self.w;
        let res = catch(|| w.runtime.pin_support(&w.provenance, osid, tsid, WorldlineTick::from_raw(tick)));
        match res {
            Err(p) => bail!("pin_panicked", "op#{oi}: {p}"),
            Ok(Ok(pin)) => {
                if owner == target || already {
                    bail!("unlawful_support_pin_accepted", "op#{oi}: owner {owner} target {target} already pinned: {already}");
                }
                if pin.strand_id != tsid || pin.worldline_id != twl || pin.pinned_tick.as_u64() != tick || Some(pin.state_hash) != exp_root {
                    bail!("support_pin_mismatch", "op#{oi}: {pin:?} vs recorded root {:?}", exp_root.map(hex::encode));
                }
                if let Some(o) = self.strands.get_mut(&owner) {
                    o.pins.insert(target);
                }
                self.ctx.hit("reach.support_pin_added");
            }
            Ok(Err(e)) => {
                if owner != target && !already {
                    bail!(format!("support_pin_rejected:{}", err_kind(&e)), "op#{oi}: {e:?}");
                }
                self.ctx.hit("reach.support_pin_refused");
            }
        }
        self.check_idle_lanes(&BTreeSet::new(), "pin", oi)
    }

    fn unpin(&mut self, oi: usize, owner: u8, target: u8) -> Res<()> {
        let (Some(o), Some(tg)) = (self.strands.get(&owner), self.strands.get(&target)) else { return Ok(()) };
        let (osid, tsid) = (o.sid, tg.sid);
        let pinned = o.pins.contains(&target);
        let w = &mut self.w;
        let res = catch(|| w.runtime.unpin_support(osid, tsid));
        match res {
            Err(p) => bail!("pin_panicked", "op#{oi}: {p}"),
            Ok(Ok(_)) if pinned => {
                if let Some(o) = self.strands.get_mut(&owner) {
                    o.pins.remove(&target);
                }
                self.ctx.hit("reach.support_pin_removed");
            }
            Ok(Ok(p)) => bail!("support_pin_mismatch", "op#{oi}: unpin returned {p:?} although nothing was pinned"),
            Ok(Err(e)) if pinned => bail!(format!("support_unpin_rejected:{}", err_kind(&e)), "op#{oi}: {e:?}"),
            Ok(Err(_)) => {}
        }
        Ok(())
    }

    // ------------------------------------------------------------------ Settle

    fn settle(&mut self, oi: usize, op: &SettleOp) -> Res<()> {
        let Some(info) = self.strands.get(&op.strand) else { return Ok(()) };
        let (sid, child_wl, t, shared) = (info.sid, info.lane.wl, info.fork_tick, info.shared);
        let basis = info.receipt.fork_basis_ref;
        let parent_wl = self.parent.wl;
        let policy = if op.plural { SettlementPolicy::allow_plural_over_footprint_overlap([0x5A; 32]) } else { SettlementPolicy::default() };
        let plain = op.plain_api && !op.plural;

        let snap = Snap::take(&self.w);
        let pre_len = self.plen(parent_wl);
        let child_len = self.plen(child_wl);
        let suffix_len = child_len.saturating_sub(t + 1);

        // ---- compare (allowed for every posture)
        let w = &self.w;
        let delta = match catch(|| SettlementService::compare(&w.runtime, &w.provenance, sid)) {
            Err(p) => bail!("settlement_panicked", "op#{oi}: compare: {p}"),
            Ok(Err(e)) => bail!(format!("compare_failed:{}", err_kind(&e)), "op#{oi}: {e:?}"),
            Ok(Ok(d)) => d,
        };
        if delta.fork_basis_ref != basis || delta.source_lane_id != child_wl || delta.strand_id != sid {
            bail!("fork_basis_changed", "op#{oi}: compare reports basis {:?}, fork receipt said {basis:?}", delta.fork_basis_ref);
        }
        let child_entries = self.entries(child_wl, t + 1, child_len)?;
        let suffix_refs: Vec<_> = child_entries.iter().map(ProvenanceEntry::as_ref).collect();
        if delta.source_entries != suffix_refs {
            bail!("compare_suffix_mismatch", "op#{oi}: compare lists {} entries, child suffix has {suffix_len}", delta.source_entries.len());
        }

        // ---- plan twice
        let plan_once = |w: &World| -> Result<Result<SettlementPlan, SettlementError>, String> {
            catch(|| if plain { SettlementService::plan(&w.runtime, &w.provenance, sid) } else { SettlementService::plan_with_policy(&w.runtime, &w.provenance, sid, &policy) })
        };
        let p1 = plan_once(&self.w);
        let p2 = plan_once(&self.w);
        let side = snap.changed(&self.w);
        if let Some(d) = side {
            bail!(format!("plan_has_side_effects:{d}"), "op#{oi}: compare/plan changed {d}");
        }
        let (p1, p2) = match (p1, p2) {
            (Err(p), _) | (_, Err(p)) => bail!("settlement_panicked", "op#{oi}: plan: {p}"),
            (Ok(a), Ok(b)) => (a, b),
        };
        if !shared {
            // settlement admits shared strands only: plan and settle must refuse and change nothing
            if !matches!(p1, Err(SettlementError::NonSharedStrand { .. })) {
                bail!("non_shared_strand_planned", "op#{oi}: plan of an author-only strand returned {:?}", p1.map(|p| p.decisions.len()));
            }
            let w = &mut self.w;
            let r = catch(|| SettlementService::settle_with_policy(&mut w.runtime, &mut w.provenance, sid, &policy));
            match r {
                Err(p) => bail!("settlement_panicked", "op#{oi}: {p}"),
                Ok(Ok(_)) => bail!("non_shared_strand_settled", "op#{oi}: author-only strand was settled"),
                Ok(Err(SettlementError::NonSharedStrand { .. })) => {}
                Ok(Err(e)) => bail!("non_shared_strand_settled", "op#{oi}: unexpected refusal {e:?}"),
            }
            let side = snap.changed(&self.w);
            if let Some(d) = side {
                bail!(format!("failed_settlement_left_changes:{d}"), "op#{oi}: refused settlement of an author-only strand changed {d}");
            }
            self.ctx.hit("reach.non_shared_settlement_refused");
            return Ok(());
        }
        let plan = match (p1, p2) {
            (Ok(a), Ok(b)) => {
                if a != b || format!("{a:?}") != format!("{b:?}") {
                    bail!("plan_not_deterministic", "op#{oi}: two plans differ:\n{a:?}\n{b:?}");
                }
                a
            }
            (Err(e), _) | (_, Err(e)) => bail!(format!("plan_failed:{}", err_kind(&e)), "op#{oi}: {e:?}"),
        };
        self.ctx.trace_str(&format!("{plan:?}"));
        let n = plan.decisions.len();
        let dec_refs: Vec<_> = plan
            .decisions
            .iter()
            .map(|d| match d {
                SettlementDecision::ImportCandidate(c) => c.source_ref,
                SettlementDecision::ConflictArtifact(c) => c.source_ref,
                SettlementDecision::PluralAlternative(c) => c.source_ref,
            })
            .collect();
        if dec_refs != suffix_refs || plan.target_worldline != parent_wl || plan.strand_id != sid || plan.target_base_ref != basis.provenance_ref {
            bail!("plan_entries_mismatch", "op#{oi}: plan decides {dec_refs:?}, suffix is {suffix_refs:?}");
        }
        if !op.plural && plan.decisions.iter().any(|d| matches!(d, SettlementDecision::PluralAlternative(_))) {
            bail!("plural_decision_under_refusing_policy", "op#{oi}: {:?}", plan.decisions);
        }
        // The plural policy decides *how* a contended entry is retained (plural alternative instead of
        // conflict artifact), never *what* reaches the parent: both policies must import the same
        // entries from the same state.
        {
            let other = if op.plural { SettlementPolicy::default() } else { SettlementPolicy::allow_plural_over_footprint_overlap([0x5A; 32]) };
            let w = &self.w;
            match catch(|| SettlementService::plan_with_policy(&w.runtime, &w.provenance, sid, &other)) {
                Err(p) => bail!("settlement_panicked", "op#{oi}: plan under the other policy: {p}"),
                Ok(Err(_)) => self.ctx.hit("reach.other_policy_plan_refused"),
                Ok(Ok(o)) => {
                    let imports = |p: &SettlementPlan| -> Vec<_> {
                        p.decisions.iter().filter_map(|d| if let SettlementDecision::ImportCandidate(c) = d { Some(c.source_ref) } else { None }).collect()
                    };
                    if imports(&plan) != imports(&o) {
                        bail!("policies_disagree_on_imports", "op#{oi}: the plural and the default policy import different entries from the same state:\n{:?}\n{:?}", plan.decisions, o.decisions);
                    }
                    self.ctx.hit("reach.both_policies_planned");
                    if plan.decisions.len() >= 2 && plan.decisions.iter().any(|d| matches!(d, SettlementDecision::PluralAlternative(_))) {
                        self.ctx.hit("reach.plural_decision_in_multi_entry_suffix");
                    }
                }
            }
            if let Some(d) = snap.changed(&self.w) {
                bail!(format!("plan_has_side_effects:{d}"), "op#{oi}: plan under the other policy changed {d}");
            }
        }

        // ---- facts before execution
        let Some(pre_abs) = self.abs_wl(parent_wl) else { bail!("internal", "parent missing") };
        let parent_suffix = self.entries(parent_wl, t + 1, pre_len)?;
        let mut p_changed: BTreeSet<SlotId> = BTreeSet::new();
        for e in &parent_suffix {
            if let Some(p) = &e.patch {
                p_changed.extend(p.out_slots.iter().copied());
            }
        }
        let p_out = p_changed.clone();
        let basis_abs = self.strands[&op.strand].lane.abs_at.get(&(t + 1)).cloned();
        if let Some(b) = &basis_abs {
            p_changed.extend(changed_slots(b, &pre_abs));
        }
        let mut f_in: BTreeSet<SlotId> = BTreeSet::new();
        let mut f_out: BTreeSet<SlotId> = BTreeSet::new();
        for e in &child_entries {
            if let Some(p) = &e.patch {
                f_in.extend(p.in_slots.iter().copied());
                f_out.extend(p.out_slots.iter().copied());
            }
        }
        let at_anchor = pre_len == t + 1;
        let closed: BTreeSet<SlotId> = f_in.union(&f_out).copied().collect();
        let disjoint = p_changed.intersection(&closed).next().is_none();
        let shells_before = self.w.provenance.braid_shells().count();
        let both_ticked = self.strands[&op.strand].child_ticked && self.strands[&op.strand].parent_ticked;
        if n >= 1 && both_ticked {
            self.nontrivial = true;
        }

        // ---- would the settlement succeed without a fault? (dry run on copies, only when faults are planned)
        // A settlement may be refused as a whole (e.g. a retained plural artifact of an earlier
        // settlement of the same strand is already bound to its shell); failures are injected only
        // into settlements that succeed on their own.
        let mut dry: Option<warp_core::SettlementResult> = None;
        let mut inject = n >= 1 && !op.fail_steps.is_empty();
        if inject {
            warp_core::verif::clear_fail_points();
            let mut rt = self.w.runtime.clone();
            let mut pv = self.w.provenance.clone();
            let r = catch(|| if plain { SettlementService::settle(&mut rt, &mut pv, sid) } else { SettlementService::settle_with_policy(&mut rt, &mut pv, sid, &policy) });
            let visits = warp_core::verif::fail_point_visits(SITE);
            warp_core::verif::clear_fail_points();
            match r {
                Err(p) => bail!("settlement_panicked", "op#{oi}: {p}"),
                Ok(Ok(res)) => {
                    if visits != n as u64 + 1 {
                        bail!("harness:fail_point_visits", "op#{oi}: {visits} visits of the fail point for {n} decisions");
                    }
                    dry = Some(res);
                }
                Ok(Err(_)) => inject = false,
            }
        }

        // ---- injected failures, one settle attempt each
        let mut injected = 0u32;
        if inject {
            for k in &op.fail_steps {
                let nth = u64::from(*k) % (n as u64 + 1) + 1;
                warp_core::verif::clear_fail_points();
                warp_core::verif::arm_fail_point(SITE, nth);
                let w = &mut self.w;
                let r = catch(|| if plain { SettlementService::settle(&mut w.runtime, &mut w.provenance, sid) } else { SettlementService::settle_with_policy(&mut w.runtime, &mut w.provenance, sid, &policy) });
                let visits = warp_core::verif::fail_point_visits(SITE);
                warp_core::verif::clear_fail_points();
                match r {
                    Err(p) => bail!("settlement_panicked", "op#{oi}: with failure at step {nth}: {p}"),
                    Ok(Ok(_)) => bail!("harness:fail_point_did_not_fire", "op#{oi}: armed step {nth} of {} but settle succeeded after {visits} visits", n + 1),
                    Ok(Err(e)) => {
                        if visits != nth {
                            bail!("harness:fail_point_visits", "op#{oi}: armed step {nth}, settle failed after {visits} visits with {e:?}");
                        }
                    }
                }
                injected += 1;
                self.nontrivial = true;
                let key = if nth == n as u64 + 1 { "fault.settlement_failpoint.shell_step".to_owned() } else if nth >= 5 { "fault.settlement_failpoint.step5plus".to_owned() } else { format!("fault.settlement_failpoint.step{nth}") };
                self.ctx.hit(&key);
                if self.w.provenance.braid_shells().count() != shells_before {
                    bail!("shell_retained_after_failed_settlement", "op#{oi}: failure at step {nth} of {}: {} shells before, {} after", n + 1, shells_before, self.w.provenance.braid_shells().count());
                }
                if let Some(d) = snap.changed(&self.w) {
                    bail!(format!("failed_settlement_left_changes:{d}"), "op#{oi}: failure at step {nth} of {}: {d} differ from their pre-settlement values", n + 1);
                }
            }
        }

        // ---- the settlement itself
        warp_core::verif::clear_fail_points();
        let w = &mut self.w;
        let r = catch(|| if plain { SettlementService::settle(&mut w.runtime, &mut w.provenance, sid) } else { SettlementService::settle_with_policy(&mut w.runtime, &mut w.provenance, sid, &policy) });
        let visits = warp_core::verif::fail_point_visits(SITE);
        warp_core::verif::clear_fail_points();
        let result = match r {
            Err(p) => bail!("settlement_panicked", "op#{oi}: {p}"),
            Ok(Err(e)) if injected > 0 => bail!(format!("settlement_failed_after_injected_failure:{}", err_kind(&e)), "op#{oi}: the same settlement succeeded on a copy before {injected} failures were injected and rolled back; now: {e:?}"),
            Ok(Err(e)) => {
                // refused as a whole: all-or-nothing
                self.ctx.hit(&format!("reach.settlement_refused.{}", err_kind(&e)));
                self.ctx.trace_str(&format!("{e:?}"));
                if self.w.provenance.braid_shells().count() != shells_before {
                    bail!("shell_retained_after_failed_settlement", "op#{oi}: refused settlement ({e:?}) retained a shell");
                }
                let side = snap.changed(&self.w);
                if let Some(d) = side {
                    bail!(format!("failed_settlement_left_changes:{d}"), "op#{oi}: refused settlement ({e:?}) changed {d}");
                }
                return Ok(());
            }
            Ok(Ok(r)) => r,
        };
        if let Some(d) = &dry {
            if *d != result {
                bail!("settlement_differs_after_injected_failure", "op#{oi}: result on a copy before the injected failures\n{d:?}\nresult afterwards\n{result:?}");
            }
        }
        self.ctx.trace_str(&format!("{result:?}"));
        self.ctx.count("time.settlements", 1);
        self.settlements_done += 1;
        if result.plan != plan {
            bail!("settle_plan_differs_from_plan", "op#{oi}: planned\n{plan:?}\nexecuted\n{:?}", result.plan);
        }
        let expect_visits = if n == 0 { 0 } else { n as u64 + 1 };
        if visits != expect_visits {
            bail!("harness:fail_point_visits", "op#{oi}: {visits} visits of the fail point for {n} decisions");
        }
        let (mut ni, mut nc, mut npl) = (0usize, 0usize, 0usize);
        for d in &plan.decisions {
            match d {
                SettlementDecision::ImportCandidate(_) => ni += 1,
                SettlementDecision::ConflictArtifact(_) => nc += 1,
                SettlementDecision::PluralAlternative(_) => npl += 1,
            }
        }
        self.ctx.count("reach.decision.import", ni as u64);
        self.ctx.count("reach.decision.conflict", nc as u64);
        self.ctx.count("reach.decision.plural", npl as u64);
        self.ctx.hit(if op.plural { "reach.policy.plural" } else { "reach.policy.default" });
        let post_len = self.plen(parent_wl);
        if result.appended_imports.len() != ni || result.appended_conflicts.len() != nc || result.appended_plurals.len() != npl || post_len != pre_len + n as u64 || result.braid_shell.is_some() != (n > 0) {
            bail!("settlement_result_mismatch", "op#{oi}: decisions {ni}/{nc}/{npl}, result {}/{}/{}; parent history {pre_len} -> {post_len}; shell {:?}", result.appended_imports.len(), result.appended_conflicts.len(), result.appended_plurals.len(), result.braid_shell.map(hex::encode));
        }
        let Some(post_abs) = self.abs_wl(parent_wl) else { bail!("internal", "parent missing") };

        // ---- overlap shape (reach)
        if n >= 1 {
            if at_anchor {
                self.ctx.hit("reach.overlap.parent_at_anchor");
            } else if disjoint {
                self.ctx.hit("reach.overlap.disjoint");
            } else {
                let tip_abs = self.strands[&op.strand].lane.abs_at.get(&child_len);
                let w_over: Vec<&SlotId> = p_changed.intersection(&f_out).collect();
                if w_over.is_empty() {
                    self.ctx.hit("reach.overlap.read");
                } else if let Some(tip) = tip_abs {
                    if w_over.iter().all(|s| slot_value(tip, s) == slot_value(&pre_abs, s)) {
                        self.ctx.hit("reach.overlap.write_same");
                    } else {
                        self.ctx.hit("reach.overlap.write_diff");
                    }
                }
            }
            match &plan.basis_report.parent_revalidation {
                StrandRevalidationState::AtAnchor => self.ctx.hit("reach.basis.at_anchor"),
                StrandRevalidationState::ParentAdvancedDisjoint { .. } => self.ctx.hit("reach.basis.advanced_disjoint"),
                StrandRevalidationState::RevalidationRequired { .. } => self.ctx.hit("reach.basis.revalidation_required"),
            }
        }

        // ---- never-overwrite
        for s in &p_changed {
            let (a, b) = (slot_value(&pre_abs, s), slot_value(&post_abs, s));
            if a != b {
                let how = if p_out.contains(s) { "declared parent write" } else { "parent state change" };
                // which imported entries touched the slot, and did they declare it?
                let mut culprits = Vec::new();
                let mut undeclared = false;
                for (i, (e, d)) in child_entries.iter().zip(plan.decisions.iter()).enumerate() {
                    if !matches!(d, SettlementDecision::ImportCandidate(_)) {
                        continue;
                    }
                    if let Some(p) = &e.patch {
                        let ops: Vec<String> = p.ops.iter().filter(|o| op_targets(o).contains(s)).map(|o| err_kind(o)).collect();
                        if !ops.is_empty() {
                            undeclared |= !p.out_slots.contains(s) && !p.in_slots.contains(s);
                            culprits.push(format!("suffix entry {i} ({}): ops {ops:?} reach the slot, slot in out_slots: {}, in in_slots: {}", err_kind(d), p.out_slots.contains(s), p.in_slots.contains(s)));
                        }
                    }
                }
                // Narrow shapes. An imported entry reaches the slot through its ops although the slot is in
                // neither slot set of its patch (so no overlap was seen for that entry and it was imported
                // without revalidation): (1) the attachment of an edge that the imported tick re-created
                // (state diff records a re-parent / retarget as DeleteEdge + UpsertEdge, whose mini-cascade
                // reaches the edge attachment although an UpsertEdge rule never declares it); (2) anything else.
                let recreated_edge_att = match s {
                    SlotId::Attachment(key) => match key.owner {
                        warp_core::AttachmentOwner::Edge(ek) => child_entries.iter().zip(plan.decisions.iter()).any(|(e, d)| {
                            matches!(d, SettlementDecision::ImportCandidate(_))
                                && e.patch.as_ref().is_some_and(|p| {
                                    p.ops.iter().any(|o| matches!(o, warp_core::WarpOp::DeleteEdge { edge_id, .. } if *edge_id == ek.local_id)) && p.ops.iter().any(|o| matches!(o, warp_core::WarpOp::UpsertEdge { record, .. } if record.id == ek.local_id))
                                })
                        }),
                        warp_core::AttachmentOwner::Node(_) => false,
                    },
                    _ => false,
                };
                let class = if !undeclared {
                    "import_overwrote_parent_change"
                } else if recreated_edge_att {
                    "import_overwrote_parent_change:attachment_of_recreated_edge_outside_footprint"
                } else {
                    "import_overwrote_parent_change:slot_outside_entry_footprint"
                };
                bail!(class, "op#{oi}: slot {} ({how} since the fork) was {a:?} before settlement and is {b:?} afterwards; basis posture {}; {}", short_slot(s), err_kind(&plan.basis_report.parent_revalidation), culprits.join("; "));
            }
        }
        // ---- imported entries: the parent holds the strand's values
        let imported: Vec<bool> = plan.decisions.iter().map(|d| matches!(d, SettlementDecision::ImportCandidate(_))).collect();
        let k = imported.iter().take_while(|x| **x).count();
        let prefix_only = imported.iter().skip(k).all(|x| !*x);
        if !prefix_only {
            self.ctx.hit("reach.import_after_retained_artifact");
        }
        let lane_abs = &self.strands[&op.strand].lane.abs_at;
        for (i, e) in child_entries.iter().enumerate() {
            if !imported[i] {
                continue;
            }
            let Some(patch) = &e.patch else { continue };
            let targets: BTreeSet<SlotId> = patch.ops.iter().flat_map(op_targets).collect();
            // (a) an imported entry must not carry a different value for a parent-changed slot
            if let Some(after_entry) = lane_abs.get(&(t + 1 + i as u64 + 1)) {
                for s in targets.intersection(&p_changed) {
                    let (cv, pv) = (slot_value(after_entry, s), slot_value(&pre_abs, s));
                    if cv != pv {
                        bail!("conflicting_entry_imported", "op#{oi}: suffix entry {i} writes {cv:?} to {}, which the parent changed to {pv:?} since the fork, and was planned as an import", short_slot(s));
                    }
                }
            }
            // (b) after settlement the parent holds the strand's value of every slot the imported prefix wrote
            if prefix_only {
                if let Some(after_prefix) = lane_abs.get(&(t + 1 + k as u64)) {
                    for s in &targets {
                        let (cv, pv) = (slot_value(after_prefix, s), slot_value(&post_abs, s));
                        if cv != pv {
                            bail!("imported_value_missing", "op#{oi}: suffix entry {i} was imported; slot {} is {cv:?} on the strand after the imported prefix but {pv:?} on the parent after settlement", short_slot(s));
                        }
                    }
                }
            }
        }
        // ---- disjoint / unmoved parent: everything applicable is imported
        if at_anchor {
            if k != n {
                bail!("disjoint_entry_not_imported", "op#{oi}: parent did not move since the fork but suffix entry {k} was not imported: {:?}", plan.decisions[k]);
            }
            if n >= 1 {
                let tip = lane_abs.get(&child_len);
                let child_root = self.strands[&op.strand].lane.roots.last().copied();
                let parent_root = self.w.runtime.worldlines().get(&parent_wl).map(|f| f.state().state_root());
                if tip.is_some_and(|a| *a != post_abs) || child_root != parent_root {
                    bail!("unmoved_parent_diverges_from_strand", "op#{oi}: parent was at the anchor, all {n} entries imported, but parent root {:?} != strand root {:?}", parent_root.map(hex::encode), child_root.map(hex::encode));
                }
            }
        } else if disjoint && k != n {
            // the first entry that is not imported must be inapplicable to the parent per the reference applier
            let mut sim = pre_abs.clone();
            let mut excused = false;
            for (i, e) in child_entries.iter().enumerate() {
                let ops = e.patch.as_ref().map(|p| p.ops.clone()).unwrap_or_default();
                let applies = sim.apply_ops(&ops).is_ok();
                if i == k {
                    excused = !applies;
                    break;
                }
                if !applies {
                    break;
                }
            }
            if !excused {
                bail!("disjoint_entry_not_imported", "op#{oi}: parent movement {:?} is disjoint from the strand footprint, suffix entry {k} applies to the parent per the reference applier, but it was planned as {:?}", p_changed.iter().map(short_slot).collect::<Vec<_>>(), plan.decisions[k]);
            }
            self.ctx.hit("reach.disjoint_entry_inapplicable");
        }
        // ---- the parent stays verifiable from its own history
        {
            let Some(front) = self.w.runtime.worldlines().get(&parent_wl) else { bail!("internal", "parent missing") };
            let live_root = front.state().state_root();
            let prov = &self.w.provenance;
            match catch(|| prov.replay_worldline_state(parent_wl, front.state())) {
                Err(p) => bail!("parent_not_replayable_after_settlement", "op#{oi}: replay panicked: {p}"),
                Ok(Err(e)) => bail!("parent_not_replayable_after_settlement", "op#{oi}: {e:?}"),
                Ok(Ok(st)) => {
                    if st.state_root() != live_root || abs(st.warp_state(), &warps()) != post_abs || st.current_tick().as_u64() != post_len {
                        bail!("parent_not_replayable_after_settlement", "op#{oi}: replay from U0 gives root {} tick {}, live parent has root {} tick {post_len}", hex::encode(st.state_root()), st.current_tick().as_u64(), hex::encode(live_root));
                    }
                }
            }
            if front.frontier_tick().as_u64() != post_len {
                bail!("settlement_result_mismatch", "op#{oi}: parent frontier {} but history length {post_len}", front.frontier_tick().as_u64());
            }
        }
        // ---- bookkeeping: the parent moved, nobody else did
        let appended = self.entries(parent_wl, pre_len, post_len)?;
        for (e, d) in appended.iter().zip(plan.decisions.iter()) {
            let kind_ok = matches!(
                (&e.event_kind, d),
                (ProvenanceEventKind::MergeImport { .. }, SettlementDecision::ImportCandidate(_)) | (ProvenanceEventKind::ConflictArtifact { .. }, SettlementDecision::ConflictArtifact(_)) | (ProvenanceEventKind::PluralArtifact { .. }, SettlementDecision::PluralAlternative(_))
            );
            if !kind_ok {
                bail!("settlement_result_mismatch", "op#{oi}: appended entry {:?} for decision {d:?}", e.event_kind);
            }
            self.parent.roots.push(e.expected.state_root);
            self.parent.commits.push(None);
        }
        self.parent.abs_at.insert(post_len, post_abs);
        let mut moved = BTreeSet::new();
        moved.insert(0u8);
        self.check_idle_lanes(&moved, "settle", oi)?;
        self.refresh_digest(0);
        if n >= 1 {
            for s in self.strands.values_mut() {
                s.parent_ticked = true;
            }
        }
        if injected > 0 {
            self.ctx.hit("reach.settled_after_injected_failure");
        }
        let _ = self.strands[&op.strand].head;
        Ok(())
    }
}
