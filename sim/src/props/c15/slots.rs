//! Slot helpers for the C15 oracle: the value of a `SlotId` in an abstract state, the slots an op
//! sets, and the slots whose value differs between two abstract states. Written against
//! `RefState` only (no storage layout, no code under test).

use std::collections::BTreeSet;

use warp_core::{AttachmentKey, AttachmentOwner, AttachmentPlane, EdgeKey, NodeKey, SlotId, WarpId, WarpOp};

use crate::model::refstate::{RefAtt, RefState, H};

#[derive(Clone, Debug, PartialEq, Eq)]
pub enum SlotVal {
    Node(Option<H>),
    Edge(Option<(H, H, H)>),
    Att(Option<RefAtt>),
    /// Slot kinds the small universe never produces (ports, off-plane attachments).
    Opaque,
}

pub fn slot_value(st: &RefState, slot: &SlotId) -> SlotVal {
    match slot {
        SlotId::Node(k) => SlotVal::Node(st.inst.get(&k.warp_id.0).and_then(|i| i.nodes.get(&k.local_id.0).copied())),
        SlotId::Edge(k) => SlotVal::Edge(st.inst.get(&k.warp_id.0).and_then(|i| i.edges.get(&k.local_id.0).copied())),
        SlotId::Attachment(key) => match (key.owner, key.plane) {
            (AttachmentOwner::Node(n), AttachmentPlane::Alpha) => SlotVal::Att(st.inst.get(&n.warp_id.0).and_then(|i| i.node_att.get(&n.local_id.0).cloned())),
            (AttachmentOwner::Edge(e), AttachmentPlane::Beta) => SlotVal::Att(st.inst.get(&e.warp_id.0).and_then(|i| i.edge_att.get(&e.local_id.0).cloned())),
            _ => SlotVal::Opaque,
        },
        SlotId::Port(_) => SlotVal::Opaque,
    }
}

/// Slots an op sets (documented write targets, including the mini-cascades of deletes).
pub fn op_targets(op: &WarpOp) -> Vec<SlotId> {
    match op {
        WarpOp::UpsertNode { node, .. } => vec![SlotId::Node(*node)],
        WarpOp::DeleteNode { node } => vec![SlotId::Node(*node), SlotId::Attachment(AttachmentKey::node_alpha(*node))],
        WarpOp::UpsertEdge { warp_id, record } => vec![SlotId::Edge(EdgeKey { warp_id: *warp_id, local_id: record.id })],
        WarpOp::DeleteEdge { warp_id, edge_id, .. } => {
            let k = EdgeKey { warp_id: *warp_id, local_id: *edge_id };
            vec![SlotId::Edge(k), SlotId::Attachment(AttachmentKey::edge_beta(k))]
        }
        WarpOp::SetAttachment { key, .. } => vec![SlotId::Attachment(*key)],
        WarpOp::OpenPortal { key, .. } => vec![SlotId::Attachment(*key)],
        WarpOp::UpsertWarpInstance { .. } | WarpOp::DeleteWarpInstance { .. } => Vec::new(),
    }
}

/// Slots whose value differs between `a` and `b`.
pub fn changed_slots(a: &RefState, b: &RefState) -> BTreeSet<SlotId> {
    let mut out = BTreeSet::new();
    let warps: BTreeSet<H> = a.inst.keys().chain(b.inst.keys()).copied().collect();
    let empty = crate::model::refstate::RefInst::default();
    for w in warps {
        let ia = a.inst.get(&w).unwrap_or(&empty);
        let ib = b.inst.get(&w).unwrap_or(&empty);
        let wid = WarpId(w);
        for n in ia.nodes.keys().chain(ib.nodes.keys()) {
            if ia.nodes.get(n) != ib.nodes.get(n) {
                out.insert(SlotId::Node(NodeKey { warp_id: wid, local_id: warp_core::NodeId(*n) }));
            }
        }
        for e in ia.edges.keys().chain(ib.edges.keys()) {
            if ia.edges.get(e) != ib.edges.get(e) {
                out.insert(SlotId::Edge(EdgeKey { warp_id: wid, local_id: warp_core::EdgeId(*e) }));
            }
        }
        for n in ia.node_att.keys().chain(ib.node_att.keys()) {
            if ia.node_att.get(n) != ib.node_att.get(n) {
                out.insert(SlotId::Attachment(AttachmentKey::node_alpha(NodeKey { warp_id: wid, local_id: warp_core::NodeId(*n) })));
            }
        }
        for e in ia.edge_att.keys().chain(ib.edge_att.keys()) {
            if ia.edge_att.get(e) != ib.edge_att.get(e) {
                out.insert(SlotId::Attachment(AttachmentKey::edge_beta(EdgeKey { warp_id: wid, local_id: warp_core::EdgeId(*e) })));
            }
        }
    }
    out
}
