//! C17 — external actions move once through request, claim and settlement — durably.
//!
//! Sim: the real external-action protocol (`record_external_action_request`,
//! `claim_external_action`, `admit_external_action_settlement`,
//! `reconcile_external_action_settlement_retry`, `observe_external_actions`,
//! `ExternalActionCoordinatorV1::recover`) runs over a simulator-owned `SimWalStore`
//! (`c17/store.rs`) that implements the real `WalStorePort` with a durable line. Clients issue
//! Request / Claim / Settle / Reconcile / Observe operations over 1–6 request ids in the order
//! stored in the scenario; faults (append error, flush error before/after durability, process
//! death at every store call and after every operation, repeated crash-recover cycles) are
//! explicit entries of the scenario's fault plan.
//!
//! Oracle: an independent `Life` state machine per request id, advanced only when the store
//! model says that operation's commit marker reached the durable line (never by asking the code
//! under test), plus a fault-free *twin* coordinator that executes exactly the durable
//! operations (`c17/driver.rs`).
//!
//! Second surface (a quarter of the runs): the same tapes on the real `FilesystemWalStore` in the
//! run's scratch directory, with crash images taken through the I/O-point hook (`c17/fs.rs`).

mod adapter;
mod driver;
mod fs;
mod store;

use serde::{Deserialize, Serialize};

use crate::kernel::{Outcome, PropertySpec, Rng, RunCtx, Scenario, Tier};

pub const SPEC: PropertySpec = PropertySpec {
    id: "C17",
    level: "fault_enumeration",
    rule: "scenario = 1-6 request ids + op tape (Request/StashToken/Claim/StashGrant/Settle/Reconcile/Observe; ~70% next lawful transition of some id, ~30% arbitrary incl. invalid arguments, second claim/settlement with a kept token/grant, conflicting retry) + fault plan keyed by op index (append error at frame k stored or not, flush error before/after durability, process death before/after the frame write, inside the commit flush before/after durability and after the op, surviving part of the un-flushed tail, repeated crash-recover cycles, operations against the poisoned coordinator before recovery) + storage surface (3/4 SimWalStore, 1/4 real FilesystemWalStore with crash images at I/O points incl. torn records); non-trivial = at least one lifecycle durably reached Claimed and at least one fault fired; distinct = hash of (ops, fault plan)",
    quick_runs: 12_000,
    thorough_runs: 500_000,
    real_components: &[
        "warp_core::external_action::{record_external_action_request, claim_external_action, admit_external_action_settlement, reconcile_external_action_settlement_retry, observe_external_actions}",
        "ExternalActionCoordinatorV1::{recover, recorded_request, claim_grant, admitted_settlement, observed_index}",
        "RecoveredExternalActionIndexV1::root_digest (sparse Merkle index, incrementally maintained and rebuilt)",
        "ExternalActionAdapterRegistryV1::authorize",
        "causal_wal::{WalTransactionBuilder, recover_from_frames_and_commits, WalFrame::validate_integrity}",
        "filesystem surface: causal_wal::{FilesystemWalStore (open, acquire_fresh_writer_epoch, append_frame, flush_external_action_commit, read_snapshot), recover_filesystem_store} with verif::install_io_observer crash images",
    ],
    stub_components: &[
        "SimWalStore: WalStorePort (in-memory log with durable line, fault and crash injection)",
        "FsBackend: thin WalStorePort wrapper around the real FilesystemWalStore that injects append/flush errors and takes crash images",
        "twin coordinator always runs on a fault-free SimWalStore",
    ],
    assumptions: &[
        "a commit marker is visible in the store only once its flush reached durability (a failed flush before durability leaves only the un-flushed frame behind)",
        "after a crash or a failed append the caller runs ordinary writable WAL recovery (tail posture from the real scan, truncation through the store) before ExternalActionCoordinatorV1::recover, as ADR 0026 requires; half of the fault entries first try coordinator recovery on the untouched store, which must refuse a visible unclean tail",
        "protocol v1 transactions carry exactly one frame, so 'frame k of a transaction' is frame 0 and the un-flushed tail holds at most one frame",
        "clients (adapters) keep the tokens and grants they were handed across coordinator crashes",
        "filesystem surface: bytes are on disk once the segment file was synced; at a crash none, all or half of the un-synced bytes survive; no crash is injected while writable recovery rewrites the segment (covered by C10)",
    ],
    fault_kinds: &[
        "fault.append_error",
        "fault.flush_error_before_durable",
        "fault.flush_error_after_durable",
        "fault.crash",
        "fault.crash_partial_tail",
    ],
};

#[derive(Clone, Copy, Debug, Serialize, Deserialize, PartialEq, Eq)]
pub enum ReqBad {
    None,
    ZeroBytes,
    ZeroAttempts,
    TwoAttempts,
    HugeBudget,
}

#[derive(Clone, Copy, Debug, Serialize, Deserialize, PartialEq, Eq)]
pub enum SettleBad {
    None,
    /// Candidate names an attempt id nobody was granted.
    WrongAttempt,
    /// Candidate names the attempt granted for another request id.
    OtherIdsAttempt(u8),
    WrongAdapter,
    WrongBasis,
    WrongSchema,
    ZeroSchemaEvidence,
    ZeroExternalEvidence,
    BadDigest,
    /// Candidate names another request id than the grant.
    WrongRequestId(u8),
}

#[derive(Clone, Debug, Serialize, Deserialize, PartialEq, Eq)]
pub enum Op {
    Request { id: u8, bad: ReqBad },
    /// Re-derive the request token from the coordinator and keep it (enables a second claim attempt).
    StashToken { id: u8 },
    Claim { id: u8, adapter: u8, auth_from: Option<u8>, basis_ok: bool, attempt: u32, lease: u8 },
    /// Re-derive the claim grant from the coordinator and keep it (enables a second settlement attempt).
    StashGrant { id: u8 },
    Settle { id: u8, kind: u8, len: u16, salt: u8, bad: SettleBad },
    /// Retry of a settlement candidate; `retained` = resend exactly what was admitted.
    Reconcile { id: u8, retained: bool, kind: u8, len: u16, salt: u8, bad: SettleBad },
    Observe,
}

#[derive(Clone, Copy, Debug, Serialize, Deserialize, PartialEq, Eq)]
pub enum CrashPoint {
    AfterOp,
    BeforeFrame(u32),
    AfterFrame(u32),
    FlushBeforeDurable,
    FlushAfterDurable,
}

#[derive(Clone, Copy, Debug, Serialize, Deserialize, PartialEq, Eq)]
pub enum FaultKind {
    AppendError { frame: u32, stored: bool },
    FlushErrorBeforeDurable,
    FlushErrorAfterDurable,
    /// `keep_tail` = how many un-flushed frames survive; `recrash` = extra crash-recover cycles right after recovery.
    Crash { point: CrashPoint, keep_tail: u32, recrash: u8 },
}

#[derive(Clone, Copy, Debug, Serialize, Deserialize, PartialEq, Eq)]
pub struct Fault {
    pub at_op: u32,
    pub kind: FaultKind,
    /// After a failed append/flush: how many following ops still run against the poisoned coordinator.
    pub linger: u8,
    /// Recovery first tries `ExternalActionCoordinatorV1::recover` on the untouched store (must refuse an unclean tail).
    pub direct_first: bool,
    /// Filesystem surface only: which of the I/O points belonging to the chosen crash phase is hit.
    #[serde(default)]
    pub io_nudge: u8,
}

#[derive(Clone, Copy, Debug, Serialize, Deserialize, PartialEq, Eq, Default)]
pub enum Surface {
    /// Simulator-owned in-memory store with a durable line.
    #[default]
    Memory,
    /// Real `FilesystemWalStore` in the run's scratch directory, crash images through the I/O-point hook.
    Filesystem,
}

#[derive(Clone, Debug, Serialize, Deserialize)]
pub struct C17 {
    pub n_ids: u8,
    /// `max_settlement_bytes` per request id.
    pub budgets: Vec<u16>,
    /// Authority scope index (0/1) per request id.
    pub scope_of: Vec<u8>,
    pub ops: Vec<Op>,
    pub faults: Vec<Fault>,
    /// A crashed process is succeeded by one with a fresh writer epoch.
    pub new_epoch_on_crash: bool,
    #[serde(default)]
    pub surface: Surface,
    /// Avoidance mode for the finding `fs_torn_tail_invisible_to_coordinator_recovery`: when the crash image ends
    /// in torn record bytes, always run ordinary writable WAL recovery before coordinator recovery.
    #[serde(default)]
    pub avoid_torn_direct: bool,
    /// Edict adapter surface (request admission from a compiler artifact + workspace observation
    /// adapter): when set, the run exercises that surface instead of the op tape.
    #[serde(default)]
    pub adapter: Option<adapter::AdapterRun>,
    /// Size-boundary mode: every request declares the 1 MiB v1 ceiling as its settlement budget and
    /// a settlement of generated length `len` carries `1_048_576 - len` bytes (so results sit in the
    /// last few hundred bytes below the ceiling, where record framing overheads matter).
    #[serde(default)]
    pub huge: bool,
}

/// Adapter/scope pairs bound in the runtime-owned registry (adapter 2 is bound nowhere).
pub(crate) fn adapter_bound(adapter: u8, scope: u8) -> bool {
    matches!((adapter, scope), (0, 0) | (1, 0) | (0, 1))
}

impl C17 {
    pub(crate) fn n(&self) -> usize {
        (self.n_ids.max(1) as usize).min(6)
    }
    pub(crate) fn budget(&self, i: usize) -> u16 {
        self.budgets.get(i).copied().unwrap_or(8).max(1)
    }
    pub(crate) fn budget_bytes(&self, i: usize) -> u64 {
        if self.huge {
            1_048_576
        } else {
            u64::from(self.budget(i))
        }
    }
    pub(crate) fn scope(&self, i: usize) -> u8 {
        self.scope_of.get(i).copied().unwrap_or(0) % 2
    }
}

fn allows_durable(k: &FaultKind) -> bool {
    match k {
        FaultKind::AppendError { .. } | FaultKind::FlushErrorBeforeDurable => false,
        FaultKind::FlushErrorAfterDurable => true,
        FaultKind::Crash { point, .. } => matches!(point, CrashPoint::AfterOp | CrashPoint::FlushAfterDurable),
    }
}

/// Result length within the budget; the exact boundary and the empty result are common.
fn gen_len(rng: &mut Rng, budget: u16) -> u16 {
    match rng.below(6) {
        0 => budget,
        1 => 0,
        _ => rng.urange(0, budget as usize) as u16,
    }
}

fn gen_settle_bad(rng: &mut Rng, n: usize) -> SettleBad {
    match rng.below(10) {
        0 => SettleBad::WrongAttempt,
        1 => SettleBad::OtherIdsAttempt(rng.usize_below(n) as u8),
        2 => SettleBad::WrongAdapter,
        3 => SettleBad::WrongBasis,
        4 => SettleBad::WrongSchema,
        5 => SettleBad::ZeroSchemaEvidence,
        6 => SettleBad::ZeroExternalEvidence,
        7 => SettleBad::BadDigest,
        8 => SettleBad::WrongRequestId(rng.usize_below(n) as u8),
        _ => SettleBad::None,
    }
}

impl Scenario for C17 {
    fn generate(rng: &mut Rng, tier: Tier, _avoid_known: bool) -> Self {
        let n = 1 + rng.weighted(&[2, 4, 4, 3, 2, 2]);
        let budgets: Vec<u16> = (0..n).map(|_| rng.urange(1, 24) as u16).collect();
        let scope_of: Vec<u8> = (0..n).map(|_| u8::from(rng.chance(1, 4))).collect();
        let max_ops = if tier == Tier::Thorough && rng.chance(1, 3) { 90 } else { 36 };
        let n_ops = rng.urange(3, max_ops);
        let lawful_pct = *rng.pick(&[50u64, 70, 70, 70, 85]);
        // Swarm: fault kinds enabled per run, fault density, fault budget.
        let mut kinds_on = [true; 4];
        for k in kinds_on.iter_mut() {
            *k = rng.chance(3, 4);
        }
        if !kinds_on.iter().any(|k| *k) {
            kinds_on[rng.usize_below(4)] = true;
        }
        let max_faults = rng.weighted(&[1, 3, 4, 4, 3, 2, 1]);
        let (pf_num, pf_den) = *rng.pick(&[(1u64, 8u64), (1, 5), (1, 3), (1, 2)]);

        let mut life = vec![0u8; n]; // generator's shadow: 0 absent, 1 requested, 2 claimed, 3 settled
        let mut settled_params: Vec<(u8, u16, u8)> = vec![(1, 0, 0); n];
        let mut spare_tokens = vec![0u32; n]; // shadow of tokens / grants the clients hold
        let mut spare_grants = vec![0u32; n];
        let mut poison_left: Option<u32> = None; // Some(k): coordinator poisoned, k more ops before recovery
        let mut ops = Vec::with_capacity(n_ops);
        let mut faults: Vec<Fault> = Vec::new();

        for idx in 0..n_ops {
            let poisoned_now = match poison_left {
                Some(0) => {
                    poison_left = None;
                    false
                }
                Some(k) => {
                    poison_left = Some(k - 1);
                    true
                }
                None => false,
            };
            let op = if rng.below(100) < lawful_pct {
                // Next lawful transition of some id that is not finished yet.
                let open: Vec<usize> = (0..n).filter(|i| life[*i] < 3).collect();
                if rng.chance(1, 10) {
                    Op::Observe
                } else if open.is_empty() {
                    let i = rng.usize_below(n);
                    if rng.chance(3, 4) {
                        Op::Reconcile { id: i as u8, retained: true, kind: 1, len: 0, salt: 0, bad: SettleBad::None }
                    } else if rng.chance(1, 3) {
                        // Spelled-out copy of what the generator believes was admitted (differs in one field at most).
                        let (k, l, sa) = settled_params[i];
                        let vary = rng.below(3);
                        Op::Reconcile {
                            id: i as u8,
                            retained: false,
                            kind: if vary == 1 { 1 + (k % 4) } else { k },
                            len: l,
                            salt: if vary == 2 { sa.wrapping_add(1) } else { sa },
                            bad: SettleBad::None,
                        }
                    } else {
                        Op::Reconcile {
                            id: i as u8,
                            retained: false,
                            kind: 1 + rng.below(4) as u8,
                            len: gen_len(rng, budgets[i]),
                            salt: rng.below(4) as u8,
                            bad: SettleBad::None,
                        }
                    }
                } else {
                    let i = *rng.pick(&open);
                    match life[i] {
                        0 => Op::Request { id: i as u8, bad: ReqBad::None },
                        // Keep a spare token / grant around so that a second claim / settlement can be attempted later.
                        1 if spare_tokens[i] == 0 && rng.chance(1, 3) => Op::StashToken { id: i as u8 },
                        2 if spare_grants[i] == 0 && rng.chance(1, 3) => Op::StashGrant { id: i as u8 },
                        1 => Op::Claim {
                            id: i as u8,
                            adapter: if scope_of[i] == 0 { rng.below(2) as u8 } else { 0 },
                            auth_from: None,
                            basis_ok: true,
                            attempt: 0,
                            lease: 1 + rng.below(2) as u8,
                        },
                        _ => Op::Settle {
                            id: i as u8,
                            kind: 1 + rng.below(4) as u8,
                            len: gen_len(rng, budgets[i]),
                            salt: rng.below(4) as u8,
                            bad: SettleBad::None,
                        },
                    }
                }
            } else {
                let mut i = rng.usize_below(n);
                let shape = rng.weighted(&[3, 2, 5, 2, 5, 4, 2]);
                let all_valid = rng.chance(1, 2);
                // Aim the interesting shapes at ids where they bite: a valid second claim / settlement at ids
                // whose client still holds a spare token / grant, invalid arguments at ids where the
                // transition would otherwise be lawful, retries at settled ids.
                if rng.chance(2, 3) {
                    let pool: Vec<usize> = match (shape, all_valid) {
                        (2, true) => (0..n).filter(|j| spare_tokens[*j] > 0 && life[*j] >= 2).collect(),
                        (2, false) => (0..n).filter(|j| life[*j] == 1).collect(),
                        (4, true) => (0..n).filter(|j| spare_grants[*j] > 0 && life[*j] >= 3).collect(),
                        (4, false) => (0..n).filter(|j| life[*j] == 2).collect(),
                        (5, _) => (0..n).filter(|j| life[*j] == 3).collect(),
                        _ => Vec::new(),
                    };
                    if !pool.is_empty() {
                        i = *rng.pick(&pool);
                    }
                }
                match shape {
                    0 => Op::Request {
                        id: i as u8,
                        bad: *rng.pick(&[ReqBad::None, ReqBad::None, ReqBad::ZeroBytes, ReqBad::ZeroAttempts, ReqBad::TwoAttempts, ReqBad::HugeBudget]),
                    },
                    1 => Op::StashToken { id: i as u8 },
                    2 if all_valid => Op::Claim {
                        id: i as u8,
                        adapter: if scope_of[i] == 0 { rng.below(2) as u8 } else { 0 },
                        auth_from: None,
                        basis_ok: true,
                        attempt: 0,
                        lease: 1 + rng.below(2) as u8,
                    },
                    4 if all_valid => Op::Settle {
                        id: i as u8,
                        kind: 1 + rng.below(4) as u8,
                        len: gen_len(rng, budgets[i]),
                        salt: rng.below(4) as u8,
                        bad: SettleBad::None,
                    },
                    2 => Op::Claim {
                        id: i as u8,
                        adapter: rng.weighted(&[4, 3, 1]) as u8,
                        auth_from: if rng.chance(1, 5) { Some(rng.usize_below(n) as u8) } else { None },
                        basis_ok: !rng.chance(1, 6),
                        attempt: *rng.pick(&[0u32, 0, 0, 0, 1, 7, u32::MAX]),
                        lease: rng.weighted(&[1, 3, 3]) as u8,
                    },
                    3 => Op::StashGrant { id: i as u8 },
                    4 => Op::Settle {
                        id: i as u8,
                        kind: 1 + rng.below(4) as u8,
                        len: if rng.chance(1, 4) { budgets[i] + 1 + rng.weighted(&[3, 1, 1]) as u16 } else { gen_len(rng, budgets[i]) },
                        salt: rng.below(4) as u8,
                        bad: if rng.chance(1, 2) { gen_settle_bad(rng, n) } else { SettleBad::None },
                    },
                    5 => Op::Reconcile {
                        id: i as u8,
                        retained: rng.chance(1, 2),
                        kind: 1 + rng.below(4) as u8,
                        len: if rng.chance(1, 6) { budgets[i] + 1 } else { gen_len(rng, budgets[i]) },
                        salt: rng.below(4) as u8,
                        bad: if rng.chance(1, 3) { gen_settle_bad(rng, n) } else { SettleBad::None },
                    },
                    _ => Op::Observe,
                }
            };
            // Would this op write a lifecycle transaction (per the generator's shadow)?
            let lawful_write = !poisoned_now
                && match &op {
                    Op::Request { id, bad } => *bad == ReqBad::None && life[*id as usize] == 0,
                    Op::Claim { id, adapter, auth_from, basis_ok, attempt, lease } => {
                        let i = *id as usize;
                        life[i] == 1
                            && adapter_bound(*adapter, scope_of[i])
                            && auth_from.is_none_or(|s| s as usize == i)
                            && *basis_ok
                            && *attempt == 0
                            && *lease != 0
                    }
                    Op::Settle { id, len, bad, .. } => {
                        let i = *id as usize;
                        life[i] == 2 && *bad == SettleBad::None && *len <= budgets[i]
                    }
                    _ => false,
                };
            let want_fault = faults.len() < max_faults && if lawful_write { rng.chance(pf_num, pf_den) } else { rng.chance(1, 30) };
            let mut durable = lawful_write;
            if want_fault {
                let mut pick = rng.weighted(&[3, 3, 3, 6]);
                for _ in 0..4 {
                    if kinds_on[pick] {
                        break;
                    }
                    pick = (pick + 1) % 4;
                }
                if !lawful_write && rng.chance(3, 4) {
                    pick = 3;
                }
                let kind = match pick {
                    0 => FaultKind::AppendError { frame: 0, stored: rng.chance(1, 2) },
                    1 => FaultKind::FlushErrorBeforeDurable,
                    2 => FaultKind::FlushErrorAfterDurable,
                    _ => {
                        let point = if lawful_write {
                            match rng.weighted(&[3, 2, 3, 2, 3]) {
                                0 => CrashPoint::AfterOp,
                                1 => CrashPoint::BeforeFrame(0),
                                2 => CrashPoint::AfterFrame(0),
                                3 => CrashPoint::FlushBeforeDurable,
                                _ => CrashPoint::FlushAfterDurable,
                            }
                        } else {
                            CrashPoint::AfterOp
                        };
                        FaultKind::Crash { point, keep_tail: rng.weighted(&[2, 3, 1]) as u32, recrash: rng.weighted(&[6, 2, 1]) as u8 }
                    }
                };
                let f = Fault { at_op: idx as u32, kind, linger: rng.weighted(&[4, 2, 1]) as u8, direct_first: rng.chance(1, 2), io_nudge: rng.below(6) as u8 };
                if lawful_write {
                    durable = allows_durable(&kind);
                    if !matches!(kind, FaultKind::Crash { .. }) {
                        poison_left = Some(u32::from(f.linger));
                    }
                }
                if matches!(kind, FaultKind::Crash { .. }) {
                    poison_left = None;
                }
                faults.push(f);
            }
            if !poisoned_now && !want_fault {
                match &op {
                    Op::Request { id, bad: ReqBad::None } if life[*id as usize] == 0 => spare_tokens[*id as usize] += 1,
                    Op::StashToken { id } if life[*id as usize] == 1 => spare_tokens[*id as usize] += 1,
                    Op::StashGrant { id } if life[*id as usize] == 2 => spare_grants[*id as usize] += 1,
                    Op::Claim { id, .. } => {
                        let i = *id as usize;
                        if lawful_write {
                            spare_grants[i] += 1;
                        }
                        spare_tokens[i] = spare_tokens[i].saturating_sub(1);
                    }
                    Op::Settle { id, .. } => spare_grants[*id as usize] = spare_grants[*id as usize].saturating_sub(1),
                    _ => {}
                }
            }
            if durable {
                match &op {
                    Op::Request { id, .. } => life[*id as usize] = 1,
                    Op::Claim { id, .. } => life[*id as usize] = 2,
                    Op::Settle { id, kind, len, salt, .. } => {
                        life[*id as usize] = 3;
                        settled_params[*id as usize] = (*kind, *len, *salt);
                    }
                    _ => {}
                }
            }
            ops.push(op);
        }
        let new_epoch_on_crash = rng.chance(1, 2);
        let surface = if rng.chance(1, 4) { Surface::Filesystem } else { Surface::Memory };
        // drawn last so that the rest of the scenario is unchanged by this choice
        let adapter = if rng.chance(1, 12) { Some(adapter::generate(rng)) } else { None };
        let huge = adapter.is_none() && surface == Surface::Filesystem && rng.chance(1, 10);
        C17 { n_ids: n as u8, budgets, scope_of, ops, faults, new_epoch_on_crash, surface, avoid_torn_direct: false, adapter, huge }
    }

    fn execute(&self, ctx: &mut RunCtx) -> Outcome {
        if let Some(a) = &self.adapter {
            return adapter::run(a, ctx);
        }
        driver::HUGE.with(|h| h.set(self.huge));
        match self.surface {
            Surface::Memory => {
                let mut store = store::SimWalStore::new();
                store.force_epoch(store::sim_epoch_id(0));
                driver::run(self, store, ctx)
            }
            Surface::Filesystem => {
                let dir = ctx.scratch_dir();
                match fs::FsBackend::new(&dir) {
                    Ok(store) => {
                        ctx.hit("reach.filesystem_surface_runs");
                        driver::run(self, store, ctx)
                    }
                    Err(e) => Outcome::violation("harness:fs_open", e),
                }
            }
        }
    }

    fn shrink_candidates(&self) -> Vec<Self> {
        let mut out = Vec::new();
        // Drop one op (faults on it vanish, later faults move up).
        for i in 0..self.ops.len() {
            let mut s = self.clone();
            s.ops.remove(i);
            s.faults.retain(|f| f.at_op as usize != i);
            for f in &mut s.faults {
                if f.at_op as usize > i {
                    f.at_op -= 1;
                }
            }
            out.push(s);
        }
        // Drop one fault.
        for i in 0..self.faults.len() {
            let mut s = self.clone();
            s.faults.remove(i);
            out.push(s);
        }
        // Simplify one fault.
        for i in 0..self.faults.len() {
            let f = self.faults[i];
            if f.linger > 0 {
                let mut s = self.clone();
                s.faults[i].linger = 0;
                out.push(s);
            }
            if f.direct_first {
                let mut s = self.clone();
                s.faults[i].direct_first = false;
                out.push(s);
            }
            if let FaultKind::Crash { point, keep_tail, recrash } = f.kind {
                if recrash > 0 {
                    let mut s = self.clone();
                    s.faults[i].kind = FaultKind::Crash { point, keep_tail, recrash: 0 };
                    out.push(s);
                }
                if keep_tail > 0 {
                    let mut s = self.clone();
                    s.faults[i].kind = FaultKind::Crash { point, keep_tail: 0, recrash };
                    out.push(s);
                }
                if point != CrashPoint::AfterOp {
                    let mut s = self.clone();
                    s.faults[i].kind = FaultKind::Crash { point: CrashPoint::AfterOp, keep_tail, recrash };
                    out.push(s);
                }
            }
            if let FaultKind::AppendError { frame, stored: true } = f.kind {
                let mut s = self.clone();
                s.faults[i].kind = FaultKind::AppendError { frame, stored: false };
                out.push(s);
            }
        }
        // Remove the highest request id when nothing refers to it.
        let n = self.n();
        if n > 1 {
            let top = (n - 1) as u8;
            let refers = |o: &Op| match o {
                Op::Request { id, .. } | Op::StashToken { id } | Op::StashGrant { id } => *id >= top,
                Op::Claim { id, auth_from, .. } => *id >= top || auth_from.is_some_and(|a| a >= top),
                Op::Settle { id, bad, .. } | Op::Reconcile { id, bad, .. } => {
                    *id >= top || matches!(bad, SettleBad::OtherIdsAttempt(a) | SettleBad::WrongRequestId(a) if *a >= top)
                }
                Op::Observe => false,
            };
            if !self.ops.iter().any(refers) {
                let mut s = self.clone();
                s.n_ids = top;
                s.budgets.truncate(n - 1);
                s.scope_of.truncate(n - 1);
                out.push(s);
            }
        }
        // Compact the request ids in use onto 0..k.
        {
            let mut used = vec![false; n];
            let mut mark = |v: u8| used[v as usize % n] = true;
            for o in &self.ops {
                match o {
                    Op::Request { id, .. } | Op::StashToken { id } | Op::StashGrant { id } => mark(*id),
                    Op::Claim { id, auth_from, .. } => {
                        mark(*id);
                        if let Some(a) = auth_from {
                            mark(*a);
                        }
                    }
                    Op::Settle { id, bad, .. } | Op::Reconcile { id, bad, .. } => {
                        mark(*id);
                        if let SettleBad::OtherIdsAttempt(a) | SettleBad::WrongRequestId(a) = bad {
                            mark(*a);
                        }
                    }
                    Op::Observe => {}
                }
            }
            let k = used.iter().filter(|u| **u).count();
            if k >= 1 && k < n {
                let mut map = vec![0u8; n];
                let mut next = 0u8;
                for (v, u) in used.iter().enumerate() {
                    if *u {
                        map[v] = next;
                        next += 1;
                    }
                }
                let m = |v: u8| map[v as usize % n];
                let mut s = self.clone();
                s.n_ids = k as u8;
                s.budgets = (0..n).filter(|v| used[*v]).map(|v| self.budget(v)).collect();
                s.scope_of = (0..n).filter(|v| used[*v]).map(|v| self.scope(v)).collect();
                for o in &mut s.ops {
                    match o {
                        Op::Request { id, .. } | Op::StashToken { id } | Op::StashGrant { id } => *id = m(*id),
                        Op::Claim { id, auth_from, .. } => {
                            *id = m(*id);
                            if let Some(a) = auth_from {
                                *a = m(*a);
                            }
                        }
                        Op::Settle { id, bad, .. } | Op::Reconcile { id, bad, .. } => {
                            *id = m(*id);
                            if let SettleBad::OtherIdsAttempt(a) | SettleBad::WrongRequestId(a) = bad {
                                *a = m(*a);
                            }
                        }
                        Op::Observe => {}
                    }
                }
                out.push(s);
            }
        }
        if self.new_epoch_on_crash {
            let mut s = self.clone();
            s.new_epoch_on_crash = false;
            out.push(s);
        }
        if self.surface == Surface::Filesystem {
            let mut s = self.clone();
            s.surface = Surface::Memory;
            out.push(s);
        }
        for i in 0..self.faults.len() {
            if self.faults[i].io_nudge != 0 {
                let mut s = self.clone();
                s.faults[i].io_nudge = 0;
                out.push(s);
            }
        }
        // Simplify op arguments.
        for i in 0..self.ops.len() {
            let simpler: Option<Op> = match &self.ops[i] {
                Op::Settle { id, kind, len, salt, bad } if *len > 0 || *salt > 0 || *kind != 1 => {
                    Some(Op::Settle { id: *id, kind: 1, len: (*len).min(1), salt: 0, bad: *bad })
                }
                Op::Reconcile { id, retained, kind, len, salt, bad } if !*retained && (*len > 0 || *kind != 1) => {
                    Some(Op::Reconcile { id: *id, retained: false, kind: 1, len: 0, salt: *salt, bad: *bad })
                }
                Op::Claim { id, adapter, auth_from, basis_ok, attempt, lease } if *adapter != 0 || *lease > 1 => {
                    Some(Op::Claim { id: *id, adapter: 0, auth_from: *auth_from, basis_ok: *basis_ok, attempt: *attempt, lease: (*lease).min(1) })
                }
                _ => None,
            };
            if let Some(o) = simpler {
                let mut s = self.clone();
                s.ops[i] = o;
                out.push(s);
            }
        }
        for i in 0..self.scope_of.len() {
            if self.scope_of[i] != 0 {
                let mut s = self.clone();
                s.scope_of[i] = 0;
                out.push(s);
            }
        }
        out
    }
}
