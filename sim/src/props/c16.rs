//! C16 — observation is read-only and bound to its coordinate.
//!
//! Scheduled parties: clients delivering honest intents to 1–3 worldlines × 1–3 writer heads, the
//! scheduler passes that commit them, an optional strand fork and checkpoints — and a READER whose
//! `observe` / `observe_optic` calls are interleaved with all of that. Every read with an explicit
//! historical coordinate is re-issued after every later commit, fork and checkpoint, and at the end.
//! No fault is injected: reads interleaved with commits are the schedule.
//!
//! Oracle: (a) runtime / provenance / engine fingerprints identical around every read; (b) the same
//! request twice in a row gives equal artifacts, equal ABI encodings and equal hashes; (c) a reading at
//! `Tick(t)` says exactly what the scheduler recorded for entry `t` (and what replay yields) and never
//! changes afterwards, except for the fields that record WHEN it was observed; (d) requests the history
//! cannot serve give a typed error / obstruction that names the request, never a reading.

mod fp;
mod oracle;
mod req;

use std::collections::BTreeMap;

use warp_core::{ObservationPayload, ProvenanceStore as _};

use serde::{Deserialize, Serialize};
use warp_core::{
    ActorId, AuthorityBinding, AuthorityDomainId, AuthorityDomainRef, CausalAuthority, CausalPosture, EchoCoordinate, ForkStrandRequest, InboxPolicy,
    ObservationArtifact, ObservationAt, ObservationError, ObservationProjection, ObservationRequest, ObservationService, ObserveOpticRequest,
    ObserveOpticResult, OpticReading, OriginId, PlaybackMode, PostureDerivation, RetentionContractId, RetentionPosture, SealStrength, StepRecord,
    WitnessBasis, WorldlineTick, WriterHead,
};

use crate::kernel::{self, Outcome, PropertySpec, Rng, RunCtx, Scenario, Tier};
use crate::model::refstate::abs;
use crate::props::c01::knobs;
use crate::world::ids;
use crate::world::prog::Step;
use crate::world::runtime::{gen_intent, gen_world, head_key, wl_id, Fingerprint, Intent, PassResult, TargetSpec, World, WorldSpec};

use oracle::{check_obs, check_optic, diff_artifact, diff_optic, err_kind, obstruction_kind, optic_is_historical, optic_target, wl_index, TickFact, Truth, H, V};
use req::{frame_name, obs_request, optic_request, proj_name, AtSpec, BudgetSpec, CoordSpec, FocusSpec, OAt, ObsSpec, OpticSpec, PlanSpec, ProjSpec, Read, ShapeSpec, CHILD_WL, UNKNOWN_WL};

pub const SPEC: PropertySpec = PropertySpec {
    id: "C16",
    level: "exploration",
    rule: "scenario = runtime world (1-3 worldlines x 1-3 heads, honest intents with unique nonces) + op tape of Deliver/Pass/Fork/Checkpoint/Observe where reads (observe with every frame x projection pairing, frontier/explicit/future/huge ticks, unknown and not-yet-forked worldlines, builtin/authored plans, instances, budgets, rights, installed/missing/failing query observers; observe_optic with generated focus/coordinate/aperture/budget incl. full provenance coordinates) are interleaved with commits; every historical request is re-issued after every later commit, fork and checkpoint and at the end; non-trivial = >=1 historical reading re-asked after >=1 later commit; distinct = hash of scenario",
    quick_runs: 4_000,
    thorough_runs: 40_000,
    real_components: &[
        "ObservationService::observe (validate_frame_projection, validate_observer_contract, resolve_coordinate, basis_posture, reading_envelope, artifact hash)",
        "ObservationService::observe_optic (budget/aperture validation, lowering, witness basis incl. checkpoint-plus-tail, ReadIdentity)",
        "ObservationArtifact::to_abi / ObserveOpticResult::to_abi + canonical CBOR",
        "WorldlineRuntime + SchedulerCoordinator::super_tick + fork_strand; ProvenanceService (entry, checkpoint, replay_worldline_state_at); Engine (contract query observer registry)",
    ],
    stub_components: &[
        "application rules: data-driven interpreter (honest programs only)",
        "contract query observer: harness closure registered through Engine::register_contract_query_observer; answers vars=[mode,node] from the state at the resolved coordinate (frontier state, or provenance replay for Tick(t))",
    ],
    assumptions: &[
        "resolved.observed_after_global_tick and artifact_hash (which folds it in) record when the observation was made: excluded from coordinate binding, checked to be monotone / >= the commit's global tick, and artifact_hash must still separate artifacts that differ",
        "index convention taken from the docs: ObservationAt::Tick(t) names provenance entry t (= state after t+1 commits, replay cursor t+1); a CommitBoundary/QueryView frontier reports tick = number of commits with the root of the last commit; a RecordedTruth frontier reports the last entry",
        "for the strand child worldline the frontier basis posture tracks parent movement: only its variant family is checked; historical coordinates must report StrandHistorical and are compared across time",
        "after a checkpoint is added to a worldline, an optic reading's witness basis (and the read identity hash that folds it in) may switch to checkpoint-plus-tail or to a LiveTailRequiresReduction obstruction: payload, envelope and the rest of the identity must still be unchanged",
        "fingerprints are taken around EVERY read from the compact {:?} rendering of runtime and provenance split into top-level fields (props/c16/fp.rs: same field set and the same two host_test instrumentation exclusions as the shared pretty-text fingerprint, ~30x cheaper; every byte of the rendering is covered) plus the shared engine fingerprint; a self-check requires the fingerprint to move across a committing pass",
        "a typed refusal must be justified by the request or the recorded history (unknown worldline, tick beyond history, pairing, plan, instance, rights, uninstalled/failing query, declared budget); BudgetExceeded is accepted on its own numbers",
        "a full provenance coordinate (worldline, tick, commit hash) whose commit hash differs from the recorded commit names history this runtime does not hold: a reading for it is reported as provenance_coordinate_mismatch_served",
        "interpreter rules emit no materialization channels, so RecordedTruth payloads are empty channel lists (filters and ordering are still checked)",
    ],
    fault_kinds: &["fault.provenance_lags_runtime"],
};

#[derive(Clone, Debug, Serialize, Deserialize)]
pub enum Op {
    Deliver(Intent),
    Pass,
    /// fork the child worldline (index 3) from `src` at tick `tick_sel % len(src)`
    Fork { src: u8, tick_sel: u8 },
    Checkpoint { wl: u8 },
    Observe(Read),
}

#[derive(Clone, Debug, Serialize, Deserialize)]
pub struct C16 {
    pub world: WorldSpec,
    pub install_query: bool,
    pub ops: Vec<Op>,
    /// Fault: retained history lags behind the runtime. `Some(k)`: every first ask is also issued
    /// against the provenance service as it was after the k-th committing pass (0 = before any
    /// commit), next to the live runtime.
    #[serde(default)]
    pub lag_after: Option<u8>,
}

/// Upper bound on observe calls per run (first asks count twice: every first ask is issued twice in a row).
const MAX_READS: u64 = 260;
const MAX_ASKED: usize = 14;
/// at most this many of the remembered historical requests may be ones that were refused when first asked
const MAX_ASKED_REFUSED: usize = 4;

// ---------------------------------------------------------------------------
// Generation
// ---------------------------------------------------------------------------

fn gen_wl(rng: &mut Rng, n_wl: u8, forked: bool) -> u8 {
    if forked && rng.chance(1, 4) {
        return CHILD_WL;
    }
    match rng.below(24) {
        0 => UNKNOWN_WL,
        1 | 2 => CHILD_WL,
        _ => rng.below(u64::from(n_wl)) as u8,
    }
}

/// Mostly ticks a short history has (or will soon have); sometimes far beyond any history.
fn gen_tick(rng: &mut Rng) -> u64 {
    match rng.below(16) {
        0 => u64::MAX,
        1 => rng.range(6, 200),
        _ => [0u64, 1, 2, 3, 4][rng.weighted(&[5, 4, 2, 1, 1])],
    }
}

/// Deletions make later honest programs inapplicable (the pass fails and the head is quarantined);
/// most scenarios replace them so that histories grow, some keep them so that reads also meet faulted heads.
fn tame(step: &mut Step) {
    match step {
        Step::DeleteNode { .. } | Step::DeleteEdge { .. } => *step = Step::Noop,
        Step::IfEdge { then, .. } => tame(then),
        _ => {}
    }
}

fn gen_obs(rng: &mut Rng, n_wl: u8, want_query: bool, forked: bool) -> ObsSpec {
    let wl = gen_wl(rng, n_wl, forked);
    let at = if rng.chance(1, 3) { AtSpec::Frontier } else { AtSpec::Tick(gen_tick(rng)) };
    let proj = match rng.below(if want_query { 5 } else { 4 }) {
        0 => ProjSpec::Head,
        1 => ProjSpec::Snapshot,
        2 => ProjSpec::Truth { channels: if rng.chance(1, 2) { None } else { Some((0..3u8).filter(|_| rng.chance(1, 2)).collect()) } },
        _ => {
            let vars = match rng.below(12) {
                0 => vec![],
                1 => vec![0, 1, 2],
                2 => vec![9, 0],
                3 => vec![0, 99],
                4 => vec![2, 0],
                _ => vec![rng.below(2) as u8, rng.below(6) as u8],
            };
            ProjSpec::Query { installed: !rng.chance(1, 8), vars }
        }
    };
    let natural_frame = match proj {
        ProjSpec::Head | ProjSpec::Snapshot => 0,
        ProjSpec::Truth { .. } => 1,
        ProjSpec::Query { .. } => 2,
    };
    let frame = if rng.chance(5, 6) { natural_frame } else { rng.below(3) as u8 };
    let plan = match rng.below(24) {
        0 => PlanSpec::Builtin(rng.below(4) as u8),
        1 => PlanSpec::AuthoredInstalled,
        2 => PlanSpec::AuthoredOther,
        3 if matches!(proj, ProjSpec::Query { .. }) => PlanSpec::AuthoredInstalled,
        _ => PlanSpec::Auto,
    };
    let budget = if rng.chance(2, 3) {
        BudgetSpec::Unbounded
    } else {
        BudgetSpec::Bounded { max_payload: *rng.pick(&[0u64, 8, 64, 120, 4096, 4096, u64::MAX]), max_wit: *rng.pick(&[0u64, 1, 1, 2, u64::MAX]) }
    };
    ObsSpec { wl, at, frame, proj, plan, instance: rng.chance(1, 30), budget, cap: if rng.chance(1, 24) { Some(rng.below(4) as u8) } else { None } }
}

fn gen_optic(rng: &mut Rng, n_wl: u8, _avoid: bool, forked: bool) -> OpticSpec {
    let wl = gen_wl(rng, n_wl, forked);
    let at = match rng.below(10) {
        0..=2 => OAt::Frontier,
        3..=6 => OAt::Tick(gen_tick(rng)),
        _ => OAt::Prov { wl: if rng.chance(1, 10) { (wl + 1) % n_wl.max(2) } else { wl }, tick: gen_tick(rng), true_hash: !rng.chance(1, 3) },
    };
    let coord = match rng.below(24) {
        0 => CoordSpec::Strand { at },
        1 => CoordSpec::Braid,
        2 => CoordSpec::Retained,
        _ => CoordSpec::Worldline { wl, at },
    };
    let focus = match rng.below(30) {
        0 => FocusSpec::Strand,
        1 => FocusSpec::Braid,
        2 => FocusSpec::Retained,
        3 => FocusSpec::Attachment,
        4 => FocusSpec::Worldline((wl + 1) % 3),
        _ => FocusSpec::Worldline(wl),
    };
    let shape = match rng.below(24) {
        0 => ShapeSpec::Truth,
        1 => ShapeSpec::Query,
        2 => ShapeSpec::ByteRange { start: rng.below(8), len: *rng.pick(&[0u64, 16, 5000]) },
        3 => ShapeSpec::Attachment,
        4..=13 => ShapeSpec::Head,
        _ => ShapeSpec::Snapshot,
    };
    OpticSpec {
        focus,
        coord,
        shape,
        max_bytes: *rng.pick(&[None, Some(0), Some(64), Some(127), Some(128), Some(200), Some(1024), Some(1024), Some(1024), Some(1024), Some(1024), Some(65536), Some(65536), Some(u64::MAX)]),
        max_nodes: *rng.pick(&[None, Some(0), Some(8)]),
        max_ticks: *rng.pick(&[None, None, None, Some(0), Some(1), Some(2), Some(8), Some(8), Some(8)]),
        max_attachments: *rng.pick(&[None, Some(0), Some(1)]),
        explicit_descent: rng.chance(1, 3),
        proj_ver: rng.below(3) as u32,
        reducer: if rng.chance(1, 3) { Some(rng.below(3) as u32) } else { None },
        cap: rng.below(4) as u8,
        optic: rng.below(3) as u8,
    }
}

fn gen_read(rng: &mut Rng, n_wl: u8, install_query: bool, avoid: bool, forked: bool) -> Read {
    if rng.chance(7, 10) {
        let want_query = install_query || rng.chance(1, 3);
        Read::Obs(gen_obs(rng, n_wl, want_query, forked))
    } else {
        Read::Optic(gen_optic(rng, n_wl, avoid, forked))
    }
}

impl Scenario for C16 {
    fn generate(rng: &mut Rng, tier: Tier, avoid: bool) -> Self {
        let world = gen_world(rng, 3, 3, 4);
        let n_wl = world.worldlines.len() as u8;
        let mut kn = knobs(rng, avoid);
        kn.absent_16 = 0;
        let install_query = rng.chance(3, 4);
        let calm = !rng.chance(1, 4);
        let rounds = rng.urange(3, if tier == Tier::Thorough { 8 } else { 6 });
        let fork_round = if rng.chance(2, 5) { Some(rng.urange(1, rounds.max(2) - 1)) } else { None };
        let mut forked_from: Option<u8> = None;
        let mut ops = Vec::new();
        let mut nonce = 1u32;
        for round in 0..rounds {
            for _ in 0..rng.urange(1, 4) {
                let mut intent = gen_intent(rng, &world, nonce, &kn);
                nonce += 1;
                if calm {
                    intent.prog.steps.iter_mut().for_each(tame);
                }
                if forked_from == Some(intent.wl()) && rng.chance(1, 2) {
                    intent.target = TargetSpec::Default { wl: CHILD_WL };
                }
                ops.push(Op::Deliver(intent));
                if rng.chance(1, 6) {
                    // a read while intents are pending in the inboxes
                    ops.push(Op::Observe(gen_read(rng, n_wl, install_query, avoid, forked_from.is_some())));
                }
            }
            for _ in 0..rng.urange(1, 2) {
                ops.push(Op::Pass);
            }
            for _ in 0..rng.urange(1, 3) {
                let r = gen_read(rng, n_wl, install_query, avoid, forked_from.is_some());
                // sometimes a sibling at the same coordinate that differs only in the projection's
                // channel filter: same (empty) payload, so only the projection separates the artifacts
                let sibling = match &r {
                    Read::Obs(o) if rng.chance(1, 3) => match &o.proj {
                        ProjSpec::Truth { channels } => Some(Read::Obs(ObsSpec { proj: ProjSpec::Truth { channels: if channels.is_none() { Some(vec![rng.below(3) as u8]) } else { None } }, ..o.clone() })),
                        _ => None,
                    },
                    _ => None,
                };
                ops.push(Op::Observe(r));
                if let Some(sib) = sibling {
                    ops.push(Op::Observe(sib));
                }
            }
            if fork_round == Some(round) {
                let src = rng.below(u64::from(n_wl)) as u8;
                ops.push(Op::Fork { src, tick_sel: rng.below(8) as u8 });
                forked_from = Some(src);
                for _ in 0..rng.urange(0, 2) {
                    let mut r = gen_read(rng, n_wl, install_query, avoid, forked_from.is_some());
                    // aim some of the post-fork reads at the child
                    if rng.chance(1, 2) {
                        match &mut r {
                            Read::Obs(o) => o.wl = CHILD_WL,
                            Read::Optic(o) => {
                                if let CoordSpec::Worldline { wl, .. } = &mut o.coord {
                                    *wl = CHILD_WL;
                                    o.focus = FocusSpec::Worldline(CHILD_WL);
                                }
                            }
                        }
                    }
                    ops.push(Op::Observe(r));
                }
            }
            if rng.chance(1, 5) {
                let wl = if forked_from.is_some() && rng.chance(1, 3) { CHILD_WL } else { rng.below(u64::from(n_wl)) as u8 };
                ops.push(Op::Checkpoint { wl });
            }
        }
        for _ in 0..rng.urange(0, 2) {
            ops.push(Op::Observe(gen_read(rng, n_wl, install_query, avoid, forked_from.is_some())));
        }
        let lag_after = if rng.chance(1, 3) { Some(rng.below(3) as u8) } else { None };
        C16 { world, install_query, ops, lag_after }
    }

    fn execute(&self, ctx: &mut RunCtx) -> Outcome {
        let mut w = match World::new(&self.world) {
            Ok(w) => w,
            Err(e) => return Outcome::violation("state_construction_failed", e),
        };
        if self.install_query {
            if let Err(e) = w.engine.register_contract_query_observer(req::query_observer()) {
                return Outcome::violation("query_observer_registration_failed", format!("{e:?}"));
            }
        }
        let mut x = Exec::new(self);
        match x.run(self, &mut w, ctx) {
            Ok(()) => {
                if x.nontrivial {
                    ctx.nontrivial(&serde_json::to_vec(self).unwrap_or_default());
                }
                Outcome::Ok
            }
            Err((class, detail)) => Outcome::violation(class, detail),
        }
    }

    fn shrink_candidates(&self) -> Vec<Self> {
        let mut out = Vec::new();
        let is_read = |o: &Op| matches!(o, Op::Observe(_));
        // 1. drop reads
        for i in 0..self.ops.len() {
            if is_read(&self.ops[i]) {
                let mut s = self.clone();
                s.ops.remove(i);
                out.push(s);
            }
        }
        // 2. drop everything after the last read
        if let Some(last) = self.ops.iter().rposition(is_read) {
            if last + 1 < self.ops.len() {
                let mut s = self.clone();
                s.ops.truncate(last + 1);
                out.push(s);
            }
        }
        // 3. drop passes / deliveries / fork / checkpoint
        for i in 0..self.ops.len() {
            if !is_read(&self.ops[i]) {
                let mut s = self.clone();
                s.ops.remove(i);
                out.push(s);
            }
        }
        // 4. drop a worldline with everything that names it
        if self.world.worldlines.len() > 1 {
            for wi in (0..self.world.worldlines.len()).rev() {
                let id = self.world.worldlines[wi].id;
                let mut s = self.clone();
                s.world.worldlines.remove(wi);
                s.ops.retain(|o| match o {
                    Op::Deliver(i) => i.wl() != id,
                    Op::Fork { src, .. } => *src != id,
                    Op::Checkpoint { wl } => *wl != id,
                    Op::Observe(r) => !r.names_wl(id),
                    Op::Pass => true,
                });
                out.push(s);
            }
        }
        // 5. drop a non-default head (deliveries aimed at it go to the default writer)
        for (wi, wl) in self.world.worldlines.iter().enumerate() {
            if let Some(hi) = wl.heads.iter().rposition(|h| !h.default) {
                let gone = wl.heads[hi].clone();
                let mut s = self.clone();
                s.world.worldlines[wi].heads.remove(hi);
                for o in &mut s.ops {
                    if let Op::Deliver(i) = o {
                        let hit = match &i.target {
                            TargetSpec::Exact { wl: x, head } => *x == wl.id && *head == gone.label,
                            TargetSpec::Inbox { wl: x, name } => *x == wl.id && gone.inbox == Some(*name),
                            TargetSpec::Default { .. } => false,
                        };
                        if hit {
                            i.target = TargetSpec::Default { wl: wl.id };
                        }
                    }
                }
                out.push(s);
            }
        }
        // 6. simpler programs, plain requests, single worker
        for (oi, op) in self.ops.iter().enumerate() {
            match op {
                Op::Deliver(i) if i.prog.steps.len() > 1 => {
                    for si in 0..i.prog.steps.len() {
                        let mut s = self.clone();
                        if let Op::Deliver(x) = &mut s.ops[oi] {
                            x.prog.steps.remove(si);
                        }
                        out.push(s);
                    }
                }
                Op::Observe(Read::Obs(o)) => {
                    if let AtSpec::Tick(t) = o.at {
                        if t > 0 {
                            let mut s = self.clone();
                            s.ops[oi] = Op::Observe(Read::Obs(ObsSpec { at: AtSpec::Tick(if t > 8 { 8 } else { t - 1 }), ..o.clone() }));
                            out.push(s);
                        }
                    }
                    let plain = ObsSpec { plan: PlanSpec::Auto, instance: false, budget: BudgetSpec::Unbounded, cap: None, ..o.clone() };
                    if plain != *o {
                        let mut s = self.clone();
                        s.ops[oi] = Op::Observe(Read::Obs(plain));
                        out.push(s);
                    }
                }
                Op::Observe(Read::Optic(o)) => {
                    if let CoordSpec::Worldline { wl, at } = &o.coord {
                        let lower = |t: u64| if t > 8 { 8 } else { t - 1 };
                        let at2 = match at {
                            OAt::Tick(t) if *t > 0 => Some(OAt::Tick(lower(*t))),
                            OAt::Prov { wl: pw, tick, true_hash } if *tick > 0 => Some(OAt::Prov { wl: *pw, tick: lower(*tick), true_hash: *true_hash }),
                            _ => None,
                        };
                        if let Some(at2) = at2 {
                            let mut s = self.clone();
                            s.ops[oi] = Op::Observe(Read::Optic(OpticSpec { coord: CoordSpec::Worldline { wl: *wl, at: at2 }, ..o.clone() }));
                            out.push(s);
                        }
                    }
                    let plain = OpticSpec { max_bytes: Some(1024), max_nodes: None, max_ticks: None, max_attachments: None, explicit_descent: false, proj_ver: 0, reducer: None, cap: 0, optic: 0, ..o.clone() };
                    if plain != *o {
                        let mut s = self.clone();
                        s.ops[oi] = Op::Observe(Read::Optic(plain));
                        out.push(s);
                    }
                }
                _ => {}
            }
        }
        if self.world.workers > 1 {
            let mut s = self.clone();
            s.world.workers = 1;
            out.push(s);
        }
        // 7. smaller initial states (a candidate whose state no longer builds, or whose programs no
        //    longer apply, changes the class and is discarded by the shrinker)
        for wi in 0..self.world.worldlines.len() {
            let n_inst = self.world.worldlines[wi].state.insts.len();
            if n_inst > 1 {
                let mut s = self.clone();
                s.world.worldlines[wi].state.insts.pop();
                out.push(s);
            }
            for ii in 0..n_inst {
                let inst = &self.world.worldlines[wi].state.insts[ii];
                macro_rules! smaller {
                    ($field:ident) => {
                        if !inst.$field.is_empty() {
                            let mut s = self.clone();
                            s.world.worldlines[wi].state.insts[ii].$field.clear();
                            out.push(s);
                            if inst.$field.len() > 1 {
                                let mut s = self.clone();
                                s.world.worldlines[wi].state.insts[ii].$field.pop();
                                out.push(s);
                            }
                        }
                    };
                }
                smaller!(edge_atts);
                smaller!(node_atts);
                smaller!(edges);
                smaller!(nodes);
            }
        }
        if self.install_query && !self.ops.iter().any(|o| matches!(o, Op::Observe(Read::Obs(ObsSpec { proj: ProjSpec::Query { .. }, .. })))) {
            let mut s = self.clone();
            s.install_query = false;
            out.push(s);
        }
        out
    }
}

// ---------------------------------------------------------------------------
// Execution
// ---------------------------------------------------------------------------

#[derive(Clone, PartialEq, Eq)]
struct Fp {
    r: Fingerprint,
    p: Fingerprint,
    e: [u8; 32],
}

/// Top-level-field fingerprints of the compact `{:?}` renderings (see `fp.rs`; the two `host_test`
/// instrumentation fields are excluded there exactly as in the shared `fingerprint`).
/// The recorded history re-appended to a fresh provenance service with outputs on every entry;
/// `None` when it cannot be rebuilt this way (forked lanes, construction errors).
fn decorate_history(w: &World) -> Option<warp_core::ProvenanceService> {
    let mut rebuilt = warp_core::ProvenanceService::new();
    for wl in &w.spec.worldlines {
        let st = wl.state.build().ok()?;
        let base = warp_core::WorldlineState::new(st, wl.state.root_key()).ok()?;
        rebuilt.register_worldline(wl_id(wl.id), &base).ok()?;
    }
    let mut all = Vec::new();
    for wl in &w.spec.worldlines {
        let n = w.provenance.len(wl_id(wl.id)).ok()?;
        for t in 0..n {
            all.push(w.provenance.entry(wl_id(wl.id), warp_core::WorldlineTick::from_raw(t)).ok()?);
        }
    }
    all.sort_by_key(|e| (e.commit_global_tick, e.worldline_id, e.worldline_tick));
    for mut e in all {
        let t = e.worldline_tick.as_u64();
        e.outputs = (0..3u8).map(|i| (req::channel(i), vec![0x16, t as u8, i])).collect();
        rebuilt.append_local_commit(e).ok()?;
    }
    Some(rebuilt)
}

fn take_fp(w: &World) -> Fp {
    Fp { r: fp::compact_fingerprint(&format!("{:?}", w.runtime)), p: fp::compact_fingerprint(&format!("{:?}", w.provenance)), e: w.fp_engine() }
}

fn fp_violation(before: &Fp, after: &Fp, what: &str) -> Option<V> {
    let dr = before.r.diff(&after.r);
    if !dr.is_empty() {
        return Some((format!("read_mutated_runtime:{}", dr.join("+")), format!("{what}: runtime fields changed by a read: {dr:?}")));
    }
    let dp = before.p.diff(&after.p);
    if !dp.is_empty() {
        return Some((format!("read_mutated_provenance:{}", dp.join("+")), format!("{what}: provenance fields changed by a read: {dp:?}")));
    }
    if before.e != after.e {
        return Some(("read_mutated_engine".to_owned(), format!("{what}: engine fingerprint changed by a read")));
    }
    None
}

enum Asked {
    Obs { req: ObservationRequest, base: Option<ObservationArtifact>, base_commits: u64 },
    Optic { req: ObserveOpticRequest, base: Option<(OpticReading, u64)>, base_commits: u64 },
}

struct Exec {
    truth: Truth,
    asked: Vec<Asked>,
    fp: Option<Fp>,
    reads: u64,
    /// number of successful commits so far (all worldlines)
    commits: u64,
    forked: bool,
    last_observed_after: Option<u64>,
    /// artifact hash -> artifact with the hash field blanked; read identity hash -> identity
    art_by_hash: BTreeMap<H, ObservationArtifact>,
    id_by_hash: BTreeMap<H, warp_core::ReadIdentity>,
    /// (worldline, tick) -> state root of the state replayed at cursor tick+1
    replayed: BTreeMap<(u8, u64), H>,
    dirty_since_reask: bool,
    nontrivial: bool,
    /// lagging-history fault: (commit passes to wait for, snapshot once taken)
    lag_after: Option<u8>,
    lag: Option<warp_core::ProvenanceService>,
    lag_taken_at: u8,
    /// recorded-outputs surface: (commit count it was built at, history re-appended with outputs)
    deco: Option<(u64, Option<warp_core::ProvenanceService>)>,
    committing_passes: u8,
}

fn retention_posture() -> Result<RetentionPosture, String> {
    let origin = OriginId::from_bytes([0x41; 32]);
    let authority = AuthorityDomainRef::new(origin, AuthorityDomainId::from_bytes([0x42; 32]));
    let ca = CausalAuthority::new(origin, ActorId::from_bytes([0x43; 32]), authority, AuthorityBinding::LocalUnbound { origin }, SealStrength::Advisory).map_err(|e| format!("{e:?}"))?;
    RetentionPosture::new(CausalPosture::AuthorOnly, PostureDerivation::ExplicitIntent, ca, RetentionContractId::from_bytes([0x44; 32]), None).map_err(|e| format!("{e:?}"))
}

fn cbor<T: serde::Serialize>(x: &T) -> Vec<u8> {
    echo_wasm_abi::encode_cbor(x).unwrap_or_else(|e| format!("encode error: {e:?}").into_bytes())
}

impl Exec {
    fn new(s: &C16) -> Self {
        let mut truth = Truth { query_installed: s.install_query, ..Truth::default() };
        for wl in &s.world.worldlines {
            truth.wls.insert(wl.id, Vec::new());
        }
        Exec {
            truth,
            asked: Vec::new(),
            fp: None,
            reads: 0,
            commits: 0,
            forked: false,
            last_observed_after: None,
            art_by_hash: BTreeMap::new(),
            id_by_hash: BTreeMap::new(),
            replayed: BTreeMap::new(),
            dirty_since_reask: false,
            nontrivial: false,
            lag_after: s.lag_after,
            lag: None,
            lag_taken_at: 0,
            deco: None,
            committing_passes: 0,
        }
    }

    /// Recorded-outputs surface. The runtime commit path clears the bus, so the runtime's own entries
    /// never carry outputs and every RecordedTruth payload would be empty. The recorded history is
    /// therefore re-appended to a fresh provenance service with outputs on every entry (outputs are
    /// not hash-bound; channels 0..3, payload = [0x16, tick, channel]) and every served truth-channel
    /// ask is re-issued against it: the payload must be exactly the (filtered) outputs of the entry
    /// whose commit hash the artifact names. A history that cannot be re-appended (forks) or an ask
    /// that is refused there is counted, never reported.
    fn ask_decorated(&mut self, read: &Read, full: &Result<ObservationArtifact, ObservationError>, w: &World, ctx: &mut RunCtx, oi: usize) -> Result<(), V> {
        let Read::Obs(spec) = read else { return Ok(()) };
        let req = obs_request(spec);
        let ObservationProjection::TruthChannels { channels } = &req.projection else { return Ok(()) };
        if self.forked || full.is_err() {
            return Ok(());
        }
        if self.deco.as_ref().map(|(c, _)| *c) != Some(self.commits) {
            self.deco = Some((self.commits, decorate_history(w)));
        }
        let Some((_, Some(deco))) = self.deco.as_ref() else {
            ctx.hit("reach.recorded_outputs_history_not_rebuilt");
            return Ok(());
        };
        let r = kernel::catch(|| ObservationService::observe(&w.runtime, deco, &w.engine, req.clone())).map_err(|p| ("observe_panicked".to_owned(), format!("history with recorded outputs: observe({req:?}) panicked: {p}")))?;
        let a = match r {
            Ok(a) => a,
            Err(e) => {
                ctx.hit(&format!("reach.recorded_outputs_refused.{}", err_kind(&e)));
                return Ok(());
            }
        };
        let wl = a.resolved.worldline_id;
        let n = deco.len(wl).unwrap_or(0);
        let mut exp: Vec<(warp_core::TypeId, Vec<u8>)> = Vec::new();
        for t in 0..n {
            if let Ok(e) = deco.entry(wl, warp_core::WorldlineTick::from_raw(t)) {
                if e.expected.commit_hash == a.resolved.commit_hash {
                    exp = e.outputs.into_iter().filter(|(c, _)| channels.as_ref().map_or(true, |f| f.contains(c))).collect();
                }
            }
        }
        let ObservationPayload::TruthChannels(got) = &a.payload else {
            return Err(("reading_not_at_coordinate:recorded_outputs.payload_kind".to_owned(), format!("op#{oi}: {req:?} answered with {:?}", a.payload)));
        };
        ctx.hit("reach.recorded_outputs_reading");
        if !exp.is_empty() {
            ctx.hit("reach.recorded_outputs_reading_nonempty");
        }
        if *got != exp {
            return Err(("reading_not_at_coordinate:recorded_outputs".to_owned(), format!("op#{oi}: {req:?} resolved to commit {:02x?} at tick {:?} but its payload {got:?} is not that entry's recorded outputs {exp:?}", &a.resolved.commit_hash[..4], a.resolved.resolved_worldline_tick)));
        }
        Ok(())
    }

    /// Lagging-history fault: the same request against the live runtime and an older provenance
    /// service. Unavailable history must be a typed refusal; a reading is only acceptable when it is
    /// the reading the full history gives.
    fn ask_lagging(&mut self, read: &Read, full_obs: Option<&Result<ObservationArtifact, ObservationError>>, full_optic: Option<&ObserveOpticResult>, w: &World, ctx: &mut RunCtx, oi: usize) -> Result<(), V> {
        let Some(lag) = self.lag.clone() else { return Ok(()) };
        if self.committing_passes <= self.lag_taken_at {
            return Ok(()); // nothing lags yet
        }
        ctx.hit("fault.provenance_lags_runtime");
        let before_r = fp::compact_fingerprint(&format!("{:?}", w.runtime));
        let before_p = format!("{lag:?}");
        match (read, full_obs, full_optic) {
            (Read::Obs(spec), Some(full), _) => {
                let req = obs_request(spec);
                self.reads += 1;
                let r = kernel::catch(|| ObservationService::observe(&w.runtime, &lag, &w.engine, req.clone())).map_err(|p| ("observe_panicked".to_owned(), format!("lagging history: observe({req:?}) panicked: {p}")))?;
                match (&r, full) {
                    (Err(e), _) => ctx.hit(&format!("reach.lagging_refused.{}", err_kind(e))),
                    (Ok(a), Ok(f)) => {
                        if let Some(field) = diff_artifact(f, a) {
                            return Err((format!("reading_of_unavailable_history:{field}"), format!("op#{oi}: {req:?} against a provenance service that lags the runtime answered {a:?}; with the full history: {f:?}")));
                        }
                        ctx.hit("reach.lagging_served_same_reading");
                    }
                    (Ok(a), Err(e)) => {
                        return Err(("reading_of_unavailable_history:refused_with_full_history".to_owned(), format!("op#{oi}: {req:?} is refused with the full history ({e:?}) but served against a lagging one: {a:?}")));
                    }
                }
            }
            (Read::Optic(spec), _, Some(full)) => {
                let truth = &self.truth;
                let recorded = |wl: u8, t: u64| truth.fact(wl, t).map(|f| f.commit_hash);
                let req = optic_request(spec, &recorded);
                self.reads += 1;
                let r = kernel::catch(|| ObservationService::observe_optic(&w.runtime, &lag, &w.engine, req.clone())).map_err(|p| ("observe_panicked".to_owned(), format!("lagging history: observe_optic({req:?}) panicked: {p}")))?;
                match (&r, full) {
                    (ObserveOpticResult::Obstructed(o), _) => ctx.hit(&format!("reach.lagging_obstructed.{}", obstruction_kind(o.kind))),
                    (ObserveOpticResult::Reading(a), ObserveOpticResult::Reading(f)) => {
                        if let Some(field) = diff_optic(f, a, false) {
                            return Err((format!("reading_of_unavailable_history:optic.{field}"), format!("op#{oi}: {req:?} against a lagging provenance service answered {a:?}; with the full history: {f:?}")));
                        }
                        ctx.hit("reach.lagging_served_same_reading");
                    }
                    (ObserveOpticResult::Reading(a), ObserveOpticResult::Obstructed(o)) => {
                        return Err(("reading_of_unavailable_history:optic.refused_with_full_history".to_owned(), format!("op#{oi}: {req:?} is obstructed with the full history ({o:?}) but served against a lagging one: {a:?}")));
                    }
                }
            }
            _ => {}
        }
        if !before_r.diff(&fp::compact_fingerprint(&format!("{:?}", w.runtime))).is_empty() || format!("{lag:?}") != before_p {
            return Err(("read_mutated_state:lagging".to_owned(), format!("op#{oi}: a read against a lagging provenance service changed the runtime or that service")));
        }
        Ok(())
    }

    fn run(&mut self, s: &C16, w: &mut World, ctx: &mut RunCtx) -> Result<(), V> {
        if self.lag_after == Some(0) {
            self.lag = Some(w.provenance.clone());
        }
        for (oi, op) in s.ops.iter().enumerate() {
            match op {
                Op::Deliver(intent) => {
                    let r = w.deliver(intent);
                    ctx.trace_str(&format!("deliver {}", r.is_ok()));
                    ctx.count("time.deliveries", 1);
                    self.fp = None;
                }
                Op::Pass => {
                    let before_pass = self.fp.take();
                    let r = w.pass();
                    ctx.count("time.passes", 1);
                    match r {
                        PassResult::Ok(records) => {
                            ctx.trace_str(&format!("pass {}", records.len()));
                            self.record(&records, w)?;
                            if !records.is_empty() {
                                self.committing_passes = self.committing_passes.saturating_add(1);
                                if self.lag.is_none() && self.lag_after == Some(self.committing_passes) {
                                    self.lag = Some(w.provenance.clone());
                                    self.lag_taken_at = self.committing_passes;
                                }
                                // harness self-check: the fingerprint must notice a commit
                                let after_pass = take_fp(w);
                                if let Some(b) = before_pass {
                                    if b.r.diff(&after_pass.r).is_empty() || b.p.diff(&after_pass.p).is_empty() {
                                        return Err(("harness_fingerprint_insensitive".to_owned(), format!("op#{oi}: a pass committed {} ticks but the runtime/provenance fingerprint did not move", records.len())));
                                    }
                                    ctx.hit("reach.fingerprint_saw_commit");
                                }
                                self.fp = Some(after_pass);
                                ctx.count("time.commits", records.len() as u64);
                                self.dirty_since_reask = true;
                                self.reask_all(w, ctx, &format!("op#{oi} after pass"))?;
                            }
                        }
                        PassResult::Err(e) => {
                            ctx.trace_str("pass err");
                            ctx.hit("reach.pass_failed");
                            let _ = e;
                        }
                        PassResult::Panic(_) => {
                            ctx.trace_str("pass panic");
                            ctx.hit("reach.pass_panicked");
                        }
                    }
                }
                Op::Fork { src, tick_sel } => {
                    if self.forked {
                        continue;
                    }
                    let Some(len) = self.truth.len(*src) else { continue };
                    let fork_tick = if len == 0 { 0 } else { u64::from(*tick_sel) % len };
                    let posture = retention_posture().map_err(|e| ("harness_posture".to_owned(), e))?;
                    let request = ForkStrandRequest {
                        strand_id: req::strand_id(),
                        source_lane_id: wl_id(*src),
                        fork_tick: WorldlineTick::from_raw(fork_tick),
                        child_worldline_id: wl_id(CHILD_WL),
                        writer_heads: vec![WriterHead::with_routing(head_key(CHILD_WL, 0), PlaybackMode::Play, InboxPolicy::AcceptAll, None, true)],
                        retention_posture: posture,
                    };
                    self.fp = None;
                    let (rt, pv) = (&mut w.runtime, &mut w.provenance);
                    match kernel::catch(move || rt.fork_strand(pv, request)) {
                        Ok(Ok(_)) => {
                            ctx.trace_str("fork ok");
                            ctx.hit("reach.fork");
                            self.forked = true;
                            let prefix: Vec<TickFact> = self.truth.wls.get(src).map(|v| v[..=(fork_tick as usize)].to_vec()).unwrap_or_default();
                            self.truth.wls.insert(CHILD_WL, prefix);
                            self.truth.child_of = Some((*src, fork_tick));
                            // the child inherits the parent's checkpoints up to the fork
                            let e = self.truth.ckpt_epoch(*src);
                            if e > 0 {
                                self.truth.ckpts.insert(CHILD_WL, e);
                            }
                            self.dirty_since_reask = true;
                            self.reask_all(w, ctx, &format!("op#{oi} after fork"))?;
                        }
                        Ok(Err(_)) => {
                            ctx.trace_str("fork rejected");
                            ctx.hit("reach.fork_rejected");
                        }
                        Err(_) => {
                            ctx.trace_str("fork panicked");
                            ctx.hit("reach.fork_panicked");
                        }
                    }
                }
                Op::Checkpoint { wl } => {
                    if self.truth.len(*wl).is_none() {
                        continue;
                    }
                    let id = wl_id(*wl);
                    let Some(state) = w.runtime.worldlines().get(&id).map(|f| f.state().clone()) else { continue };
                    self.fp = None;
                    let pv = &mut w.provenance;
                    match kernel::catch(move || pv.checkpoint(id, &state)) {
                        Ok(Ok(_)) => {
                            ctx.trace_str("checkpoint ok");
                            ctx.hit("reach.checkpoint");
                            *self.truth.ckpts.entry(*wl).or_insert(0) += 1;
                            self.dirty_since_reask = true;
                            self.reask_all(w, ctx, &format!("op#{oi} after checkpoint"))?;
                        }
                        _ => {
                            ctx.trace_str("checkpoint rejected");
                            ctx.hit("reach.checkpoint_rejected");
                        }
                    }
                }
                Op::Observe(read) => {
                    if self.reads + 2 > MAX_READS {
                        ctx.hit("reach.read_budget_exhausted");
                        continue;
                    }
                    self.first_ask(read, w, ctx, oi)?;
                }
            }
        }
        if self.dirty_since_reask || !self.asked.is_empty() {
            self.reask_all(w, ctx, "end of run")?;
        }
        Ok(())
    }

    fn record(&mut self, records: &[StepRecord], w: &World) -> Result<(), V> {
        let warps = (0..ids::N_WARPS).map(ids::warp).collect::<Vec<_>>();
        for (i, r) in records.iter().enumerate() {
            let Some(wl) = wl_index(&r.head_key.worldline_id) else {
                return Err(("truth_bookkeeping".to_owned(), format!("commit on unknown worldline {:?}", r.head_key)));
            };
            let last_of_wl = !records[i + 1..].iter().any(|x| x.head_key.worldline_id == r.head_key.worldline_id);
            let abs_state = if last_of_wl { w.runtime.worldlines().get(&r.head_key.worldline_id).map(|f| abs(f.state().warp_state(), &warps)) } else { None };
            let v = self.truth.wls.entry(wl).or_default();
            v.push(TickFact { state_root: r.state_root, commit_hash: r.commit_hash, global_tick: r.commit_global_tick.as_u64(), abs: abs_state });
            if r.worldline_tick_after.as_u64() != v.len() as u64 {
                return Err(("truth_bookkeeping".to_owned(), format!("step record says tick_after {} but the harness counted {} commits on worldline {wl}", r.worldline_tick_after.as_u64(), v.len())));
            }
            self.commits += 1;
        }
        // the shared world's ground truth must agree for the worldlines it tracks
        for (wl, live) in &w.live {
            let v = self.truth.wls.get(wl).map(Vec::as_slice).unwrap_or(&[]);
            let ok = live.len() == v.len() && live.iter().zip(v).all(|(l, f)| l.state_root == f.state_root && l.commit_hash == f.commit_hash && l.global_tick == f.global_tick);
            if !ok {
                return Err(("truth_bookkeeping".to_owned(), format!("world.live disagrees with the step records on worldline {wl}")));
            }
        }
        Ok(())
    }

    fn fp_before(&mut self, w: &World) -> Fp {
        match self.fp.take() {
            Some(f) => f,
            None => take_fp(w),
        }
    }

    fn fp_after(&mut self, w: &World, before: &Fp, when: &str, what: &str) -> Result<(), V> {
        let after = take_fp(w);
        if let Some(v) = fp_violation(before, &after, &format!("{when}: re-issued {what}")) {
            return Err(v);
        }
        self.fp = Some(after);
        Ok(())
    }

    fn empty_root(&self, w: &World, id: &warp_core::WorldlineId) -> Option<H> {
        let wl = wl_index(id)?;
        if self.truth.len(wl)? != 0 {
            return None;
        }
        w.runtime.worldlines().get(id).map(|f| f.state().state_root())
    }

    fn observe(&mut self, w: &World, req: &ObservationRequest) -> Result<Result<ObservationArtifact, ObservationError>, V> {
        self.reads += 1;
        let r = req.clone();
        kernel::catch(|| ObservationService::observe(&w.runtime, &w.provenance, &w.engine, r)).map_err(|p| ("observe_panicked".to_owned(), format!("observe({req:?}) panicked: {p}")))
    }

    fn observe_optic(&mut self, w: &World, req: &ObserveOpticRequest) -> Result<ObserveOpticResult, V> {
        self.reads += 1;
        let r = req.clone();
        kernel::catch(|| ObservationService::observe_optic(&w.runtime, &w.provenance, &w.engine, r)).map_err(|p| ("observe_panicked".to_owned(), format!("observe_optic({req:?}) panicked: {p}")))
    }

    /// Checks that hold for every served artifact regardless of when it was asked.
    fn artifact_common(&mut self, w: &World, req: &ObservationRequest, a: &ObservationArtifact, ctx: &mut RunCtx) -> Result<(), V> {
        // observation time is monotone
        let obs = a.resolved.observed_after_global_tick.map(|g| g.as_u64());
        if let (Some(prev), now) = (self.last_observed_after, obs) {
            if now.is_none_or(|n| n < prev) {
                return Err(("observed_after_not_monotone".to_owned(), format!("observed_after_global_tick went from {prev} to {now:?}")));
            }
        }
        if obs.is_some() {
            self.last_observed_after = obs;
        }
        // the artifact hash is an identity: equal content <=> equal hash (within this run)
        let mut blank = a.clone();
        blank.artifact_hash = [0; 32];
        match self.art_by_hash.get(&a.artifact_hash) {
            Some(prev) if *prev != blank => {
                return Err(("artifact_hash_collision".to_owned(), format!("two different artifacts share artifact_hash {}: {prev:?} vs {blank:?}", hex::encode(a.artifact_hash))));
            }
            Some(_) => {}
            None => {
                if let Some((h, _)) = self.art_by_hash.iter().find(|(_, v)| **v == blank) {
                    return Err(("same_request_different_artifact:artifact_hash".to_owned(), format!("identical artifact content hashed to {} and {}", hex::encode(h), hex::encode(a.artifact_hash))));
                }
                self.art_by_hash.insert(a.artifact_hash, blank);
            }
        }
        // the state replayed at the coordinate has the root the reading reports
        if let (ObservationAt::Tick(t), Some(wl)) = (req.coordinate.at, wl_index(&req.coordinate.worldline_id)) {
            let key = (wl, t.as_u64());
            let root = match self.replayed.get(&key) {
                Some(r) => *r,
                None => {
                    let id = req.coordinate.worldline_id;
                    let Some(frontier) = w.runtime.worldlines().get(&id) else { return Ok(()) };
                    let Some(cursor) = t.checked_increment() else { return Ok(()) };
                    let st = kernel::catch(|| w.provenance.replay_worldline_state_at(id, frontier.state(), cursor))
                        .map_err(|p| ("replay_panicked".to_owned(), p))?
                        .map_err(|e| ("reading_not_at_coordinate:replay_unavailable".to_owned(), format!("a reading was served at worldline {wl} tick {} but replay to that coordinate fails: {e:?}", t.as_u64())))?;
                    ctx.hit("reach.replay_crosscheck");
                    let r = st.state_root();
                    self.replayed.insert(key, r);
                    r
                }
            };
            if root != a.resolved.state_root {
                return Err(("reading_not_at_coordinate:replayed_state_root".to_owned(), format!("worldline {wl} tick {}: reading says state_root {} but the state replayed at that coordinate has root {}", t.as_u64(), hex::encode(a.resolved.state_root), hex::encode(root))));
            }
        }
        Ok(())
    }

    fn optic_common(&mut self, rd: &OpticReading) -> Result<(), V> {
        let mut blank = rd.read_identity.clone();
        blank.read_identity_hash = [0; 32];
        let h = rd.read_identity.read_identity_hash;
        match self.id_by_hash.get(&h) {
            Some(prev) if *prev != blank => Err(("read_identity_hash_collision".to_owned(), format!("two different read identities share hash {}: {prev:?} vs {blank:?}", hex::encode(h)))),
            Some(_) => Ok(()),
            None => {
                if let Some((h2, _)) = self.id_by_hash.iter().find(|(_, v)| **v == blank) {
                    return Err(("same_request_different_artifact:read_identity_hash".to_owned(), format!("identical read identity hashed to {} and {}", hex::encode(h2), hex::encode(h))));
                }
                self.id_by_hash.insert(h, blank);
                Ok(())
            }
        }
    }

    fn first_ask(&mut self, read: &Read, w: &World, ctx: &mut RunCtx, oi: usize) -> Result<(), V> {
        let before = self.fp_before(w);
        ctx.count("time.reads", 1);
        if self.forked {
            ctx.hit("reach.after_fork");
        }
        match read {
            Read::Obs(spec) => {
                let req = obs_request(spec);
                ctx.hit(&format!("reach.request.{}.{}", frame_name(req.frame), proj_name(&req.projection)));
                let r1 = self.observe(w, &req)?;
                let r2 = self.observe(w, &req)?;
                let after = take_fp(w);
                if let Some(v) = fp_violation(&before, &after, &format!("op#{oi} observe({req:?})")) {
                    return Err(v);
                }
                self.fp = Some(after);
                ctx.trace_str(&format!("{r1:?}"));
                // (b) same request, same history
                if r1 != r2 {
                    return Err(("same_request_different_artifact".to_owned(), format!("op#{oi}: {req:?} issued twice in a row: {r1:?} vs {r2:?}")));
                }
                if let (Ok(a), Ok(b)) = (&r1, &r2) {
                    if a.artifact_hash != b.artifact_hash || cbor(&a.to_abi()) != cbor(&b.to_abi()) {
                        return Err(("same_request_different_artifact:abi".to_owned(), format!("op#{oi}: {req:?} issued twice in a row encodes differently")));
                    }
                }
                let empty_root = self.empty_root(w, &req.coordinate.worldline_id);
                check_obs(&req, &r1, &self.truth, empty_root)?;
                match &r1 {
                    Ok(a) => {
                        self.artifact_common(w, &req, a, ctx)?;
                        if matches!(a.projection, ObservationProjection::Query { .. }) {
                            ctx.hit("reach.query_observer");
                        }
                        if wl_index(&req.coordinate.worldline_id) == Some(CHILD_WL) {
                            ctx.hit("reach.child_read");
                        }
                        if req.coordinate.at == ObservationAt::Frontier {
                            ctx.hit("reach.frontier_reading");
                        } else {
                            ctx.hit("reach.historical_reading");
                        }
                    }
                    Err(e) => ctx.hit(&format!("reach.typed_error.{}", err_kind(e))),
                }
                self.ask_lagging(read, Some(&r1), None, w, ctx, oi)?;
                self.ask_decorated(read, &r1, w, ctx, oi)?;
                if matches!(req.coordinate.at, ObservationAt::Tick(_)) && self.room_for(r1.is_ok()) && !self.asked.iter().any(|a| matches!(a, Asked::Obs { req: q, .. } if *q == req)) {
                    self.asked.push(Asked::Obs { req, base: r1.ok(), base_commits: self.commits });
                }
            }
            Read::Optic(spec) => {
                let truth = &self.truth;
                let recorded = |wl: u8, t: u64| truth.fact(wl, t).map(|f| f.commit_hash);
                let unanchored = req::prov_unanchored(spec, &recorded);
                let req = optic_request(spec, &recorded);
                let r1 = self.observe_optic(w, &req)?;
                let r2 = self.observe_optic(w, &req)?;
                let after = take_fp(w);
                if let Some(v) = fp_violation(&before, &after, &format!("op#{oi} observe_optic({req:?})")) {
                    return Err(v);
                }
                self.fp = Some(after);
                ctx.trace_str(&format!("{r1:?}"));
                if r1 != r2 || cbor(&r1.to_abi()) != cbor(&r2.to_abi()) {
                    return Err(("same_request_different_artifact:optic".to_owned(), format!("op#{oi}: {req:?} issued twice in a row: {r1:?} vs {r2:?}")));
                }
                let empty_root = optic_target(&req).and_then(|(id, _, _)| self.empty_root(w, &id));
                check_optic(&req, &r1, &self.truth, empty_root)?;
                let base = match &r1 {
                    ObserveOpticResult::Reading(rd) => {
                        ctx.hit("reach.optic_read");
                        if matches!(rd.read_identity.witness_basis, WitnessBasis::CheckpointPlusTail { .. }) {
                            ctx.hit("reach.optic_checkpoint_plus_tail");
                        }
                        if matches!(&req.coordinate, EchoCoordinate::Worldline { at: warp_core::CoordinateAt::Provenance(_), .. }) {
                            ctx.hit("reach.optic_provenance_coordinate_read");
                        }
                        self.optic_common(rd)?;
                        Some(((**rd).clone(), self.epoch_of(&req)))
                    }
                    ObserveOpticResult::Obstructed(o) => {
                        ctx.hit(&format!("reach.optic_obstruction.{}", obstruction_kind(o.kind)));
                        None
                    }
                };
                self.ask_lagging(read, None, Some(&r1), w, ctx, oi)?;
                if optic_is_historical(&req) && !unanchored && self.room_for(base.is_some()) && !self.asked.iter().any(|a| matches!(a, Asked::Optic { req: q, .. } if *q == req)) {
                    self.asked.push(Asked::Optic { req, base, base_commits: self.commits });
                }
            }
        }
        Ok(())
    }

    fn room_for(&self, served: bool) -> bool {
        let refused = self.asked.iter().filter(|a| matches!(a, Asked::Obs { base: None, .. } | Asked::Optic { base: None, .. })).count();
        self.asked.len() < MAX_ASKED && (served || refused < MAX_ASKED_REFUSED)
    }

    fn epoch_of(&self, req: &ObserveOpticRequest) -> u64 {
        optic_target(req).and_then(|(id, _, _)| wl_index(&id)).map_or(0, |wl| self.truth.ckpt_epoch(wl))
    }

    /// Re-issue every historical request against the history as it is now.
    fn reask_all(&mut self, w: &World, ctx: &mut RunCtx, when: &str) -> Result<(), V> {
        self.dirty_since_reask = false;
        if self.asked.is_empty() {
            return Ok(());
        }
        let mut asked = std::mem::take(&mut self.asked);
        let mut result = Ok(());
        for a in &mut asked {
            if self.reads + 1 > MAX_READS {
                ctx.hit("reach.read_budget_exhausted");
                break;
            }
            if let Err(v) = self.reask_one(a, w, ctx, when) {
                result = Err(v);
                break;
            }
        }
        self.asked = asked;
        result
    }

    fn reask_one(&mut self, a: &mut Asked, w: &World, ctx: &mut RunCtx, when: &str) -> Result<(), V> {
        ctx.count("time.reads", 1);
        let before = self.fp_before(w);
        match a {
            Asked::Obs { req, base, base_commits } => {
                let r = self.observe(w, req)?;
                self.fp_after(w, &before, when, &format!("{req:?}"))?;
                ctx.trace_str(&format!("{r:?}"));
                check_obs(req, &r, &self.truth, None)?;
                match (&r, base.as_ref()) {
                    (Ok(now), Some(then)) => {
                        self.artifact_common(w, req, now, ctx)?;
                        ctx.hit("reach.historical_reask");
                        if self.commits > *base_commits {
                            self.nontrivial = true;
                            ctx.hit("reach.historical_reask_after_commit");
                        }
                        if let Some(field) = diff_artifact(then, now) {
                            return Err((format!("historical_reading_changed:{field}"), format!("{when}: {req:?} first answered {then:?}, now answers {now:?}")));
                        }
                    }
                    (Ok(now), None) => {
                        self.artifact_common(w, req, now, ctx)?;
                        ctx.hit("reach.error_became_reading");
                        *base = Some(now.clone());
                        *base_commits = self.commits;
                    }
                    (Err(e), Some(then)) => {
                        return Err((format!("historical_reading_lost:{}", err_kind(e)), format!("{when}: {req:?} first answered {then:?}, now refused with {e:?}")));
                    }
                    (Err(_), None) => ctx.hit("reach.refusal_reasked"),
                }
            }
            Asked::Optic { req, base, base_commits } => {
                let r = self.observe_optic(w, req)?;
                self.fp_after(w, &before, when, &format!("{req:?}"))?;
                ctx.trace_str(&format!("{r:?}"));
                check_optic(req, &r, &self.truth, None)?;
                let epoch = self.epoch_of(req);
                match (&r, base.as_ref()) {
                    (ObserveOpticResult::Reading(now), Some((then, then_epoch))) => {
                        self.optic_common(now)?;
                        ctx.hit("reach.historical_reask");
                        ctx.hit("reach.optic_historical_reask");
                        if self.commits > *base_commits {
                            self.nontrivial = true;
                            ctx.hit("reach.historical_reask_after_commit");
                        }
                        if let Some(field) = diff_optic(then, now, *then_epoch == epoch) {
                            return Err((format!("historical_reading_changed:optic.{field}"), format!("{when}: {req:?} first answered {then:?}, now answers {now:?}")));
                        }
                        if *then_epoch != epoch {
                            if then.read_identity.witness_basis != now.read_identity.witness_basis {
                                ctx.hit("reach.optic_witness_basis_moved_with_checkpoint");
                            }
                            *base = Some(((**now).clone(), epoch));
                        }
                    }
                    (ObserveOpticResult::Reading(now), None) => {
                        self.optic_common(now)?;
                        ctx.hit("reach.error_became_reading");
                        *base = Some(((**now).clone(), epoch));
                        *base_commits = self.commits;
                    }
                    (ObserveOpticResult::Obstructed(o), Some((then, then_epoch))) => {
                        let live_tail = o.kind == warp_core::OpticObstructionKind::LiveTailRequiresReduction && *then_epoch != epoch;
                        if !live_tail {
                            return Err((format!("historical_reading_lost:optic.{}", obstruction_kind(o.kind)), format!("{when}: {req:?} first answered {then:?}, now obstructed with {o:?}")));
                        }
                        ctx.hit("reach.optic_live_tail_after_checkpoint");
                        *base = None;
                    }
                    (ObserveOpticResult::Obstructed(_), None) => ctx.hit("reach.refusal_reasked"),
                }
            }
        }
        Ok(())
    }
}
