//! C08 (d): intents with cited causal parents, the reference ingress-id formula written from the
//! documentation of `compute_ingress_id` / `canonical-inbox-sequencing.md`, and the identity check
//! "same (kind, bytes, parent set) <=> same ingress id".

use serde::{Deserialize, Serialize};
use warp_core::{CausalTickReceiptRef, GlobalTick, IngressCausalParent, IngressEnvelope, IngressTarget, WorldlineTick};

use crate::kernel::Outcome;
use crate::model::refinbox::ref_ingress_id;
use crate::world::runtime::{head_key, inbox_name, kind, wl_id, Intent, TargetSpec};

/// A cited causal parent as plain data. `role` 0 = tick receipt, 1 = contract-inverse target.
/// The four hash fields of the receipt coordinate are `[seed; 32]`-derived; `tweak` 1..=4 flips one
/// byte of exactly one of them, so that references differing in a single component can be generated.
#[derive(Clone, Debug, Serialize, Deserialize, PartialEq, Eq, PartialOrd, Ord)]
pub struct ParentSpec {
    pub role: u8,
    pub wl: u8,
    pub tick: u64,
    pub gt: u64,
    pub seed: u8,
    pub tweak: u8,
}

impl ParentSpec {
    fn hashes(&self) -> [[u8; 32]; 4] {
        let mut h = [[self.seed; 32], [self.seed ^ 0x55; 32], [self.seed.wrapping_add(1); 32], [self.seed.wrapping_add(2); 32]];
        if (1..=4).contains(&self.tweak) {
            h[usize::from(self.tweak) - 1][31] ^= 1;
        }
        h
    }

    pub fn receipt_ref(&self) -> CausalTickReceiptRef {
        let h = self.hashes();
        CausalTickReceiptRef {
            worldline_id: wl_id(self.wl),
            worldline_tick_after: WorldlineTick::from_raw(self.tick),
            commit_global_tick: GlobalTick::from_raw(self.gt),
            commit_hash: h[0],
            submission_id: h[1],
            ticket_digest: h[2],
            receipt_content_digest: h[3],
        }
    }

    pub fn real(&self) -> IngressCausalParent {
        if self.role == 1 {
            IngressCausalParent::ContractInverseTarget { receipt_ref: self.receipt_ref() }
        } else {
            IngressCausalParent::TickReceipt { receipt_ref: self.receipt_ref() }
        }
    }

    /// Canonical fixed-width bytes of the receipt coordinate (worldline id, tick after, global tick,
    /// commit hash, submission id, ticket digest, receipt content digest), written independently.
    fn ref_bytes(&self) -> Vec<u8> {
        let mut out = Vec::with_capacity(32 + 16 + 128);
        out.extend_from_slice(wl_id(self.wl).as_bytes());
        out.extend_from_slice(&self.tick.to_le_bytes());
        out.extend_from_slice(&self.gt.to_le_bytes());
        for h in self.hashes() {
            out.extend_from_slice(&h);
        }
        out
    }

    /// Sort key = (role, coordinate fields in declaration order).
    fn sort_key(&self) -> (u8, [u8; 32], u64, u64, [[u8; 32]; 4]) {
        (u8::from(self.role == 1), *wl_id(self.wl).as_bytes(), self.tick, self.gt, self.hashes())
    }
}

/// An intent as a client holds it: kind, program bytes, target, cited parents (client order, may
/// contain duplicates).
#[derive(Clone, Debug, Serialize, Deserialize, PartialEq, Eq)]
pub struct CIntent {
    pub base: Intent,
    pub parents: Vec<ParentSpec>,
}

pub fn real_target(t: &TargetSpec) -> IngressTarget {
    match t {
        TargetSpec::Default { wl } => IngressTarget::DefaultWriter { worldline_id: wl_id(*wl) },
        TargetSpec::Inbox { wl, name } => IngressTarget::InboxAddress { worldline_id: wl_id(*wl), inbox: inbox_name(*name) },
        TargetSpec::Exact { wl, head } => IngressTarget::ExactHead { key: head_key(*wl, *head) },
    }
}

impl CIntent {
    pub fn envelope(&self) -> IngressEnvelope {
        self.envelope_with_parent_order(&(0..self.parents.len()).collect::<Vec<_>>())
    }

    /// Envelope built with the parents listed in the given order (indexes may repeat or be missing
    /// only if the caller wants a different parent set).
    pub fn envelope_with_parent_order(&self, order: &[usize]) -> IngressEnvelope {
        let parents: Vec<IngressCausalParent> = order.iter().filter_map(|i| self.parents.get(*i)).map(ParentSpec::real).collect();
        IngressEnvelope::local_intent_with_causal_parents(real_target(&self.base.target), kind(self.base.kind), self.base.prog.encode(), parents)
    }

    pub fn has_reserved_role(&self) -> bool {
        self.parents.iter().any(|p| p.role == 1)
    }

    /// Content = what identity may depend on.
    pub fn content_key(&self) -> (u8, Vec<u8>, Vec<(u8, [u8; 32], u64, u64, [[u8; 32]; 4])>) {
        let mut parents: Vec<_> = self.parents.iter().map(ParentSpec::sort_key).collect();
        parents.sort();
        parents.dedup();
        (self.base.kind, self.base.prog.encode(), parents)
    }
}

/// Reference ingress id. Parent-less: `H("ingress:" || kind || bytes)`. With parents: separate
/// versioned domain, explicit lengths, parents as a sorted, deduplicated set with a role tag each.
pub fn ref_id(ci: &CIntent) -> [u8; 32] {
    if ci.parents.is_empty() {
        return ref_ingress_id(&ci.base);
    }
    let mut parents: Vec<&ParentSpec> = ci.parents.iter().collect();
    parents.sort_by_key(|p| p.sort_key());
    parents.dedup_by_key(|p| p.sort_key());
    let bytes = ci.base.prog.encode();
    let mut h = blake3::Hasher::new();
    h.update(b"ingress:causal:v2\0");
    h.update(kind(ci.base.kind).as_hash());
    h.update(&(bytes.len() as u64).to_le_bytes());
    h.update(&bytes);
    h.update(&(parents.len() as u64).to_le_bytes());
    for p in parents {
        if p.role == 1 {
            h.update(b"contract-inverse-target\0");
        } else {
            h.update(b"tick-receipt\0");
        }
        h.update(&p.ref_bytes());
    }
    *h.finalize().as_bytes()
}

/// (d) identity: every intent's real id equals the reference formula for any parent order and
/// duplication; over all pairs, equal content <=> equal id; the target never matters.
/// `perms[i]` is a parent index list (order + duplication) for intent `i` (fallback: reversed).
pub fn check_identity(all: &[&CIntent], perms: &[Vec<usize>]) -> Result<u64, Outcome> {
    let mut ids = Vec::with_capacity(all.len());
    let mut permuted = 0u64;
    for (i, ci) in all.iter().enumerate() {
        let env = crate::kernel::catch(|| ci.envelope()).map_err(|p| Outcome::violation("envelope_construction_panicked", p))?;
        let id = env.ingress_id();
        let want = ref_id(ci);
        if id != want {
            return Err(Outcome::violation(
                "ingress_id_not_content_addressed",
                format!("intent #{i}: runtime id {} differs from the documented formula {} (kind {}, {} parent refs)", hex::encode(id), hex::encode(want), ci.base.kind, ci.parents.len()),
            ));
        }
        if !ci.parents.is_empty() {
            let n = ci.parents.len();
            // the tape must mention every parent at least once (otherwise the set differs): complete it
            let mut order: Vec<usize> = perms.get(i).cloned().unwrap_or_default().into_iter().filter(|x| *x < n).collect();
            for k in (0..n).rev() {
                if !order.contains(&k) {
                    order.push(k);
                }
            }
            let env2 = ci.envelope_with_parent_order(&order);
            permuted += 1;
            if env2.ingress_id() != id {
                return Err(Outcome::violation(
                    "ingress_id_not_content_addressed",
                    format!("intent #{i}: citing the same parent set in order {order:?} (with duplicates) changed the id {} -> {}", hex::encode(id), hex::encode(env2.ingress_id())),
                ));
            }
            if env2.causal_parents() != env.causal_parents() {
                return Err(Outcome::violation("ingress_id_not_content_addressed", format!("intent #{i}: parent list is not canonicalised as a set (order {order:?})")));
            }
        }
        ids.push(id);
    }
    let keys: Vec<_> = all.iter().map(|ci| ci.content_key()).collect();
    for a in 0..all.len() {
        for b in a + 1..all.len() {
            let same_content = keys[a] == keys[b];
            let same_id = ids[a] == ids[b];
            if same_content && !same_id {
                return Err(Outcome::violation(
                    "ingress_id_not_content_addressed",
                    format!("intents #{a} and #{b} have identical kind, bytes and parent set (targets {:?} / {:?}) but ids {} / {}", all[a].base.target, all[b].base.target, hex::encode(ids[a]), hex::encode(ids[b])),
                ));
            }
            if !same_content && same_id {
                return Err(Outcome::violation(
                    "ingress_id_collision",
                    format!("intents #{a} and #{b} differ in kind, bytes or parent set but share id {}", hex::encode(ids[a])),
                ));
            }
        }
    }
    Ok(permuted)
}
