//! Graph-inbox surface (`sim/inbox`): `Engine::ingest_intent` + `dispatch_next_intent` + commit.
//!
//! The legacy ingress path of canonical-inbox-sequencing.md: an append-only ledger node per
//! intent, an `edge:pending` queue edge that `sys/ack_pending` removes when the intent is consumed.
//! A tape of Ingest(bytes) / Pass steps runs against a reference (ledger set, pending set, dispatch =
//! smallest pending id): first delivery Accepted, every retry - while pending *or after the
//! commit* - Duplicate without effect; an intent is consumed at most once; a twin tape with every
//! run of ingests reversed and extra retries consumes the same sequence and ends in the same state.

use std::collections::{BTreeMap, BTreeSet};

use serde::{Deserialize, Serialize};
use warp_core::inbox::ack_pending_rule;
use warp_core::{make_node_id, make_type_id, DispatchDisposition, Engine, GraphStore, IngestDisposition, NodeRecord};

use crate::kernel::{Outcome, Rng, RunCtx};

#[derive(Clone, Debug, Serialize, Deserialize, PartialEq, Eq)]
pub enum GOp {
    Ingest(usize),
    Pass,
}

#[derive(Clone, Debug, Default, Serialize, Deserialize, PartialEq, Eq)]
pub struct GraphInboxTape {
    pub intents: Vec<Vec<u8>>,
    pub ops: Vec<GOp>,
}

pub fn generate(rng: &mut Rng) -> GraphInboxTape {
    let n = rng.urange(1, 5);
    let intents: Vec<Vec<u8>> = (0..n)
        .map(|i| {
            let len = rng.urange(0, 12);
            let mut b = rng.bytes(len);
            b.push(i as u8); // distinct
            b
        })
        .collect();
    let n_ops = rng.urange(2, 16);
    let ops = (0..n_ops).map(|_| if rng.chance(3, 5) { GOp::Ingest(rng.usize_below(n)) } else { GOp::Pass }).collect();
    GraphInboxTape { intents, ops }
}

fn v(class: &str, detail: String) -> Outcome {
    Outcome::violation(format!("graph_inbox:{class}"), detail)
}

fn engine() -> Result<Engine, Outcome> {
    let root = make_node_id("root");
    let mut store = GraphStore::default();
    store.insert_node(root, NodeRecord { ty: make_type_id("root") });
    let mut e = Engine::new(store, root);
    e.register_rule(ack_pending_rule()).map_err(|err| v("harness_register_rule", format!("{err:?}")))?;
    Ok(e)
}

struct Ran {
    consumed: Vec<[u8; 32]>,
    state_root: [u8; 32],
}

fn run_tape(intents: &[Vec<u8>], ops: &[GOp], label: &str, ctx: &mut RunCtx) -> Result<Ran, Outcome> {
    let mut e = engine()?;
    let mut ids: BTreeMap<usize, [u8; 32]> = BTreeMap::new();
    let mut ledger: BTreeSet<usize> = BTreeSet::new();
    let mut pending: BTreeSet<[u8; 32]> = BTreeSet::new();
    let mut consumed: Vec<[u8; 32]> = Vec::new();
    // drain at the end so that twins are comparable on the final state
    let drain = std::iter::repeat(GOp::Pass).take(intents.len() + 1);
    for (i, op) in ops.iter().cloned().chain(drain).enumerate() {
        match op {
            GOp::Ingest(ix) => {
                let Some(bytes) = intents.get(ix) else { continue };
                let root_before = e.snapshot().state_root;
                let got = crate::kernel::catch(|| e.ingest_intent(bytes)).map_err(|p| v("ingest_panicked", format!("{label} op {i}: {p}")))?;
                let got = got.map_err(|err| v("ingest_failed", format!("{label} op {i}: {err:?}")))?;
                let first = !ledger.contains(&ix);
                match (&got, first) {
                    (IngestDisposition::Accepted { intent_id }, true) => {
                        if ids.values().any(|o| o == intent_id) {
                            return Err(v("intent_id_collision", format!("{label} op {i}: two different byte strings got one intent id")));
                        }
                        ids.insert(ix, *intent_id);
                        ledger.insert(ix);
                        pending.insert(*intent_id);
                    }
                    (IngestDisposition::Duplicate { intent_id }, false) => {
                        if ids.get(&ix) != Some(intent_id) {
                            return Err(v("intent_id_unstable", format!("{label} op {i}: a retry reported another intent id than the first delivery")));
                        }
                        if e.snapshot().state_root != root_before {
                            return Err(v("retry_changed_state", format!("{label} op {i}: a duplicate ingest changed the state root")));
                        }
                        if pending.contains(intent_id) {
                            ctx.hit("fault.retry_while_pending");
                        } else {
                            ctx.hit("fault.retry_after_commit");
                        }
                    }
                    (other, _) => {
                        let after_commit = ids.get(&ix).is_some_and(|id| !pending.contains(id));
                        return Err(v(
                            "retry_not_duplicate",
                            format!("{label} op {i}: ingest of intent #{ix} ({}) returned {other:?}", if first { "first delivery" } else if after_commit { "retry after its commit" } else { "retry while pending" }),
                        ));
                    }
                }
            }
            GOp::Pass => {
                let tx = e.begin();
                let got = crate::kernel::catch(|| e.dispatch_next_intent(tx)).map_err(|p| v("dispatch_panicked", format!("{label} op {i}: {p}")))?;
                let got = got.map_err(|err| v("dispatch_failed", format!("{label} op {i}: {err:?}")))?;
                e.commit(tx).map_err(|err| v("commit_failed", format!("{label} op {i}: {err:?}")))?;
                let exp = pending.iter().next().copied();
                let got_id = match got {
                    DispatchDisposition::Consumed { intent_id, .. } => Some(intent_id),
                    DispatchDisposition::NoPending => None,
                };
                if got_id != exp {
                    return Err(v("dispatch_order", format!("{label} op {i}: dispatched {:?}, reference (smallest pending id) {:?}", got_id.map(|h| hex::encode(&h[..4])), exp.map(|h| hex::encode(&h[..4])))));
                }
                if let Some(id) = got_id {
                    if consumed.contains(&id) {
                        return Err(v("consumed_twice", format!("{label} op {i}: intent {} consumed a second time", hex::encode(&id[..4]))));
                    }
                    consumed.push(id);
                    pending.remove(&id);
                }
            }
        }
        let n = e.pending_intent_count().map_err(|err| v("pending_count_failed", format!("{err:?}")))?;
        if n != pending.len() {
            return Err(v("pending_set", format!("{label} after op {i}: {n} pending intents, reference {}", pending.len())));
        }
    }
    Ok(Ran { consumed, state_root: e.snapshot().state_root })
}

pub fn check(tape: &GraphInboxTape, ctx: &mut RunCtx) -> Result<(), Outcome> {
    if tape.intents.is_empty() || tape.ops.is_empty() {
        return Ok(());
    }
    let base = run_tape(&tape.intents, &tape.ops, "tape", ctx)?;
    // twin: runs of ingests reversed, and every intent delivered so far retried after each pass
    let mut twin: Vec<GOp> = Vec::new();
    let mut run: Vec<GOp> = Vec::new();
    let mut seen: Vec<usize> = Vec::new();
    for op in &tape.ops {
        match op {
            GOp::Ingest(ix) => {
                if !seen.contains(ix) {
                    seen.push(*ix);
                }
                run.push(op.clone());
            }
            GOp::Pass => {
                twin.extend(run.drain(..).rev());
                twin.push(GOp::Pass);
                // retries of everything delivered before this pass: by the property they are no-ops
                run.extend(seen.iter().map(|ix| GOp::Ingest(*ix)));
            }
        }
    }
    twin.extend(run.drain(..).rev());
    let other = run_tape(&tape.intents, &twin, "twin(reversed runs + retries after every pass)", ctx)?;
    if other.consumed != base.consumed {
        return Err(v("order_dependent:consumed_sequence", format!("tape consumed {} intents, its twin {}", base.consumed.len(), other.consumed.len())));
    }
    if other.state_root != base.state_root {
        return Err(v("order_dependent:final_state", "final state roots differ between a tape and its retry/reorder twin".to_owned()));
    }
    ctx.hit("reach.graph_inbox_twin_compared");
    ctx.count("time.graph_inbox_ops", tape.ops.len() as u64);
    Ok(())
}
