//! Head-inbox surface: policy changes between admissions.
//!
//! A registered head's policy cannot be changed through the public API, but `HeadInbox` (and
//! `WriterHead::inbox_mut` before registration) can: a tape of Ingest / SetPolicy / Admit steps
//! runs against one standalone inbox and against a reference (pending = set of accepted ids that
//! pass the *current* policy; admit = all pending in id order, or the lowest `max` ids under a
//! budget). The same tape is also run with the ingests between two policy changes in another
//! order: every observation that does not name an arrival position must be the same.

use std::collections::BTreeSet;

use serde::{Deserialize, Serialize};
use warp_core::{HeadInbox, InboxPolicy};

use super::ident::{ref_id, CIntent};
use crate::kernel::{Outcome, Rng, RunCtx};
use crate::world::runtime::{head_key, PolicySpec};

#[derive(Clone, Debug, Serialize, Deserialize, PartialEq, Eq)]
pub enum IOp {
    Ingest(usize),
    SetPolicy(PolicySpec),
    Admit,
}

#[derive(Clone, Debug, Default, Serialize, Deserialize, PartialEq, Eq)]
pub struct InboxTape {
    pub initial: Option<PolicySpec>,
    pub ops: Vec<IOp>,
}

fn gen_policy(rng: &mut Rng) -> PolicySpec {
    match rng.weighted(&[2, 5, 2]) {
        0 => PolicySpec::AcceptAll,
        1 => {
            // kind filters of every size over kinds 0..=3, including empty and disjoint ones
            let mut k: Vec<u8> = (0..4u8).filter(|_| rng.chance(1, 2)).collect();
            if rng.chance(1, 8) {
                k.clear();
            }
            PolicySpec::Kinds(k)
        }
        _ => PolicySpec::Budget(rng.below(4) as u32),
    }
}

pub fn generate(rng: &mut Rng, n_intents: usize) -> InboxTape {
    if n_intents == 0 {
        return InboxTape::default();
    }
    let n = rng.urange(3, 14);
    let mut ops = Vec::with_capacity(n);
    for _ in 0..n {
        ops.push(match rng.weighted(&[5, 3, 2]) {
            0 => IOp::Ingest(rng.usize_below(n_intents)),
            1 => IOp::SetPolicy(gen_policy(rng)),
            _ => IOp::Admit,
        });
    }
    InboxTape { initial: Some(gen_policy(rng)), ops }
}

fn accepts(p: &PolicySpec, kind: u8) -> bool {
    match p {
        PolicySpec::Kinds(k) => k.contains(&kind),
        _ => true,
    }
}

fn v(class: &str, detail: String) -> Outcome {
    Outcome::violation(format!("inbox_surface:{class}"), detail)
}

fn pending_of(inbox: &HeadInbox) -> Vec<[u8; 32]> {
    let mut c = inbox.clone();
    c.set_policy(InboxPolicy::AcceptAll);
    c.admit().iter().map(|e| e.ingress_id()).collect()
}

/// Run one tape; returns the admitted batches (as id lists) and the final pending set.
fn run_tape(tape: &InboxTape, ops: &[IOp], intents: &[CIntent], label: &str, ctx: &mut RunCtx) -> Result<(Vec<Vec<[u8; 32]>>, Vec<[u8; 32]>), Outcome> {
    let Some(initial) = &tape.initial else { return Ok((vec![], vec![])) };
    let mut inbox = HeadInbox::new(head_key(0, 0), initial.real());
    let mut policy = initial.clone();
    let mut pending: BTreeSet<[u8; 32]> = BTreeSet::new();
    let mut kinds: std::collections::BTreeMap<[u8; 32], u8> = Default::default();
    let mut batches = Vec::new();
    for (i, op) in ops.iter().enumerate() {
        match op {
            IOp::Ingest(ix) => {
                let Some(ci) = intents.get(*ix) else { continue };
                let id = ref_id(ci);
                let env = ci.envelope();
                // (the result type is public-in-private: compared through its Debug rendering)
                let got = crate::kernel::catch(|| format!("{:?}", inbox.ingest(env))).map_err(|p| v("ingest_panicked", format!("{label} op {i}: {p}")))?;
                let exp = if !accepts(&policy, ci.base.kind) {
                    "Rejected"
                } else if pending.contains(&id) {
                    "Duplicate"
                } else {
                    pending.insert(id);
                    kinds.insert(id, ci.base.kind);
                    "Accepted"
                };
                if got != exp {
                    return Err(v("ingest_result", format!("{label} op {i}: ingest under {policy:?} returned {got:?}, reference {exp:?}")));
                }
            }
            IOp::SetPolicy(p) => {
                if matches!((&policy, p), (PolicySpec::Kinds(a), PolicySpec::Kinds(b)) if b.len() >= a.len() && !a.iter().all(|k| b.contains(k))) {
                    ctx.hit("reach.kind_filter_replaced_by_non_superset_of_at_least_equal_size");
                }
                inbox.set_policy(p.real());
                policy = p.clone();
                let before = pending.len();
                pending.retain(|id| accepts(&policy, kinds.get(id).copied().unwrap_or(0)));
                if pending.len() < before {
                    ctx.hit("reach.policy_change_evicted_pending");
                }
            }
            IOp::Admit => {
                let got: Vec<[u8; 32]> = inbox.admit().iter().map(|e| e.ingress_id()).collect();
                let take = match policy {
                    PolicySpec::Budget(n) => n as usize,
                    _ => usize::MAX,
                };
                let exp: Vec<[u8; 32]> = pending.iter().take(take).copied().collect();
                for id in &exp {
                    pending.remove(id);
                }
                if got != exp {
                    return Err(v("admitted_batch", format!("{label} op {i}: admit under {policy:?} returned {} envelopes, reference {} (an envelope the current policy rejects was admitted, or order / budget differ)", got.len(), exp.len())));
                }
                if !got.is_empty() {
                    ctx.hit("reach.inbox_surface_admitted");
                }
                batches.push(got);
            }
        }
        let got = pending_of(&inbox);
        let exp: Vec<[u8; 32]> = pending.iter().copied().collect();
        if got != exp {
            return Err(v("pending_set", format!("{label} after op {i} ({op:?}) under {policy:?}: pending {} envelopes, reference {}", got.len(), exp.len())));
        }
    }
    Ok((batches, pending.iter().copied().collect()))
}

pub fn check(tape: &InboxTape, intents: &[CIntent], ctx: &mut RunCtx) -> Result<(), Outcome> {
    if tape.initial.is_none() || tape.ops.is_empty() {
        return Ok(());
    }
    let base = run_tape(tape, &tape.ops, intents, "tape", ctx)?;
    // order-free twin: reverse every maximal run of consecutive ingests (same policy, same epoch)
    let mut twin: Vec<IOp> = Vec::with_capacity(tape.ops.len());
    let mut run: Vec<IOp> = Vec::new();
    for op in &tape.ops {
        if matches!(op, IOp::Ingest(_)) {
            run.push(op.clone());
        } else {
            twin.extend(run.drain(..).rev());
            twin.push(op.clone());
        }
    }
    twin.extend(run.drain(..).rev());
    if twin != tape.ops {
        // ingest results name arrival positions (first = Accepted, repeat = Duplicate): the twin is
        // judged against the reference by run_tape and against the base on batches + pending.
        let other = run_tape(tape, &twin, intents, "twin(reversed ingest runs)", ctx)?;
        if other != base {
            return Err(v("order_dependent", "admitted batches or final pending set differ when runs of ingests arrive in reverse order".to_owned()));
        }
        ctx.hit("reach.inbox_surface_twin_compared");
    }
    ctx.count("time.inbox_surface_ops", tape.ops.len() as u64);
    Ok(())
}
