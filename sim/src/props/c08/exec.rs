//! C08 schedule executor: runs ONE delivery schedule on a fresh world, checks every step against
//! the reference inbox model (`RefRuntime` + eligibility + restart), and returns the observations
//! that the K-way comparison needs.

use std::collections::{BTreeMap, BTreeSet};

use warp_core::{
    HeadEligibility, InboxPolicy, IngressDisposition, IntentSubmissionDisposition, NodeId, OpticAdmissionTicket, OpticArtifactHandle, ProvenanceEntry,
    ProvenanceStore, ReceiptCorrelationPersistenceRecord, StepRecord, TicketedRuntimeIngressAuthority, TicketedRuntimeIngressDisposition, WorldlineTick,
    WriterHeadKey, OPTIC_ADMISSION_TICKET_KIND, OPTIC_ARTIFACT_HANDLE_KIND,
};

use super::ident::{ref_id, CIntent};
use super::{Mode, Op, Schedule, C08};
use crate::kernel::{catch, Outcome, RunCtx};
use crate::model::refinbox::RefRuntime;
use crate::world::runtime::{wl_id, Fingerprint, PassResult, PolicySpec, World};

type Id = [u8; 32];

#[derive(Clone, Debug, PartialEq, Eq)]
pub enum PassOut {
    Ok(Vec<StepRecord>),
    Failed(String),
}

#[derive(Clone, Debug)]
pub struct EpochTrace {
    /// pending ingress ids per head (canonical head order) after the epoch's deliveries
    pub pending_pre: Vec<Vec<Id>>,
    pub pass: PassOut,
    /// ... and after the pass (and after the restart re-staging, if the epoch ends with a restart)
    pub pending_post: Vec<Vec<Id>>,
    /// provenance entries appended by this pass, in step order
    pub entries: Vec<ProvenanceEntry>,
}

#[derive(Clone, Debug)]
pub struct FinalState {
    pub runtime_strict: [u8; 32],
    pub runtime_masked: Fingerprint,
    pub provenance: Fingerprint,
    pub engine: [u8; 32],
}

#[derive(Clone, Debug)]
pub struct Trace {
    pub epochs: Vec<EpochTrace>,
    pub failed_at: Option<usize>,
    pub fin: Option<FinalState>,
}

/// What the reference model expects of one delivery.
#[derive(Clone, Debug, PartialEq, Eq)]
pub enum Exp {
    Accepted(usize),
    Duplicate(usize),
    Rejected(usize),
    Unroutable,
    ReservedRole,
}

/// Static part of the model's verdict (no state): where does the intent go, is it admissible at all.
pub fn static_route(model: &RefRuntime, ci: &CIntent, mode: Mode) -> Result<usize, Exp> {
    if mode == Mode::Ticketed && ci.has_reserved_role() {
        return Err(Exp::ReservedRole);
    }
    let Some(ix) = model.resolve(&ci.base.target) else { return Err(Exp::Unroutable) };
    Ok(ix)
}

fn policy_rejects(model: &RefRuntime, ix: usize, ci: &CIntent) -> bool {
    matches!(&model.heads[ix].policy, PolicySpec::Kinds(k) if !k.contains(&ci.base.kind))
}

/// Partition implied by a schedule: per epoch the set of (head, ingress id) first delivered there
/// (deliveries that can never be accepted are not part of any pending set and are ignored).
pub fn implied_partition(sc: &C08, sched: &Schedule, ids: &[Id]) -> Vec<BTreeSet<(usize, Id)>> {
    let model = RefRuntime::new(&sc.world);
    let mut seen: BTreeSet<(usize, Id)> = BTreeSet::new();
    let mut out = Vec::new();
    for e in 0..sc.n_epochs {
        let mut here = BTreeSet::new();
        for op in sched.epochs.get(e).map(Vec::as_slice).unwrap_or(&[]) {
            let Some(i) = op.intent() else { continue };
            let (Some(ci), Some(id)) = (sc.intents.get(i), ids.get(i)) else { continue };
            let Ok(ix) = static_route(&model, ci, sc.mode) else { continue };
            if policy_rejects(&model, ix, ci) {
                continue;
            }
            if seen.insert((ix, *id)) {
                here.insert((ix, *id));
            }
        }
        out.push(here);
    }
    out
}

fn ticket_for(key: &WriterHeadKey, id: &Id) -> OpticAdmissionTicket {
    let mut h = blake3::Hasher::new();
    h.update(b"verif/c08/ticket");
    h.update(key.worldline_id.as_bytes());
    h.update(key.head_id.as_bytes());
    h.update(id);
    let d: [u8; 32] = *h.finalize().as_bytes();
    OpticAdmissionTicket {
        kind: OPTIC_ADMISSION_TICKET_KIND.to_owned(),
        artifact_handle: OpticArtifactHandle { kind: OPTIC_ARTIFACT_HANDLE_KIND.to_owned(), id: format!("verif-c08-{}", hex::encode(&d[..6])) },
        artifact_hash: "verif-artifact".to_owned(),
        operation_id: "verif-operation".to_owned(),
        requirements_digest: "verif-requirements".to_owned(),
        canonical_variables_digest: d[..8].to_vec(),
        basis_request_digest: d,
        aperture_request_digest: d,
        budget_request_digest: d,
        law_witness_digest: d,
        ticket_digest: d,
    }
}

/// Pending ingress ids of a head through the public inbox accessors: a clone of the inbox with an
/// accept-all policy admits everything, in the inbox's own iteration order.
fn pending_ids(w: &World, key: &WriterHeadKey) -> Option<Vec<Id>> {
    let head = w.runtime.heads().get(key)?;
    let mut inbox = head.inbox().clone();
    inbox.set_policy(InboxPolicy::AcceptAll);
    Some(inbox.admit().iter().map(|e| e.ingress_id()).collect())
}

/// Top-level fields of a compact `{:?}` rendering of a struct: `Name { a: .., b: .. }` is split at
/// depth-0 commas (brackets and string literals tracked). The compact form is ~10x cheaper than
/// the pretty form the shared `fingerprint` helper expects (every byte of every hash is a line there).
pub fn compact_fields(text: &str) -> BTreeMap<String, String> {
    let mut out = BTreeMap::new();
    let Some(open) = text.find('{') else { return out };
    let body = &text[open + 1..text.rfind('}').unwrap_or(text.len())];
    let bytes = body.as_bytes();
    let (mut depth, mut in_str, mut esc, mut start) = (0i32, false, false, 0usize);
    let mut push = |a: usize, b: usize| {
        let field = body[a..b].trim();
        if let Some(colon) = field.find(':') {
            out.insert(field[..colon].trim().to_owned(), field[colon + 1..].trim().to_owned());
        }
    };
    for (i, c) in bytes.iter().enumerate() {
        if in_str {
            if esc {
                esc = false;
            } else if *c == b'\\' {
                esc = true;
            } else if *c == b'"' {
                in_str = false;
            }
            continue;
        }
        match c {
            b'"' => in_str = true,
            b'(' | b'[' | b'{' => depth += 1,
            b')' | b']' | b'}' => depth -= 1,
            b',' if depth == 0 => {
                push(start, i);
                start = i + 1;
            }
            _ => {}
        }
    }
    push(start, bytes.len());
    for k in crate::world::runtime::ALWAYS_EXCLUDED {
        out.remove(k);
    }
    out
}

/// `submission_generation: IngressSubmissionGeneration(n)` -> masked. Documented as "Echo-owned
/// intake/correlation generation ... audit metadata ... not scheduler order".
fn mask_generation(s: &str) -> String {
    const PAT: &str = "submission_generation: IngressSubmissionGeneration(";
    let mut out = String::with_capacity(s.len());
    let mut rest = s;
    while let Some(p) = rest.find(PAT) {
        out.push_str(&rest[..p + PAT.len()]);
        rest = &rest[p + PAT.len()..];
        let end = rest.find(')').unwrap_or(0);
        out.push('_');
        rest = &rest[end..];
    }
    out.push_str(rest);
    out
}

/// `target: <route>, causal_parents:` inside envelopes -> masked. Two route aliases that resolve
/// to the same head carry the same ingress id; which alias arrived first is transport metadata.
fn mask_target(s: &str) -> String {
    const A: &str = "target: ";
    const B: &str = ", causal_parents: ";
    let mut out = String::with_capacity(s.len());
    let mut rest = s;
    while let Some(p) = rest.find(A) {
        let Some(q) = rest[p..].find(B) else { break };
        out.push_str(&rest[..p + A.len()]);
        out.push('_');
        rest = &rest[p + q..];
    }
    out.push_str(rest);
    out
}

/// Fingerprint of the runtime with arrival metadata masked in exactly three fields, plus a digest
/// of the unmasked text (used only to count how often the masked metadata really differed).
pub fn runtime_fingerprints(text: &str) -> (Fingerprint, [u8; 32]) {
    let mut fields = compact_fields(text);
    for (name, f) in fields.iter_mut() {
        match name.as_str() {
            "witnessed_submissions" => *f = mask_generation(f),
            "witnessed_submission_envelopes" | "heads" => *f = mask_target(f),
            _ => {}
        }
    }
    (Fingerprint(fields.into_iter().map(|(k, val)| (k, *blake3::hash(val.as_bytes()).as_bytes())).collect()), *blake3::hash(text.as_bytes()).as_bytes())
}

pub fn compact_fingerprint(text: &str) -> Fingerprint {
    Fingerprint(compact_fields(text).into_iter().map(|(k, val)| (k, *blake3::hash(val.as_bytes()).as_bytes())).collect())
}

pub struct Runner<'a> {
    sc: &'a C08,
    sched: &'a Schedule,
    si: usize,
    ids: &'a [Id],
    w: World,
    model: RefRuntime,
    eligible: Vec<bool>,
    sub_ids: BTreeMap<(usize, Id), Id>,
    accepted_at_restart: BTreeMap<(usize, Id), u32>,
    restarts_done: u32,
    /// ticketed mode with deferred staging: witnessed submissions the runtime owner has not staged yet
    unstaged: Vec<(usize, Id, Id, warp_core::IngressEnvelope)>,
    log: String,
}

fn v(class: &str, detail: String) -> Outcome {
    Outcome::violation(class, detail)
}

impl<'a> Runner<'a> {
    pub fn new(sc: &'a C08, si: usize, ids: &'a [Id]) -> Result<Self, Outcome> {
        let w = World::new(&sc.world).map_err(|e| v("state_construction_failed", e))?;
        let model = RefRuntime::new(&sc.world);
        let eligible = vec![true; model.heads.len()];
        Ok(Runner { sc, sched: &sc.schedules[si], si, ids, w, model, eligible, sub_ids: BTreeMap::new(), accepted_at_restart: BTreeMap::new(), restarts_done: 0, unstaged: Vec::new(), log: String::new() })
    }

    fn all_pending(&self) -> Result<Vec<Vec<Id>>, Outcome> {
        let mut out = Vec::with_capacity(self.model.heads.len());
        for h in &self.model.heads {
            out.push(pending_ids(&self.w, &h.key).ok_or_else(|| v("head_missing", format!("{:?}", h.key)))?);
        }
        Ok(out)
    }

    fn check_pending_vs_model(&self, got: &[Vec<Id>], when: &str) -> Result<(), Outcome> {
        for (ix, h) in self.model.heads.iter().enumerate() {
            let want: Vec<Id> = h.pending.iter().copied().collect();
            if got[ix] != want {
                let mut sorted = got[ix].clone();
                sorted.sort();
                let class = if sorted == want { "pending_not_in_ingress_id_order" } else { "pending_set_vs_reference" };
                return Err(v(
                    class,
                    format!("schedule {} {when}: head {:?} pending {:?}, reference set {:?}", self.si, h.key, got[ix].iter().map(|i| hex::encode(&i[..4])).collect::<Vec<_>>(), want.iter().map(|i| hex::encode(&i[..4])).collect::<Vec<_>>()),
                ));
            }
        }
        Ok(())
    }

    fn count_retry(&self, ctx: &mut RunCtx, ix: usize, id: &Id) {
        ctx.hit("reach.duplicate_dispositions");
        if self.model.heads[ix].committed.contains(id) {
            ctx.hit("fault.retry_after_commit");
        } else {
            ctx.hit("fault.retry_while_pending");
        }
        if self.accepted_at_restart.get(&(ix, *id)).is_some_and(|r| *r < self.restarts_done) {
            ctx.hit("fault.retry_after_restart");
        }
    }

    /// One delivery of intent `i`, checked against the model.
    fn deliver(&mut self, i: usize, plain_retry: bool, e: usize, ctx: &mut RunCtx) -> Result<(), Outcome> {
        let (Some(ci), Some(id)) = (self.sc.intents.get(i), self.ids.get(i).copied()) else { return Ok(()) };
        ctx.count("time.deliveries", 1);
        let at = format!("schedule {} epoch {e} intent #{i}", self.si);
        // reference verdict
        let exp = match static_route(&self.model, ci, self.sc.mode) {
            Err(x) => x,
            Ok(ix) => {
                if self.model.heads[ix].committed.contains(&id) {
                    Exp::Duplicate(ix)
                } else if policy_rejects(&self.model, ix, ci) {
                    Exp::Rejected(ix)
                } else if self.model.heads[ix].pending.contains(&id) {
                    Exp::Duplicate(ix)
                } else {
                    Exp::Accepted(ix)
                }
            }
        };
        let env = catch(|| ci.envelope()).map_err(|p| v("envelope_construction_panicked", p))?;
        if env.ingress_id() != id {
            return Err(v("ingress_id_not_content_addressed", format!("{at}: envelope id {} reference {}", hex::encode(env.ingress_id()), hex::encode(id))));
        }
        let subs_before = self.w.runtime.witnessed_submission_count();
        let pend_before: Vec<usize> = self.model.heads.iter().map(|h| self.w.runtime.heads().get(&h.key).map_or(0, |x| x.inbox().pending_count())).collect();

        // a retry through the other intake API (only when the reference says it IS a retry of
        // something already staged; a first delivery through plain ingest would leave the ticketed path)
        let via_plain = self.sc.mode == Mode::Ticketed && plain_retry && matches!(exp, Exp::Duplicate(ix) if !self.unstaged.iter().any(|u| u.0 == ix && u.1 == id));
        if via_plain {
            ctx.hit("reach.retry_through_plain_ingest");
        }
        // real delivery: (disposition kind, head, submission id) or error text
        let got: Result<(bool, WriterHeadKey, Id, Id), String> = match if via_plain { Mode::Plain } else { self.sc.mode } {
            Mode::Plain => {
                let rt = &mut self.w.runtime;
                match catch(|| rt.ingest(env.clone())).map_err(|p| v("ingest_panicked", format!("{at}: {p}")))? {
                    Ok(IngressDisposition::Accepted { ingress_id, head_key, submission_id, .. }) => Ok((true, head_key, submission_id, ingress_id)),
                    Ok(IngressDisposition::Duplicate { ingress_id, head_key, submission_id, .. }) => Ok((false, head_key, submission_id, ingress_id)),
                    Err(err) => Err(format!("{err:?}")),
                }
            }
            Mode::Ticketed => {
                let rt = &mut self.w.runtime;
                match catch(|| rt.submit_intent(env.clone())).map_err(|p| v("ingest_panicked", format!("{at}: {p}")))? {
                    Ok(IntentSubmissionDisposition::Accepted { ingress_id, head_key, submission_id, .. }) => Ok((true, head_key, submission_id, ingress_id)),
                    Ok(IntentSubmissionDisposition::Duplicate { ingress_id, head_key, submission_id, .. }) => Ok((false, head_key, submission_id, ingress_id)),
                    Err(err) => Err(format!("{err:?}")),
                }
            }
        };
        self.log.push_str(&format!("d{i}:{}", match &got { Ok((true, ..)) => 'A', Ok((false, ..)) => 'D', Err(_) => 'E' }));

        let unchanged = |r: &Runner| -> bool {
            r.w.runtime.witnessed_submission_count() == subs_before
                && r.model.heads.iter().enumerate().all(|(k, h)| r.w.runtime.heads().get(&h.key).map_or(0, |x| x.inbox().pending_count()) == pend_before[k])
        };

        match (&exp, &got) {
            (Exp::Accepted(ix), Ok((true, key, sub, gid))) => {
                let ix = *ix;
                if *key != self.model.heads[ix].key || *gid != id {
                    return Err(v("disposition_mismatch", format!("{at}: accepted on head {key:?} id {}, reference head {:?} id {}", hex::encode(gid), self.model.heads[ix].key, hex::encode(id))));
                }
                if self.sub_ids.values().any(|s| s == sub) {
                    return Err(v("submission_id_collision", format!("{at}: submission id {} already names another (head, ingress) pair", hex::encode(sub))));
                }
                self.sub_ids.insert((ix, id), *sub);
                self.accepted_at_restart.insert((ix, id), self.restarts_done);
                self.model.heads[ix].pending.insert(id);
                if self.sc.mode == Mode::Ticketed {
                    if self.sched.defer_staging {
                        self.unstaged.push((ix, id, *sub, env));
                    } else {
                        self.stage(ix, &id, *sub, env, true, &at)?;
                    }
                }
            }
            (Exp::Duplicate(ix), Ok((false, key, sub, gid))) => {
                let ix = *ix;
                if *key != self.model.heads[ix].key || *gid != id {
                    return Err(v("disposition_mismatch", format!("{at}: duplicate on head {key:?}, reference head {:?}", self.model.heads[ix].key)));
                }
                let first = self.sub_ids.get(&(ix, id)).copied();
                if first != Some(*sub) {
                    return Err(v("retry_changed_submission_id", format!("{at}: retry returned submission id {}, first delivery returned {:?}", hex::encode(sub), first.map(hex::encode))));
                }
                self.count_retry(ctx, ix, &id);
                if self.sc.mode == Mode::Ticketed && !via_plain {
                    if self.unstaged.iter().any(|u| u.0 == ix && u.1 == id) {
                        // witnessed but not yet staged: the retry is a duplicate submission only
                        ctx.hit("reach.retry_before_staging");
                    } else {
                        self.stage(ix, &id, *sub, env, false, &at)?;
                    }
                }
                if !unchanged(self) {
                    return Err(v("retry_changed_state", format!("{at}: a duplicate delivery changed the pending or witnessed counts")));
                }
            }
            (Exp::Duplicate(ix), Ok((true, key, sub, _))) => {
                let where_ = if self.model.heads[*ix].committed.contains(&id) { "after its commit" } else { "while pending" };
                let after_restart = self.accepted_at_restart.get(&(*ix, id)).is_some_and(|r| *r < self.restarts_done);
                return Err(v(
                    "retry_not_duplicate",
                    format!("{at}: retry {where_}{} was Accepted again on head {key:?} (submission {})", if after_restart { " after a restart" } else { "" }, hex::encode(sub)),
                ));
            }
            (Exp::Rejected(ix), Err(msg)) => {
                if !msg.contains("RejectedByPolicy") {
                    return Err(v("disposition_mismatch", format!("{at}: kind-filter rejection expected on head {:?}, runtime error {msg}", self.model.heads[*ix].key)));
                }
                ctx.hit("reach.kind_filter_rejection");
                if !unchanged(self) {
                    return Err(v("rejection_changed_state", format!("{at}: a policy rejection changed the pending or witnessed counts")));
                }
            }
            (Exp::Unroutable, Err(msg)) => {
                if !(msg.contains("MissingInboxAddress") || msg.contains("MissingDefaultWriter") || msg.contains("UnknownHead")) {
                    return Err(v("disposition_mismatch", format!("{at}: routing error expected, runtime error {msg}")));
                }
                ctx.hit("reach.unroutable_rejection");
                if !unchanged(self) {
                    return Err(v("rejection_changed_state", format!("{at}: a routing error changed the pending or witnessed counts")));
                }
            }
            (Exp::ReservedRole, Err(msg)) => {
                if !msg.contains("ContractInverseTarget") {
                    return Err(v("disposition_mismatch", format!("{at}: reserved-role rejection expected, runtime error {msg}")));
                }
                ctx.hit("reach.reserved_role_rejection");
                if !unchanged(self) {
                    return Err(v("rejection_changed_state", format!("{at}: a reserved-role rejection changed state")));
                }
            }
            (exp, got) => {
                return Err(v("disposition_mismatch", format!("{at}: reference {exp:?}, runtime {got:?}")));
            }
        }
        Ok(())
    }

    /// Ticketed mode, second step: the runtime owner stages the witnessed submission.
    fn stage(&mut self, ix: usize, id: &Id, sub: Id, env: warp_core::IngressEnvelope, first: bool, at: &str) -> Result<(), Outcome> {
        let key = self.model.heads[ix].key;
        let auth = TicketedRuntimeIngressAuthority::assume_runtime_owner();
        let ticket = ticket_for(&key, id);
        let rt = &mut self.w.runtime;
        let got = catch(|| rt.ingest_ticketed_invocation(&auth, sub, &ticket, env)).map_err(|p| v("ingest_panicked", format!("{at}: {p}")))?;
        match (first, got) {
            (true, Ok(TicketedRuntimeIngressDisposition::Staged { record, ingress: IngressDisposition::Accepted { submission_id, head_key, ingress_id, .. } })) => {
                if submission_id != sub || head_key != key || ingress_id != *id || record.submission_id != sub || record.ingress_id != *id {
                    return Err(v("disposition_mismatch", format!("{at}: staged record names a different submission / head / ingress id")));
                }
                Ok(())
            }
            (false, Ok(TicketedRuntimeIngressDisposition::Duplicate { record })) => {
                if record.submission_id != sub {
                    return Err(v("retry_changed_submission_id", format!("{at}: staged duplicate names submission {}, first was {}", hex::encode(record.submission_id), hex::encode(sub))));
                }
                if record.ingress_id != *id || record.head_key != key {
                    return Err(v("disposition_mismatch", format!("{at}: staged duplicate names a different head / ingress id")));
                }
                Ok(())
            }
            (false, Ok(TicketedRuntimeIngressDisposition::Staged { .. })) => Err(v("retry_not_duplicate", format!("{at}: ticketed retry was staged into the inbox again"))),
            (_, other) => Err(v("disposition_mismatch", format!("{at}: ticketed staging (first={first}) returned {other:?}"))),
        }
    }

    fn apply_elig(&mut self, e: usize, ctx: &mut RunCtx) -> Result<(), Outcome> {
        for ch in self.sc.elig.get(e).map(Vec::as_slice).unwrap_or(&[]) {
            let Some(ix) = self.model.heads.iter().position(|h| h.wl == ch.wl && h.label == ch.head) else { continue };
            let key = self.model.heads[ix].key;
            self.w
                .runtime
                .set_head_eligibility(key, if ch.admitted { HeadEligibility::Admitted } else { HeadEligibility::Dormant })
                .map_err(|err| v("set_head_eligibility_failed", format!("{err:?}")))?;
            if self.eligible[ix] != ch.admitted {
                ctx.hit("reach.eligibility_change");
            }
            self.eligible[ix] = ch.admitted;
        }
        Ok(())
    }

    /// One scheduler pass checked against the reference coordinator.
    fn pass(&mut self, e: usize, ctx: &mut RunCtx) -> Result<(PassOut, Vec<ProvenanceEntry>), Outcome> {
        let at = format!("schedule {} epoch {e}", self.si);
        let expected: Vec<usize> = (0..self.model.heads.len()).filter(|ix| self.eligible[*ix] && !self.model.admissible(*ix).is_empty()).collect();
        let ticks_before: BTreeMap<u8, u64> = self.sc.world.worldlines.iter().map(|wl| (wl.id, self.w.runtime.worldlines().get(&wl_id(wl.id)).map_or(0, |f| f.frontier_tick().as_u64()))).collect();
        let gt_before = self.w.runtime.global_tick().as_u64();
        let result = self.w.pass();
        ctx.count("time.passes", 1);
        let records = match result {
            PassResult::Ok(r) => r,
            PassResult::Err(msg) => {
                ctx.hit("reach.pass_failed");
                ctx.hit(&format!("reach.pass_failed:{}", msg.chars().filter(|c| c.is_ascii_alphanumeric() || *c == '(').take(48).collect::<String>()));
                self.log.push_str(&format!("|pass{e}:ERR"));
                return Ok((PassOut::Failed(format!("Err({msg})")), Vec::new()));
            }
            PassResult::Panic(msg) => {
                ctx.hit("reach.pass_failed");
                ctx.hit(&format!("reach.pass_failed:panic:{}", msg.chars().filter(|c| c.is_ascii_alphanumeric() || *c == ' ').take(48).collect::<String>()));
                self.log.push_str(&format!("|pass{e}:PANIC"));
                return Ok((PassOut::Failed(format!("Panic({msg})")), Vec::new()));
            }
        };
        let got: Vec<WriterHeadKey> = records.iter().map(|r| r.head_key).collect();
        let exp: Vec<WriterHeadKey> = expected.iter().map(|ix| self.model.heads[*ix].key).collect();
        if got != exp {
            return Err(v("committed_heads_vs_reference", format!("{at}: records for heads {got:?}, reference (eligible heads with admissible work, canonical order) {exp:?}")));
        }
        let mut per_wl: BTreeMap<u8, u64> = BTreeMap::new();
        let mut entries = Vec::new();
        for (r, ix) in records.iter().zip(&expected) {
            let ix = *ix;
            let h_wl = self.model.heads[ix].wl;
            let budget = match self.model.heads[ix].policy {
                PolicySpec::Budget(n) => Some(n as usize),
                _ => None,
            };
            let batch = self.model.commit(ix);
            if let Some(b) = budget {
                if r.admitted_count > b {
                    return Err(v("budget_not_respected", format!("{at}: head {:?} admitted {} with max_per_tick {b}", r.head_key, r.admitted_count)));
                }
                if !self.model.heads[ix].pending.is_empty() {
                    ctx.hit("reach.budget_left_pending");
                }
            }
            if r.admitted_count != batch.len() {
                return Err(v("admitted_count_vs_reference", format!("{at}: head {:?} admitted {}, reference batch {}", r.head_key, r.admitted_count, batch.len())));
            }
            *per_wl.entry(h_wl).or_insert(0) += 1;
            let exp_tick = ticks_before.get(&h_wl).copied().unwrap_or(0) + per_wl[&h_wl];
            if r.worldline_tick_after.as_u64() != exp_tick || r.commit_global_tick.as_u64() != gt_before + 1 {
                return Err(v("tick_accounting", format!("{at}: head {:?} tick_after {} (expected {exp_tick}) global {} (expected {})", r.head_key, r.worldline_tick_after.as_u64(), r.commit_global_tick.as_u64(), gt_before + 1)));
            }
            let entry = self.w.provenance.entry(wl_id(h_wl), WorldlineTick::from_raw(exp_tick - 1)).map_err(|err| v("provenance_entry_missing", format!("{at}: wl {h_wl} tick {}: {err:?}", exp_tick - 1)))?;
            if entry.head_key != Some(r.head_key) || entry.expected.state_root != r.state_root || entry.expected.commit_hash != r.commit_hash {
                return Err(v("provenance_vs_step_record", format!("{at}: entry wl {h_wl} tick {} does not match the step record of head {:?}", exp_tick - 1, r.head_key)));
            }
            // batch membership = the lowest ingress ids, each materialised exactly once (event node id = ingress id)
            let Some(receipt) = entry.tick_receipt.as_ref() else {
                return Err(v("receipt_missing", format!("{at}: wl {h_wl} tick {}", exp_tick - 1)));
            };
            let mut scopes: Vec<Id> = receipt.entries().iter().map(|x| x.scope.local_id.0).collect();
            scopes.sort();
            if scopes.windows(2).any(|p| p[0] == p[1]) {
                return Err(v("committed_twice", format!("{at}: head {:?} tick {}: an ingress id appears twice in one tick receipt", r.head_key, exp_tick - 1)));
            }
            let mut want = batch.clone();
            want.sort();
            if scopes != want {
                return Err(v(
                    "admitted_batch_order",
                    format!("{at}: head {:?} committed ingress {:?}; reference batch (ascending id, truncated by budget {budget:?}) {:?}", r.head_key, scopes.iter().map(|i| hex::encode(&i[..4])).collect::<Vec<_>>(), want.iter().map(|i| hex::encode(&i[..4])).collect::<Vec<_>>()),
                ));
            }
            // event nodes exist in the worldline's root instance
            if let Some(f) = self.w.runtime.worldlines().get(&wl_id(h_wl)) {
                let st = f.state();
                if let Some(store) = st.store(&st.root().warp_id) {
                    for id in &batch {
                        if store.node(&NodeId(*id)).is_none() {
                            return Err(v("event_node_missing", format!("{at}: committed ingress {} has no event node", hex::encode(&id[..4]))));
                        }
                    }
                }
            }
            entries.push(entry);
        }
        if self.w.runtime.global_tick().as_u64() != gt_before + 1 {
            return Err(v("tick_accounting", format!("{at}: global tick {} -> {}", gt_before, self.w.runtime.global_tick().as_u64())));
        }
        for wl in &self.sc.world.worldlines {
            let now = self.w.runtime.worldlines().get(&wl_id(wl.id)).map_or(0, |f| f.frontier_tick().as_u64());
            if now != ticks_before[&wl.id] + per_wl.get(&wl.id).copied().unwrap_or(0) {
                return Err(v("tick_accounting", format!("{at}: worldline {} frontier {now}", wl.id)));
            }
        }
        self.log.push_str(&format!("|pass{e}:{}", records.len()));
        Ok((PassOut::Ok(records), entries))
    }

    /// Clean restart: a new runtime / provenance service / engine are built from the configuration
    /// (spec) and from persisted material only (witnessed submissions + envelopes, provenance
    /// entries, receipt correlations), the way `TrustedRuntimeHost::enable_runtime_wal` rehydrates;
    /// then the runtime owner re-stages the still-pending witnessed submissions.
    fn restart(&mut self, e: usize, ctx: &mut RunCtx) -> Result<(), Outcome> {
        let at = format!("schedule {} restart after epoch {e}", self.si);
        let snapshot = self.w.runtime.witnessed_submission_persistence_snapshot().map_err(|err| v("restart_failed:snapshot", format!("{at}: {err:?}")))?;
        let correlations: Vec<ReceiptCorrelationPersistenceRecord> = self.w.runtime.receipt_correlations().map(ReceiptCorrelationPersistenceRecord::from).collect();
        let mut entries = Vec::new();
        for wl in &self.sc.world.worldlines {
            let n = self.w.provenance.len(wl_id(wl.id)).map_err(|err| v("restart_failed:provenance_len", format!("{err:?}")))?;
            for t in 0..n {
                entries.push(self.w.provenance.entry(wl_id(wl.id), WorldlineTick::from_raw(t)).map_err(|err| v("restart_failed:provenance_entry", format!("{err:?}")))?);
            }
        }
        let mut fresh = World::new(&self.sc.world).map_err(|err| v("state_construction_failed", err))?;
        for en in &entries {
            fresh.provenance.append_local_commit(en.clone()).map_err(|err| v("restart_failed:append_entry", format!("{at}: {err:?}")))?;
        }
        fresh.runtime.restore_witnessed_submission_persistence(snapshot.clone()).map_err(|err| v("restart_failed:restore_submissions", format!("{at}: {err:?}")))?;
        fresh.runtime.restore_causal_runtime_history(&fresh.provenance, &entries, &correlations).map_err(|err| v("restart_failed:restore_history", format!("{at}: {err:?}")))?;
        for (ix, el) in self.eligible.iter().enumerate() {
            if !el {
                fresh.runtime.set_head_eligibility(self.model.heads[ix].key, HeadEligibility::Dormant).map_err(|err| v("set_head_eligibility_failed", format!("{err:?}")))?;
            }
        }
        fresh.live = std::mem::take(&mut self.w.live);
        fresh.passes = self.w.passes;
        self.w = fresh;
        self.restarts_done += 1;
        ctx.hit("fault.clean_restart");
        // runtime owner re-stages undecided submissions (arrival order of this schedule, or its reverse)
        let mut recs = snapshot.records().to_vec();
        if self.sched.restage_rev {
            recs.reverse();
        }
        for rec in recs {
            let Some(ix) = self.model.heads.iter().position(|h| h.key == rec.submission.head_key) else { continue };
            let id = rec.submission.ingress_id;
            if self.model.heads[ix].committed.contains(&id) {
                continue;
            }
            if !self.model.heads[ix].pending.contains(&id) {
                return Err(v("restart_failed:unknown_submission", format!("{at}: persisted submission {} is neither pending nor committed in the reference", hex::encode(&id[..4]))));
            }
            self.stage(ix, &id, rec.submission.submission_id, rec.envelope.clone(), true, &at)?;
            ctx.hit("reach.restaged_after_restart");
        }
        self.log.push_str("|R");
        Ok(())
    }

    pub fn run(mut self, ctx: &mut RunCtx) -> Result<Trace, Outcome> {
        let mut epochs = Vec::new();
        let mut failed_at = None;
        let no_ops: Vec<Op> = Vec::new();
        for e in 0..self.sc.n_epochs {
            let ops = self.sched.epochs.get(e).unwrap_or(&no_ops).clone();
            let mut elig_done = false;
            let mut firsts: Vec<usize> = Vec::new();
            for op in &ops {
                match op {
                    Op::Deliver(i) | Op::DeliverPlain(i) => {
                        if !firsts.contains(i) {
                            firsts.push(*i);
                        }
                        self.deliver(*i, matches!(op, Op::DeliverPlain(_)), e, ctx)?;
                    }
                    Op::Elig => {
                        if !elig_done {
                            elig_done = true;
                            self.apply_elig(e, ctx)?;
                        }
                    }
                }
            }
            if !elig_done {
                self.apply_elig(e, ctx)?;
            }
            if firsts.windows(2).any(|p| p[0] > p[1]) {
                ctx.hit("fault.reordered_delivery");
            }
            // deferred staging: the runtime owner stages this epoch's witnessed submissions now, newest first
            let mut late = std::mem::take(&mut self.unstaged);
            late.reverse();
            for (ix, id, sub, env) in late {
                self.stage(ix, &id, sub, env, true, &format!("schedule {} epoch {e} deferred staging", self.si))?;
                ctx.hit("reach.deferred_staging");
            }
            let pending_pre = self.all_pending()?;
            self.check_pending_vs_model(&pending_pre, &format!("epoch {e} before the pass"))?;
            let (pass, entries) = self.pass(e, ctx)?;
            if matches!(pass, PassOut::Failed(_)) {
                epochs.push(EpochTrace { pending_pre, pass, pending_post: Vec::new(), entries });
                failed_at = Some(e);
                break;
            }
            let restart_here = self.sc.mode == Mode::Ticketed && !self.sched.no_restart && self.sc.restarts.get(e).copied().unwrap_or(false);
            if restart_here {
                self.restart(e, ctx)?;
            }
            let pending_post = self.all_pending()?;
            self.check_pending_vs_model(&pending_post, &format!("epoch {e} after the pass{}", if restart_here { " and restart" } else { "" }))?;
            epochs.push(EpochTrace { pending_pre, pass, pending_post, entries });
        }
        ctx.trace_str(&self.log);

        // (c) at-most-once over the whole retained history + committed sets equal the reference
        let mut seen: BTreeMap<(WriterHeadKey, Id), u64> = BTreeMap::new();
        for wl in &self.sc.world.worldlines {
            let n = self.w.provenance.len(wl_id(wl.id)).map_err(|err| v("provenance_entry_missing", format!("{err:?}")))?;
            for t in 0..n {
                let en = self.w.provenance.entry(wl_id(wl.id), WorldlineTick::from_raw(t)).map_err(|err| v("provenance_entry_missing", format!("{err:?}")))?;
                let (Some(key), Some(receipt)) = (en.head_key, en.tick_receipt.as_ref()) else { continue };
                for x in receipt.entries() {
                    let c = seen.entry((key, x.scope.local_id.0)).or_insert(0);
                    *c += 1;
                    if *c > 1 {
                        return Err(v("committed_twice", format!("schedule {}: ingress {} was committed on head {key:?} in more than one tick (second at worldline {} tick {t})", self.si, hex::encode(&x.scope.local_id.0[..4]), wl.id)));
                    }
                }
            }
        }
        if failed_at.is_none() {
            for h in &self.model.heads {
                let got: BTreeSet<Id> = seen.keys().filter(|(k, _)| *k == h.key).map(|(_, i)| *i).collect();
                if got != h.committed {
                    return Err(v("committed_set_vs_reference", format!("schedule {}: head {:?} committed {} ingress ids, reference {}", self.si, h.key, got.len(), h.committed.len())));
                }
            }
        }
        let fin = if failed_at.is_none() {
            let (runtime_masked, runtime_strict) = runtime_fingerprints(&format!("{:?}", self.w.runtime));
            Some(FinalState { runtime_strict, runtime_masked, provenance: compact_fingerprint(&format!("{:?}", self.w.provenance)), engine: self.w.fp_engine() })
        } else {
            None
        };
        Ok(Trace { epochs, failed_at, fin })
    }
}

pub fn ref_ids(sc: &C08) -> Vec<Id> {
    sc.intents.iter().map(ref_id).collect()
}
