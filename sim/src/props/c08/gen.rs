//! C08 generator: world, intent multiset (with deliberate identical / aliased / near-identical
//! intents), epoch partition, K delivery schedules, eligibility changes, restarts.

use std::collections::BTreeSet;

use super::ident::{CIntent, ParentSpec};
use super::{EligChange, Mode, Op, Schedule, C08};
use crate::kernel::{Rng, Tier};
use crate::props::c01::knobs;
use crate::world::runtime::{gen_intent, gen_world, PolicySpec, TargetSpec, WorldSpec};

fn gen_parent(rng: &mut Rng, n_wl: usize) -> ParentSpec {
    ParentSpec {
        role: if rng.chance(1, 8) { 1 } else { 0 },
        wl: rng.below(n_wl as u64) as u8,
        tick: rng.range(1, 3),
        gt: rng.range(1, 3),
        seed: rng.below(3) as u8,
        tweak: if rng.chance(1, 4) { rng.range(1, 4) as u8 } else { 0 },
    }
}

fn routable_targets(world: &WorldSpec, wl: u8) -> Vec<TargetSpec> {
    let mut out = Vec::new();
    if let Some(w) = world.worldlines.iter().find(|w| w.id == wl) {
        out.push(TargetSpec::Default { wl });
        for h in &w.heads {
            out.push(TargetSpec::Exact { wl, head: h.label });
            if let Some(n) = h.inbox {
                out.push(TargetSpec::Inbox { wl, name: n });
            }
        }
    }
    out
}

/// A variant of `p` that differs in exactly one component.
fn vary_parent(rng: &mut Rng, p: &ParentSpec, n_wl: usize) -> ParentSpec {
    let mut q = p.clone();
    match rng.below(6) {
        0 => q.role ^= 1,
        1 => q.tick += 1,
        2 => q.gt += 1,
        3 => q.seed = q.seed.wrapping_add(7),
        4 => q.tweak = if q.tweak == 0 { rng.range(1, 4) as u8 } else { 0 },
        _ => {
            if n_wl > 1 {
                q.wl = (q.wl + 1) % n_wl as u8;
            } else {
                q.tick += 2;
            }
        }
    }
    q
}

fn vary_intent(rng: &mut Rng, src: &CIntent, world: &WorldSpec, deliverable: bool) -> CIntent {
    let n_wl = world.worldlines.len();
    let mut c = src.clone();
    match rng.below(if deliverable { 3 } else { 6 }) {
        0 => c.base.kind = (c.base.kind + 1 + rng.below(2) as u8) % 3,
        1 => {
            if c.parents.is_empty() {
                c.parents.push(gen_parent(rng, n_wl));
            } else {
                let k = rng.usize_below(c.parents.len());
                c.parents[k] = vary_parent(rng, &c.parents[k], n_wl);
            }
        }
        2 => {
            if c.parents.len() > 1 {
                c.parents.pop();
            } else {
                c.parents.push(gen_parent(rng, n_wl));
            }
        }
        3 => c.base.prog.nonce ^= 0x0100_0000,
        4 => {
            // same parent set, different citation order + duplicates (must NOT change the id)
            c.parents.reverse();
            if let Some(p) = c.parents.first().cloned() {
                c.parents.push(p);
            }
        }
        _ => {
            if let Some(p) = c.parents.first().cloned() {
                c.parents.push(vary_parent(rng, &p, n_wl));
            } else {
                c.base.prog.nonce ^= 0x0200_0000;
            }
        }
    }
    if deliverable {
        for p in &mut c.parents {
            if p.role == 1 && !rng.chance(1, 6) {
                p.role = 0;
            }
        }
    }
    c
}

fn factorial(n: usize) -> usize {
    (1..=n).product()
}

/// Ops of one schedule for the given homes: per epoch members + retries, shuffled; first-delivery
/// orders of epochs with <= 6 members are drawn without replacement across schedules.
#[allow(clippy::too_many_arguments)]
fn build_schedule(rng: &mut Rng, n_intents: usize, home: &[usize], n_epochs: usize, elig: &[Vec<EligChange>], used: &mut [BTreeSet<Vec<usize>>], no_retries: bool, plain_retries: bool) -> Vec<Vec<Op>> {
    let mut lists: Vec<Vec<usize>> = vec![Vec::new(); n_epochs];
    for i in 0..n_intents {
        let h = home[i].min(n_epochs - 1);
        lists[h].push(i);
        let r = if no_retries { 0 } else { rng.weighted(&[3, 3, 2, 1]) };
        for _ in 0..r {
            let e = if rng.chance(1, 2) || h + 1 >= n_epochs { h } else { rng.urange(h + 1, n_epochs - 1) };
            lists[e].push(i);
        }
    }
    let mut out = Vec::new();
    let mut delivered: BTreeSet<usize> = BTreeSet::new();
    for (e, list) in lists.iter_mut().enumerate() {
        let members: BTreeSet<usize> = list.iter().copied().filter(|i| home[*i].min(n_epochs - 1) == e).collect();
        let first_order = |l: &[usize]| -> Vec<usize> {
            let mut seen = Vec::new();
            for i in l {
                if members.contains(i) && !seen.contains(i) {
                    seen.push(*i);
                }
            }
            seen
        };
        let exhaust = members.len() <= 6 && used[e].len() < factorial(members.len());
        for _ in 0..12 {
            rng.shuffle(list);
            if !exhaust || !used[e].contains(&first_order(list)) {
                break;
            }
        }
        used[e].insert(first_order(list));
        let mut ops: Vec<Op> = Vec::with_capacity(list.len());
        for i in list.iter() {
            let retry = !delivered.insert(*i);
            ops.push(if retry && plain_retries && rng.chance(1, 4) { Op::DeliverPlain(*i) } else { Op::Deliver(*i) });
        }
        if elig.get(e).is_some_and(|c| !c.is_empty()) {
            let pos = rng.usize_below(ops.len() + 1);
            ops.insert(pos, Op::Elig);
        }
        out.push(ops);
    }
    out
}

pub fn generate(rng: &mut Rng, tier: Tier, avoid: bool) -> C08 {
    let thorough = tier == Tier::Thorough;
    let max_wl = *rng.pick(&[1usize, 2, 2, 3]);
    let max_heads = *rng.pick(&[1usize, 2, 3, 4]);
    let mut world = gen_world(rng, max_wl, max_heads, 4);
    // swarm: per-run policy bias (0 = as drawn, 1 = budgets, 2 = kind filters)
    let bias = rng.below(3);
    for wl in &mut world.worldlines {
        for h in &mut wl.heads {
            match bias {
                1 if rng.chance(1, 2) => h.policy = PolicySpec::Budget([0u32, 1, 1, 1, 1, 2, 2, 2, 3, 3][rng.usize_below(10)]),
                2 if rng.chance(1, 3) => h.policy = PolicySpec::Kinds((0..3u8).filter(|_| rng.chance(2, 3)).collect()),
                _ => {}
            }
        }
    }
    let n_wl = world.worldlines.len();
    let mode = if rng.chance(2, 5) { Mode::Ticketed } else { Mode::Plain };
    let mut kn = knobs(rng, avoid);
    kn.absent_16 = 0;

    let n = if thorough { rng.weighted(&[0, 0, 2, 3, 4, 4, 4, 3, 3, 2, 2, 1, 1, 1, 1]) } else { rng.weighted(&[0, 0, 3, 4, 5, 4, 4, 3, 2, 2]) };
    let mut intents: Vec<CIntent> = Vec::new();
    let mut nonce = 1u32;
    for _ in 0..n {
        let fresh = gen_intent(rng, &world, nonce, &kn);
        nonce += 1;
        let mut ci = CIntent { base: fresh, parents: Vec::new() };
        if rng.chance(1, 5) {
            for _ in 0..rng.urange(1, 3) {
                ci.parents.push(gen_parent(rng, n_wl));
            }
            if rng.chance(1, 4) {
                let p = ci.parents[0].clone();
                ci.parents.push(p);
            }
            if mode == Mode::Ticketed {
                for p in &mut ci.parents {
                    if p.role == 1 && !rng.chance(1, 4) {
                        p.role = 0;
                    }
                }
            }
        }
        if !intents.is_empty() {
            let src = rng.pick(&intents).clone();
            match rng.below(16) {
                0 | 1 => ci = src,
                2 | 3 | 4 => {
                    // same content through another route of the same worldline
                    let ts = routable_targets(&world, src.base.wl());
                    ci = src;
                    if !ts.is_empty() {
                        ci.base.target = rng.pick(&ts).clone();
                    }
                }
                5 => ci = vary_intent(rng, &src, &world, true),
                6 if n_wl > 1 && rng.chance(1, 2) => {
                    let other = world.worldlines[(usize::from(src.base.wl()) + 1) % n_wl].id;
                    ci = src;
                    ci.base.target = TargetSpec::Default { wl: other };
                }
                _ => {}
            }
        }
        if rng.chance(1, 30) {
            ci.base.target = TargetSpec::Inbox { wl: ci.base.wl(), name: 200 };
        }
        intents.push(ci);
    }

    // identity-only probes: near-identical variants
    let mut probes = Vec::new();
    for _ in 0..rng.urange(2, 5) {
        let src = rng.pick(&intents).clone();
        probes.push(vary_intent(rng, &src, &world, false));
    }
    let mut perms = Vec::new();
    for ci in intents.iter().chain(probes.iter()) {
        let np = ci.parents.len();
        let mut p: Vec<usize> = (0..np).collect();
        rng.shuffle(&mut p);
        for _ in 0..rng.urange(0, np) {
            if np > 0 {
                let extra = rng.usize_below(np);
                let pos = rng.usize_below(p.len() + 1);
                p.insert(pos, extra);
            }
        }
        perms.push(p);
    }

    // epoch partition
    let members = rng.urange(1, 4);
    let mut n_epochs = members + rng.urange(0, 2);
    let mut home: Vec<usize> = (0..n).map(|_| rng.usize_below(members)).collect();
    if n >= 2 && rng.chance(3, 4) {
        home[1] = home[0];
    }

    // restarts (ticketed mode only: only that path persists committed ingress)
    let mut restarts = vec![false; n_epochs];
    if mode == Mode::Ticketed && rng.chance(2, 3) {
        if n_epochs < 2 {
            n_epochs = 2;
            restarts = vec![false; n_epochs];
        }
        for _ in 0..rng.urange(1, 2) {
            let e = rng.usize_below(n_epochs - 1);
            restarts[e] = true;
        }
    }

    // eligibility changes
    let mut elig: Vec<Vec<EligChange>> = vec![Vec::new(); n_epochs];
    if rng.chance(1, 3) {
        for _ in 0..rng.urange(1, 2) {
            let wl = rng.pick(&world.worldlines);
            let h = rng.pick(&wl.heads);
            let a = rng.usize_below(n_epochs);
            elig[a].push(EligChange { wl: wl.id, head: h.label, admitted: false });
            if a + 1 < n_epochs && rng.chance(2, 3) {
                let b = rng.urange(a + 1, n_epochs - 1);
                elig[b].push(EligChange { wl: wl.id, head: h.label, admitted: true });
            }
        }
    }

    // schedules
    let k = rng.urange(3, if thorough { 6 } else { 5 });
    let mut used: Vec<BTreeSet<Vec<usize>>> = vec![BTreeSet::new(); n_epochs];
    let mut schedules = Vec::new();
    for s in 0..k {
        let no_retries = s == 0 && rng.chance(1, 2);
        let epochs = build_schedule(rng, n, &home, n_epochs, &elig, &mut used, no_retries, mode == Mode::Ticketed);
        schedules.push(Schedule { no_restart: false, restage_rev: rng.chance(1, 2), defer_staging: mode == Mode::Ticketed && rng.chance(1, 3), epochs });
    }
    if restarts.iter().any(|r| *r) && rng.chance(1, 2) {
        let mut twin = rng.pick(&schedules).clone();
        twin.no_restart = true;
        schedules.push(twin);
    }
    // delay across an epoch boundary: a DIFFERENT partition (not required to equal the others)
    if n_epochs >= 2 && rng.chance(1, 4) {
        let mut home2 = home.clone();
        for _ in 0..rng.urange(1, 2) {
            let i = rng.usize_below(n);
            home2[i] = (home2[i] + rng.urange(1, n_epochs - 1)) % n_epochs;
        }
        let mut scratch: Vec<BTreeSet<Vec<usize>>> = vec![BTreeSet::new(); n_epochs];
        let epochs = build_schedule(rng, n, &home2, n_epochs, &elig, &mut scratch, false, mode == Mode::Ticketed);
        schedules.push(Schedule { no_restart: false, restage_rev: rng.chance(1, 2), defer_staging: mode == Mode::Ticketed && rng.chance(1, 3), epochs });
        if rng.chance(1, 2) {
            // and a second member of that other family, so that it is compared as well
            let epochs = build_schedule(rng, n, &home2, n_epochs, &elig, &mut scratch, false, mode == Mode::Ticketed);
            schedules.push(Schedule { no_restart: false, restage_rev: rng.chance(1, 2), defer_staging: mode == Mode::Ticketed && rng.chance(1, 3), epochs });
        }
    }
    let inbox_tape = if rng.chance(1, 2) { super::inbox::generate(rng, intents.len()) } else { Default::default() };
    let graph_inbox = if rng.chance(1, 4) { super::graph_inbox::generate(rng) } else { Default::default() };
    C08 { world, mode, intents, probes, perms, n_epochs, elig, restarts, schedules, inbox_tape, graph_inbox }
}
