//! C07 — replay is path-independent.
//!
//! Scheduled parties: a client delivering honest intents to 1–2 worldlines and the scheduler
//! passes between them (this produces a real history and the ground truth `live[w][t]`), then a
//! seeded *op tape* of readers: playback cursors (fresh / reused, Reader / Writer, pinned at, below
//! or beyond the frontier) that `seek_to` forward and backward and `step` under every
//! `PlaybackMode`, checkpoint placements (live during the history through
//! `ProvenanceService::checkpoint`, afterwards through `add_checkpoint(ReplayCheckpoint::from_state)`
//! from replayed states and from cursor states), forks (`ProvenanceService::fork`,
//! `WorldlineRuntime::fork_strand`) followed by the same ops on the child, and direct
//! `replay_worldline_state_at` / `replay_worldline_state` calls with different replay bases.
//! For histories of <= 5 ticks (start, target, checkpoint subset) triples are drawn without
//! replacement (or enumerated completely when the space is small enough for the tier).
//! No faults are injected.
//!
//! Tick numbering: cursor coordinate `t` = state after `t` commits; `t = 0` is the U0 base and
//! `t >= 1` corresponds to `live[w][t-1]` / provenance entry `t-1`.
//!
//! Oracle (a) replay vs live: after every op the cursor / returned state at coordinate `t` has the
//! abstract state, the state root and the per-tick (commit id, state root) list recorded live.
//! Oracle (b) replay vs replay: every two replay outputs for the same (root worldline, t) have
//! byte-identical `{:#?}` text, whatever path produced them (parent or fork child included).

use std::collections::{BTreeMap, BTreeSet};
use std::sync::atomic::{AtomicU64, Ordering};

use serde::{Deserialize, Serialize};
use warp_core::{
    make_strand_id, ActorId, AuthorityBinding, AuthorityDomainId, AuthorityDomainRef, CausalPosture, CheckpointRef, CursorId, CursorRole,
    ForkStrandRequest, Hash, HistoryError, InboxPolicy, OriginId, PlaybackCursor, PlaybackMode, ProvenanceEntry, ProvenanceRef,
    ProvenanceService, ProvenanceStore, ReplayCheckpoint, RetentionContractId, RetentionPosture, SealStrength, SeekThen, SessionContext,
    SessionId, WarpId, WorldlineId, WorldlineRuntime, WorldlineState, WorldlineTick, WriterHead,
};

use crate::kernel::{catch, Outcome, PropertySpec, Rng, RunCtx, Scenario, Tier};
use crate::model::refstate::{abs, RefState};
use crate::props::c01::knobs;
use crate::world::ids;
use crate::world::prog::Step;
use crate::world::runtime::{fingerprint, gen_intent, gen_world, head_key, wl_id, Intent, LiveTick, PassResult, World, WorldSpec};

pub const SPEC: PropertySpec = PropertySpec {
    id: "C07",
    level: "exploration",
    rule: "scenario = world (1-2 worldlines x 1-3 heads) + history tape (honest intents, 3-12 passes, thorough up to 40, live checkpoints) + op tape over that history (cursor create/seek/step in every PlaybackMode/pin change, checkpoint placement from replayed or cursor states, forks via ProvenanceService::fork and fork_strand, direct replay with fresh/live/replayed bases) + (start,target,checkpoint-subset) triples for histories <= 5 ticks; non-trivial = history >= 2 ticks and >= 2 distinct paths compared at some tick; distinct = hash of (history spec, op tape)",
    quick_runs: 6_000,
    thorough_runs: 40_000,
    real_components: &[
        "PlaybackCursor::new/seek_to/step",
        "ProvenanceService (checkpoint, add_checkpoint, fork, replay_worldline_state_at, replay_worldline_state, checkpoint_before)",
        "restore_replay_base / advance_replay_state / finalize_replay_metadata / validate_checkpoint_for_history",
        "WorldlineRuntime::fork_strand",
        "SchedulerCoordinator::super_tick + Engine (history production)",
    ],
    stub_components: &["application rules: data-driven interpreter", "recording ProvenanceStore wrapper (pure delegation, counts which path a seek took)"],
    assumptions: &[
        "cursor coordinate t = state after t commits; t = 0 is the U0 replay base",
        "committed_ingress is deliberately not restored by replay and is not compared with live",
        "a typed error is legitimate only for targets beyond min(pin_max_tick, history length)",
        "WorldlineState carries no worldline id, so parent and fork-child replays of a shared prefix tick are compared as text",
    ],
    fault_kinds: &[],
};

// ---------------------------------------------------------------------------
// Scenario data
// ---------------------------------------------------------------------------

#[derive(Clone, Debug, Serialize, Deserialize)]
pub enum HOp {
    Deliver(Intent),
    Pass,
    /// `ProvenanceService::checkpoint` on the live frontier state of worldline `wl`
    LiveCheckpoint { wl: u8 },
}

/// Tick selector, resolved at execution time against the lane's history length / cursor position.
#[derive(Clone, Copy, Debug, Serialize, Deserialize, PartialEq, Eq)]
pub enum TickSel {
    /// raw % (len + 1)
    Abs(u16),
    /// cursor tick + d (floored at 0; may pass the end)
    Rel(i8),
    /// len + 1 + k
    PastEnd(u8),
    /// u64::MAX
    Huge,
}

#[derive(Clone, Copy, Debug, Serialize, Deserialize, PartialEq, Eq)]
pub enum BaseSel {
    /// `WorldlineState::new(initial warp state)`
    Fresh,
    /// the live frontier state of the worldline (when the runtime has it)
    Live,
    /// a state replayed to raw % (len + 1)
    Replayed(u16),
}

#[derive(Clone, Copy, Debug, Serialize, Deserialize, PartialEq, Eq)]
pub enum ModeSel {
    Paused,
    Play,
    StepForward,
    StepBack,
    Seek { to: TickSel, then_play: bool },
}

#[derive(Clone, Copy, Debug, Serialize, Deserialize, PartialEq, Eq)]
pub enum PinSel {
    Len,
    Beyond(u8),
    Below(u16),
    Max,
}

#[derive(Clone, Copy, Debug, Serialize, Deserialize, PartialEq, Eq)]
pub enum CpSrc {
    Replay(BaseSel),
    Cursor(u8),
}

#[derive(Clone, Debug, Serialize, Deserialize)]
pub enum Op {
    NewCursor { slot: u8, lane: u8, pin: PinSel, writer: bool, base0_replayed: bool },
    SetPin { slot: u8, pin: PinSel },
    Seek { slot: u8, to: TickSel, base: BaseSel },
    /// `mode: None` keeps whatever mode the cursor is in
    Step { slot: u8, mode: Option<ModeSel>, base: BaseSel },
    Checkpoint { lane: u8, at: u16, src: CpSrc },
    Fork { lane: u8, at: TickSel, strand: bool },
    ReplayAt { lane: u8, to: TickSel, base: BaseSel },
    ReplayFull { lane: u8, base: BaseSel },
}

/// (start, target, checkpoint subset) triples over one root worldline with a short history.
#[derive(Clone, Debug, Serialize, Deserialize)]
pub struct Triples {
    pub wl: u8,
    /// enumerate the whole space when the history is short enough for the tier
    pub exhaustive: bool,
    /// distinct indices into the 6 x 6 x 64 space of a 5-tick history (reduced for shorter ones)
    pub picks: Vec<u16>,
}

#[derive(Clone, Debug, Serialize, Deserialize)]
pub struct C07 {
    pub world: WorldSpec,
    pub history: Vec<HOp>,
    pub triples: Triples,
    pub tape: Vec<Op>,
    /// Recorded materialization outputs. The runtime commit path clears the bus, so its own entries
    /// never carry outputs; with a plan, the recorded history is re-appended to a fresh provenance
    /// service with outputs on the ticks whose bit is set (entry t uses bit t % len; outputs are not
    /// bound by the commit hash), so replays cross emitting and silent ticks. Live checkpoints of the
    /// history are skipped in that case (the tape places its own).
    #[serde(default)]
    pub outputs_plan: Option<Vec<bool>>,
}

const N_SLOTS: u8 = 3;
const MAX_CHILDREN: usize = 5;

fn gen_ticksel(rng: &mut Rng) -> TickSel {
    match rng.weighted(&[12, 5, 2, 1]) {
        0 => TickSel::Abs(rng.below(64) as u16),
        1 => TickSel::Rel(rng.range(0, 6) as i8 - 3),
        2 => TickSel::PastEnd(rng.below(3) as u8),
        _ => TickSel::Huge,
    }
}

fn gen_base(rng: &mut Rng) -> BaseSel {
    match rng.weighted(&[6, 2, 2]) {
        0 => BaseSel::Fresh,
        1 => BaseSel::Live,
        _ => BaseSel::Replayed(rng.below(64) as u16),
    }
}

fn gen_pin(rng: &mut Rng) -> PinSel {
    match rng.weighted(&[8, 3, 2, 1]) {
        0 => PinSel::Len,
        1 => PinSel::Beyond(rng.below(3) as u8),
        2 => PinSel::Below(rng.below(64) as u16),
        _ => PinSel::Max,
    }
}

fn gen_mode(rng: &mut Rng) -> ModeSel {
    match rng.weighted(&[1, 4, 4, 4, 4]) {
        0 => ModeSel::Paused,
        1 => ModeSel::Play,
        2 => ModeSel::StepForward,
        3 => ModeSel::StepBack,
        _ => ModeSel::Seek { to: gen_ticksel(rng), then_play: rng.chance(1, 2) },
    }
}

impl Scenario for C07 {
    fn generate(rng: &mut Rng, tier: Tier, avoid: bool) -> Self {
        let world = gen_world(rng, 2, 3, 4);
        let mut kn = knobs(rng, avoid);
        kn.absent_16 = 0;
        // history
        let short = rng.chance(1, 3);
        let n_pass = if short {
            rng.urange(1, 4)
        } else if tier == Tier::Thorough && rng.chance(1, 8) {
            rng.urange(13, 40)
        } else {
            rng.urange(3, 12)
        };
        let triples_on = short || rng.chance(1, 4);
        let triples_wl = rng.below(world.worldlines.len() as u64) as u8;
        let mut history = Vec::new();
        let mut nonce = 1u32;
        // Programs are generated against the initial state; once earlier ticks deleted things, later
        // honest programs can become inapplicable and the pass fails (the history stops there).
        // Two thirds of the runs therefore delete never or only in the first round, so that long
        // histories are common.
        let delete_rounds = *rng.pick(&[0usize, 1, usize::MAX]);
        for round in 0..n_pass {
            let n_int = if rng.chance(1, 8) { 0 } else { rng.urange(1, 3) };
            for _ in 0..n_int {
                let mut intent = gen_intent(rng, &world, nonce, &kn);
                if round >= delete_rounds {
                    intent.prog.steps.retain(|s| !matches!(s, Step::DeleteNode { .. } | Step::DeleteEdge { .. }));
                    if intent.prog.steps.is_empty() {
                        intent.prog.steps.push(Step::Noop);
                    }
                }
                history.push(HOp::Deliver(intent));
                nonce += 1;
            }
            history.push(HOp::Pass);
            if rng.chance(1, 5) {
                let wl = rng.below(world.worldlines.len() as u64) as u8;
                // the triples section needs a checkpoint-free service for its worldline
                if !(triples_on && wl == triples_wl) {
                    history.push(HOp::LiveCheckpoint { wl });
                }
            }
        }
        // triples
        let mut picks: Vec<u16> = Vec::new();
        if triples_on {
            let want = rng.urange(4, 24);
            let mut seen = BTreeSet::new();
            while picks.len() < want {
                let p = rng.below(2304) as u16;
                if seen.insert(p) {
                    picks.push(p);
                }
            }
        }
        let triples = Triples { wl: triples_wl, exhaustive: triples_on && rng.chance(1, 6), picks };
        // op tape
        let n_ops = rng.urange(6, 30);
        let mut tape = vec![Op::NewCursor { slot: 0, lane: rng.below(4) as u8, pin: gen_pin(rng), writer: false, base0_replayed: rng.chance(1, 4) }];
        let cp_heavy = rng.chance(1, 2);
        let fork_heavy = rng.chance(1, 3);
        for _ in 0..n_ops {
            let slot = rng.below(u64::from(N_SLOTS)) as u8;
            let lane = rng.below(8) as u8;
            let w = [3, 1, 14, 10, if cp_heavy { 8 } else { 3 }, if fork_heavy { 4 } else { 1 }, 3, 1];
            tape.push(match rng.weighted(&w) {
                0 => Op::NewCursor { slot, lane, pin: gen_pin(rng), writer: rng.chance(1, 10), base0_replayed: rng.chance(1, 4) },
                1 => Op::SetPin { slot, pin: gen_pin(rng) },
                2 => Op::Seek { slot, to: gen_ticksel(rng), base: gen_base(rng) },
                3 => Op::Step { slot, mode: if rng.chance(1, 5) { None } else { Some(gen_mode(rng)) }, base: gen_base(rng) },
                4 => Op::Checkpoint { lane, at: rng.below(64) as u16, src: if rng.chance(1, 3) { CpSrc::Cursor(slot) } else { CpSrc::Replay(gen_base(rng)) } },
                5 => Op::Fork { lane, at: if rng.chance(1, 8) { TickSel::PastEnd(rng.below(2) as u8) } else { TickSel::Abs(rng.below(64) as u16) }, strand: rng.chance(1, 3) },
                6 => Op::ReplayAt { lane, to: gen_ticksel(rng), base: gen_base(rng) },
                _ => Op::ReplayFull { lane, base: gen_base(rng) },
            });
        }
        let outputs_plan = if rng.chance(1, 2) { Some((0..rng.urange(2, 6)).map(|_| rng.chance(1, 2)).collect()) } else { None };
        C07 { world, history, triples, tape, outputs_plan }
    }

    fn execute(&self, ctx: &mut RunCtx) -> Outcome {
        match self.run(ctx) {
            Ok(()) => Outcome::Ok,
            Err(o) => o,
        }
    }

    fn shrink_candidates(&self) -> Vec<Self> {
        let mut out = Vec::new();
        // drop the triples section, then single picks
        if !self.triples.picks.is_empty() || self.triples.exhaustive {
            let mut s = self.clone();
            s.triples.picks.clear();
            s.triples.exhaustive = false;
            out.push(s);
        }
        if self.triples.exhaustive {
            let mut s = self.clone();
            s.triples.exhaustive = false;
            out.push(s);
        }
        // drop the whole tape / halves / single ops
        if self.tape.len() > 1 {
            let mut s = self.clone();
            s.tape.clear();
            out.push(s);
            let mut s = self.clone();
            s.tape.truncate(self.tape.len() / 2);
            out.push(s);
            let mut s = self.clone();
            s.tape.drain(..self.tape.len() / 2);
            out.push(s);
        }
        for i in (0..self.tape.len()).rev() {
            let mut s = self.clone();
            s.tape.remove(i);
            out.push(s);
        }
        if self.triples.picks.len() > 1 {
            let mut s = self.clone();
            s.triples.picks.truncate(self.triples.picks.len() / 2);
            out.push(s);
            for i in 0..self.triples.picks.len() {
                let mut s = self.clone();
                s.triples.picks.remove(i);
                out.push(s);
            }
        }
        // shorten the history: cut after an earlier pass, drop live checkpoints, drop deliveries
        let pass_ix: Vec<usize> = self.history.iter().enumerate().filter(|(_, h)| matches!(h, HOp::Pass)).map(|(i, _)| i).collect();
        if pass_ix.len() > 1 {
            let mut s = self.clone();
            s.history.truncate(pass_ix[(pass_ix.len() - 1) / 2] + 1);
            out.push(s);
            let mut s = self.clone();
            s.history.truncate(pass_ix[pass_ix.len() - 2] + 1);
            out.push(s);
        }
        for i in (0..self.history.len()).rev() {
            let mut s = self.clone();
            s.history.remove(i);
            out.push(s);
        }
        // drop the last worldline
        if self.world.worldlines.len() > 1 {
            let last = self.world.worldlines.len() - 1;
            let id = self.world.worldlines[last].id;
            let mut s = self.clone();
            s.world.worldlines.pop();
            s.history.retain(|h| match h {
                HOp::Deliver(i) => i.wl() != id,
                HOp::LiveCheckpoint { wl } => *wl != id,
                HOp::Pass => true,
            });
            if s.triples.wl == id {
                s.triples.wl = 0;
            }
            out.push(s);
        }
        // drop non-default heads that no intent addresses exactly
        for (wi, wl) in self.world.worldlines.iter().enumerate() {
            for (hi, h) in wl.heads.iter().enumerate() {
                if h.default || wl.heads.len() < 2 {
                    continue;
                }
                let mut s = self.clone();
                s.world.worldlines[wi].heads.remove(hi);
                out.push(s);
            }
        }
        // simpler programs
        for (oi, op) in self.history.iter().enumerate() {
            if let HOp::Deliver(i) = op {
                if i.prog.steps.len() > 1 {
                    for si in 0..i.prog.steps.len() {
                        let mut s = self.clone();
                        if let HOp::Deliver(x) = &mut s.history[oi] {
                            x.prog.steps.remove(si);
                        }
                        out.push(s);
                    }
                }
            }
        }
        if self.world.workers > 1 {
            let mut s = self.clone();
            s.world.workers = 1;
            out.push(s);
        }
        out
    }
}

// ---------------------------------------------------------------------------
// Recording store wrapper (pure delegation + counters)
// ---------------------------------------------------------------------------

struct Rec<'a> {
    inner: &'a ProvenanceService,
    entries: AtomicU64,
    cp_some: AtomicU64,
    cp_none: AtomicU64,
}

impl<'a> Rec<'a> {
    fn new(inner: &'a ProvenanceService) -> Self {
        Rec { inner, entries: AtomicU64::new(0), cp_some: AtomicU64::new(0), cp_none: AtomicU64::new(0) }
    }
    /// Which path the calls since construction took.
    fn path(&self) -> &'static str {
        if self.cp_some.load(Ordering::Relaxed) > 0 {
            "cp"
        } else if self.cp_none.load(Ordering::Relaxed) > 0 {
            "u0"
        } else if self.entries.load(Ordering::Relaxed) > 0 {
            "fwd"
        } else {
            "noop"
        }
    }
}

impl ProvenanceStore for Rec<'_> {
    fn u0(&self, w: WorldlineId) -> Result<WarpId, HistoryError> {
        self.inner.u0(w)
    }
    fn initial_boundary_hash(&self, w: WorldlineId) -> Result<Hash, HistoryError> {
        ProvenanceStore::initial_boundary_hash(self.inner, w)
    }
    fn len(&self, w: WorldlineId) -> Result<u64, HistoryError> {
        self.inner.len(w)
    }
    fn entry(&self, w: WorldlineId, tick: WorldlineTick) -> Result<ProvenanceEntry, HistoryError> {
        self.entries.fetch_add(1, Ordering::Relaxed);
        self.inner.entry(w, tick)
    }
    fn parents(&self, w: WorldlineId, tick: WorldlineTick) -> Result<Vec<ProvenanceRef>, HistoryError> {
        self.inner.parents(w, tick)
    }
    fn append_local_commit(&mut self, entry: ProvenanceEntry) -> Result<(), HistoryError> {
        // read-only view: cursors never append
        Err(HistoryError::WorldlineNotFound(entry.worldline_id))
    }
    fn append_recorded_event(&mut self, entry: ProvenanceEntry) -> Result<(), HistoryError> {
        Err(HistoryError::WorldlineNotFound(entry.worldline_id))
    }
    fn checkpoint_before(&self, w: WorldlineId, tick: WorldlineTick) -> Option<CheckpointRef> {
        ProvenanceStore::checkpoint_before(self.inner, w, tick)
    }
    fn checkpoint_state_before(&self, w: WorldlineId, tick: WorldlineTick) -> Option<ReplayCheckpoint> {
        let r = ProvenanceStore::checkpoint_state_before(self.inner, w, tick);
        if r.is_some() {
            self.cp_some.fetch_add(1, Ordering::Relaxed);
        } else {
            self.cp_none.fetch_add(1, Ordering::Relaxed);
        }
        r
    }
}

// ---------------------------------------------------------------------------
// Oracle state
// ---------------------------------------------------------------------------

struct Root {
    live: Vec<LiveTick>,
    abs0: RefState,
    root0: Hash,
    /// recorded outputs per entry
    outputs: Vec<Vec<(warp_core::TypeId, Vec<u8>)>>,
}

struct Lane {
    wl: WorldlineId,
    root: usize,
    len: u64,
    /// model of the checkpoint coordinates stored for this worldline
    cps: BTreeSet<u64>,
    in_runtime: bool,
    child: bool,
}

struct Seen {
    /// digest of the compact `{:?}` text of the first replay output seen at this coordinate
    digest: [u8; 32],
    /// that output itself, kept so that a mismatch can be reported field by field
    state: WorldlineState,
    first: String,
    labels: BTreeSet<String>,
}

/// `fmt::Write` sink hashing the Debug text without materialising it (the pretty text of a
/// 10-tick state is ~400 kB; only its digest is needed unless two paths disagree).
struct HashSink {
    h: blake3::Hasher,
    buf: [u8; 4096],
    n: usize,
    total: u64,
}

impl HashSink {
    fn new() -> Self {
        HashSink { h: blake3::Hasher::new(), buf: [0; 4096], n: 0, total: 0 }
    }
    fn finish(mut self) -> ([u8; 32], u64) {
        self.h.update(&self.buf[..self.n]);
        (*self.h.finalize().as_bytes(), self.total)
    }
}

impl std::fmt::Write for HashSink {
    fn write_str(&mut self, s: &str) -> std::fmt::Result {
        let b = s.as_bytes();
        self.total += b.len() as u64;
        if self.n + b.len() > self.buf.len() {
            self.h.update(&self.buf[..self.n]);
            self.n = 0;
            if b.len() > self.buf.len() {
                self.h.update(b);
                return Ok(());
            }
        }
        self.buf[self.n..self.n + b.len()].copy_from_slice(b);
        self.n += b.len();
        Ok(())
    }
}

fn debug_digest(st: &WorldlineState) -> ([u8; 32], u64) {
    use std::fmt::Write as _;
    let mut sink = HashSink::new();
    let _ = write!(sink, "{st:?}");
    sink.finish()
}

struct Oracle {
    roots: Vec<Root>,
    lanes: Vec<Lane>,
    seen: BTreeMap<(usize, u64), Seen>,
    multi_path: bool,
    warps: Vec<WarpId>,
}

struct Cur {
    cursor: PlaybackCursor,
    lane: usize,
}

fn wt(t: u64) -> WorldlineTick {
    WorldlineTick::from_raw(t)
}

fn hx(h: &Hash) -> String {
    hex::encode(&h[..6])
}

fn resolve_tick(sel: TickSel, len: u64, cur: u64) -> u64 {
    match sel {
        TickSel::Abs(r) => u64::from(r) % (len + 1),
        TickSel::Rel(d) => {
            if d >= 0 {
                cur.saturating_add(d as u64)
            } else {
                cur.saturating_sub(u64::from(d.unsigned_abs()))
            }
        }
        TickSel::PastEnd(k) => len + 1 + u64::from(k),
        TickSel::Huge => u64::MAX,
    }
}

fn resolve_pin(sel: PinSel, len: u64) -> u64 {
    match sel {
        PinSel::Len => len,
        PinSel::Beyond(k) => len + 1 + u64::from(k),
        PinSel::Below(r) => u64::from(r) % (len + 1),
        PinSel::Max => u64::MAX,
    }
}

fn first_diff(a: &str, b: &str) -> String {
    for (i, (x, y)) in a.lines().zip(b.lines()).enumerate() {
        if x != y {
            return format!("line {i}: `{}` vs `{}`", x.trim(), y.trim());
        }
    }
    format!("line counts {} vs {}", a.lines().count(), b.lines().count())
}

fn retention_posture() -> Result<RetentionPosture, Outcome> {
    let origin = OriginId::from_bytes([0x41; 32]);
    let domain = AuthorityDomainRef::new(origin, AuthorityDomainId::from_bytes([0x51; 32]));
    SessionContext::new(
        SessionId([0x61; 32]),
        origin,
        ActorId::from_bytes([0x71; 32]),
        domain,
        AuthorityBinding::LocalUnbound { origin },
        SealStrength::Advisory,
        CausalPosture::AuthorOnly,
        None,
        RetentionContractId::from_bytes([0x81; 32]),
    )
    .and_then(|s| s.retention_posture())
    .map_err(|e| Outcome::violation("harness:retention_posture", format!("{e:?}")))
}

impl Oracle {
    fn expected_root(&self, root: usize, t: u64) -> Option<Hash> {
        let r = &self.roots[root];
        if t == 0 {
            Some(r.root0)
        } else {
            r.live.get(t as usize - 1).map(|l| l.state_root)
        }
    }

    /// Oracle (a) + (b) for one replay output claimed to be at coordinate `t` of `lane`.
    fn check_state(&mut self, ctx: &mut RunCtx, lane: usize, t: u64, st: &WorldlineState, label: &str, compare_text: bool) -> Result<(), Outcome> {
        let root = self.lanes[lane].root;
        let child = self.lanes[lane].child;
        let r = &self.roots[root];
        let who = format!("{label} lane {lane} (root worldline #{root}{}) tick {t}", if child { ", fork child" } else { "" });
        if t > r.live.len() as u64 {
            return Err(Outcome::violation("replay_beyond_history", format!("{who}: history has {} ticks", r.live.len())));
        }
        // (a) replay vs live
        let exp_root = if t == 0 { r.root0 } else { r.live[t as usize - 1].state_root };
        let got_root = st.state_root();
        if got_root != exp_root {
            return Err(Outcome::violation("replay_vs_live:state_root", format!("{who}: state root {} live {}", hx(&got_root), hx(&exp_root))));
        }
        let exp_abs = if t == 0 { Some(&r.abs0) } else { r.live[t as usize - 1].abs.as_ref() };
        if let Some(exp) = exp_abs {
            let got = abs(st.warp_state(), &self.warps);
            if &got != exp {
                return Err(Outcome::violation("replay_vs_live:state", format!("{who}: abstract state differs from the live state at that tick\nreplay {got:?}\nlive   {exp:?}")));
            }
        }
        if st.current_tick().as_u64() != t {
            return Err(Outcome::violation("replay_vs_live:commit_id", format!("{who}: state carries {} committed ticks", st.current_tick().as_u64())));
        }
        for (i, (snap, _, _)) in st.tick_history().iter().enumerate() {
            let l = &r.live[i];
            if snap.hash != l.commit_hash || snap.state_root != l.state_root {
                return Err(Outcome::violation(
                    "replay_vs_live:commit_id",
                    format!("{who}: tick_history[{i}] commit {} root {} live commit {} root {}", hx(&snap.hash), hx(&snap.state_root), hx(&l.commit_hash), hx(&l.state_root)),
                ));
            }
        }
        match (st.last_snapshot(), t) {
            (None, 0) => {}
            (Some(s), t) if t > 0 && s.hash == r.live[t as usize - 1].commit_hash => {}
            (s, _) => {
                return Err(Outcome::violation("replay_vs_live:commit_id", format!("{who}: last_snapshot {:?}", s.map(|s| hx(&s.hash)))));
            }
        }
        // the materialization a state at tick t carries is what entry t-1 recorded
        let exp_out: Vec<(warp_core::TypeId, Vec<u8>)> = if t == 0 { Vec::new() } else { r.outputs.get(t as usize - 1).cloned().unwrap_or_default() };
        let got_out: Vec<(warp_core::TypeId, Vec<u8>)> = st.last_materialization().iter().map(|c| (c.channel, c.data.clone())).collect();
        if got_out != exp_out && !(child && t as usize > r.outputs.len()) {
            return Err(Outcome::violation("replay_vs_history:last_materialization", format!("{who}: the replayed state carries {} output channels, entry {} of the history recorded {}", got_out.len(), t.saturating_sub(1), exp_out.len())));
        }
        // (b) replay vs replay
        if compare_text {
            let (digest, bytes) = debug_digest(st);
            ctx.count("time.debug_text_bytes", bytes);
            match self.seen.get_mut(&(root, t)) {
                None => {
                    let mut labels = BTreeSet::new();
                    labels.insert(label.to_owned());
                    self.seen.insert((root, t), Seen { digest, state: st.clone(), first: who, labels });
                }
                Some(seen) => {
                    if seen.digest != digest {
                        let (a, b) = (format!("{:#?}", seen.state), format!("{st:#?}"));
                        let fields = fingerprint(&a).diff(&fingerprint(&b));
                        let what = if fields.is_empty() { "debug_text".to_owned() } else { fields.join("+") };
                        let class = if child { format!("fork_prefix_differs:{what}") } else { format!("replay_path_dependent:{what}") };
                        return Err(Outcome::violation(class, format!("{who} differs from {}: {}", seen.first, first_diff(&a, &b))));
                    }
                    seen.labels.insert(label.to_owned());
                    if seen.labels.len() >= 2 {
                        self.multi_path = true;
                    }
                    ctx.hit("reach.paths_compared");
                }
            }
        }
        Ok(())
    }

    /// The store's checkpoint index agrees with the model of what was placed.
    fn check_checkpoint_index(&self, prov: &ProvenanceService, lane: usize, class: &str) -> Result<(), Outcome> {
        let l = &self.lanes[lane];
        for t in 0..=l.len + 2 {
            let got = prov.checkpoint_before(l.wl, wt(t));
            let exp = l.cps.range(..t).next_back().copied();
            if got.map(|c| c.worldline_tick.as_u64()) != exp {
                return Err(Outcome::violation(class, format!("lane {lane}: checkpoint_before({t}) = {:?}, placed checkpoints {:?}", got.map(|c| c.worldline_tick.as_u64()), l.cps)));
            }
            if let (Some(c), Some(e)) = (got, exp) {
                if Some(c.state_hash) != self.expected_root(l.root, e) {
                    return Err(Outcome::violation(class, format!("lane {lane}: checkpoint at {e} carries state hash {}", hx(&c.state_hash))));
                }
            }
        }
        Ok(())
    }
}

// ---------------------------------------------------------------------------
// Execution
// ---------------------------------------------------------------------------

fn fresh_base(spec: &crate::world::runtime::WlSpec) -> Result<WorldlineState, Outcome> {
    let st = spec.state.build().map_err(|e| Outcome::violation("state_construction_failed", e))?;
    WorldlineState::new(st, spec.state.root_key()).map_err(|e| Outcome::violation("state_construction_failed", format!("{e:?}")))
}

fn mode_name(m: PlaybackMode) -> &'static str {
    match m {
        PlaybackMode::Paused => "paused",
        PlaybackMode::Play => "play",
        PlaybackMode::StepForward => "step_forward",
        PlaybackMode::StepBack => "step_back",
        PlaybackMode::Seek { then: SeekThen::Pause, .. } => "seek_then_pause",
        PlaybackMode::Seek { then: SeekThen::Play, .. } => "seek_then_play",
    }
}

struct Run<'a> {
    oracle: Oracle,
    fresh: Vec<WorldlineState>,
    cursors: BTreeMap<u8, Cur>,
    n_cursors: u8,
    ctx: &'a mut RunCtx,
}

impl Run<'_> {
    fn new_cursor(&mut self, prov: &ProvenanceService, slot: u8, lane: usize, pin: PinSel, writer: bool, base0_replayed: bool) -> Result<(), Outcome> {
        let l = &self.oracle.lanes[lane];
        let (wl, root, len) = (l.wl, l.root, l.len);
        let replayed0 = if base0_replayed {
            match catch(|| prov.replay_worldline_state_at(wl, &self.fresh[root], wt(0))) {
                Ok(Ok(s)) => Some(s),
                Ok(Err(e)) => return Err(Outcome::violation("seek_failed_on_servable_target", format!("replay_worldline_state_at(lane {lane}, 0): {e:?}"))),
                Err(p) => return Err(Outcome::violation("cursor_panicked", format!("replay_worldline_state_at(lane {lane}, 0): {p}"))),
            }
        } else {
            None
        };
        let base = replayed0.as_ref().unwrap_or(&self.fresh[root]);
        self.n_cursors = self.n_cursors.wrapping_add(1);
        let mut id = [0u8; 32];
        id[0] = 0xC7;
        id[1] = self.n_cursors;
        let role = if writer { CursorRole::Writer } else { CursorRole::Reader };
        let warp = base.root().warp_id;
        let cursor = catch(|| PlaybackCursor::new(CursorId(id), wl, warp, role, base, wt(resolve_pin(pin, len)))).map_err(|p| Outcome::violation("cursor_panicked", format!("PlaybackCursor::new: {p}")))?;
        let label = format!("new_cursor{}:{}", if base0_replayed { "_replayed_base" } else { "" }, if self.oracle.lanes[lane].child { "child" } else { "root" });
        self.oracle.check_state(self.ctx, lane, cursor.current_tick().as_u64(), cursor.materialized_state(), &label, true)?;
        self.cursors.insert(slot, Cur { cursor, lane });
        self.ctx.hit("reach.fresh_cursor");
        Ok(())
    }

    fn ensure_cursor(&mut self, prov: &ProvenanceService, slot: u8) -> Result<(), Outcome> {
        if !self.cursors.contains_key(&slot) {
            // fixed fallback rule (only reachable after shrinking): fresh reader on lane 0
            self.new_cursor(prov, slot, 0, PinSel::Len, false, false)?;
        }
        Ok(())
    }

    /// Resolve a replay base. A replayed base is itself a replay output and is checked.
    fn replayed_base(&mut self, prov: &ProvenanceService, lane: usize, sel: BaseSel) -> Result<Option<WorldlineState>, Outcome> {
        let BaseSel::Replayed(r) = sel else { return Ok(None) };
        let l = &self.oracle.lanes[lane];
        let (wl, root, len, child) = (l.wl, l.root, l.len, l.child);
        let t = u64::from(r) % (len + 1);
        let rec = Rec::new(prov);
        let res = catch(|| replay_at(&rec, prov, wl, &self.fresh[root], t)).map_err(|p| Outcome::violation("cursor_panicked", format!("replay_worldline_state_at(lane {lane}, {t}): {p}")))?;
        match res {
            Ok(s) => {
                let label = format!("replay_at:{}:{}", rec.path(), if child { "child" } else { "root" });
                self.oracle.check_state(self.ctx, lane, t, &s, &label, true)?;
                Ok(Some(s))
            }
            Err(e) => Err(Outcome::violation("seek_failed_on_servable_target", format!("replay_worldline_state_at(lane {lane}, {t}) with fresh base: {e}"))),
        }
    }

    fn seek_like(&mut self, prov: &ProvenanceService, runtime: &WorldlineRuntime, slot: u8, base: BaseSel, mode: Option<Option<ModeSel>>, to: TickSel, oi: usize) -> Result<(), Outcome> {
        self.ensure_cursor(prov, slot)?;
        let lane = self.cursors[&slot].lane;
        let owned = self.replayed_base(prov, lane, base)?;
        let l = &self.oracle.lanes[lane];
        let (wl, root, len, child, in_rt) = (l.wl, l.root, l.len, l.child, l.in_runtime);
        let base_ref: &WorldlineState = match (base, owned.as_ref()) {
            (BaseSel::Replayed(_), Some(s)) => s,
            (BaseSel::Live, _) if in_rt => match runtime.worldlines().get(&wl) {
                Some(f) => f.state(),
                None => &self.fresh[root],
            },
            _ => &self.fresh[root],
        };
        let cur = self.cursors.get_mut(&slot).ok_or_else(|| Outcome::violation("harness:cursor_missing", format!("slot {slot}")))?;
        let before = cur.cursor.current_tick().as_u64();
        let pin = cur.cursor.pin_max_tick.as_u64();
        let limit = pin.min(len);
        let rec = Rec::new(prov);
        // what the op asks for: Some(target) = the cursor must move (or stay) there; None = documented no-op
        let (what, target): (String, Option<u64>) = match mode {
            None => {
                let t = resolve_tick(to, len, before);
                (format!("seek_to({t})"), Some(t))
            }
            Some(m) => {
                if let Some(m) = m {
                    cur.cursor.mode = match m {
                        ModeSel::Paused => PlaybackMode::Paused,
                        ModeSel::Play => PlaybackMode::Play,
                        ModeSel::StepForward => PlaybackMode::StepForward,
                        ModeSel::StepBack => PlaybackMode::StepBack,
                        ModeSel::Seek { to, then_play } => PlaybackMode::Seek { target: wt(resolve_tick(to, len, before)), then: if then_play { SeekThen::Play } else { SeekThen::Pause } },
                    };
                }
                let pm = cur.cursor.mode;
                self.ctx.hit(&format!("reach.step_mode.{}", mode_name(pm)));
                let reader = cur.cursor.role == CursorRole::Reader;
                let tgt = match pm {
                    PlaybackMode::Paused => None,
                    PlaybackMode::Play | PlaybackMode::StepForward => {
                        if !reader || before >= pin {
                            None
                        } else {
                            Some(before + 1)
                        }
                    }
                    PlaybackMode::StepBack => Some(before.saturating_sub(1)),
                    PlaybackMode::Seek { target, .. } => Some(target.as_u64()),
                };
                (format!("step[{}]", mode_name(pm)), tgt)
            }
        };
        let result: Result<Result<(), String>, String> = match mode {
            None => {
                let t = target.unwrap_or(before);
                catch(|| cur.cursor.seek_to(wt(t), &rec, base_ref).map_err(|e| format!("{e:?}")))
            }
            Some(_) => catch(|| cur.cursor.step(&rec, base_ref).map(|_| ()).map_err(|e| format!("{e:?}"))),
        };
        self.ctx.count("time.cursor_ops", 1);
        let after = cur.cursor.current_tick().as_u64();
        let path = rec.path();
        let who = format!("op#{oi} cursor {slot} lane {lane} at {before}: {what} (pin {pin}, history {len})");
        let result = result.map_err(|p| Outcome::violation("cursor_panicked", format!("{who}: {p}")))?;
        self.ctx.trace_str(&format!("{oi}:{what}:{before}->{after}:{path}:{}", result.is_ok()));
        let servable = target.is_none_or(|t| t <= limit);
        match (&result, target) {
            (Ok(()), Some(t)) => {
                if !servable {
                    return Err(Outcome::violation("seek_past_end_returned_state", format!("{who}: returned Ok, cursor now at {after}")));
                }
                if after != t {
                    return Err(Outcome::violation("cursor_tick_mismatch", format!("{who}: cursor reports tick {after}")));
                }
            }
            (Ok(()), None) => {
                if after != before {
                    return Err(Outcome::violation("cursor_tick_mismatch", format!("{who}: documented no-op moved the cursor to {after}")));
                }
            }
            (Err(e), _) => {
                if servable {
                    return Err(Outcome::violation("seek_failed_on_servable_target", format!("{who}: {e}")));
                }
                self.ctx.hit("reach.seek_past_end_typed_error");
                if after != before {
                    return Err(Outcome::violation("failed_seek_moved_cursor", format!("{who}: {e}; cursor now reports {after}")));
                }
            }
        }
        // reach probes
        if let (Ok(()), Some(t)) = (&result, target) {
            if t > before {
                self.ctx.hit("reach.seek_forward");
                if self.oracle.lanes[lane].cps.range(before + 1..t).next().is_some() {
                    self.ctx.hit("reach.checkpoint_between_cursor_and_target");
                }
                if self.oracle.lanes[lane].cps.contains(&t) {
                    self.ctx.hit("reach.checkpoint_at_target");
                }
                if path == "cp" {
                    self.ctx.hit("reach.forward_seek_restored_from_checkpoint");
                }
            } else if t < before {
                self.ctx.hit("reach.seek_backward");
            } else {
                self.ctx.hit("reach.seek_same_tick");
            }
            match path {
                "cp" => self.ctx.hit("reach.restored_from_checkpoint"),
                "u0" => self.ctx.hit("reach.restored_from_u0"),
                "fwd" => self.ctx.hit("reach.forward_advance"),
                _ => {}
            }
            if child {
                self.ctx.hit("reach.fork_replayed");
            }
        }
        let label = if result.is_ok() { format!("cursor:{path}:{}", if child { "child" } else { "root" }) } else { format!("cursor_after_error:{}", if child { "child" } else { "root" }) };
        let cur = &self.cursors[&slot];
        let croot = cur.cursor.current_state_root();
        if Some(croot) != self.oracle.expected_root(root, after) {
            return Err(Outcome::violation("replay_vs_live:state_root", format!("{who}: current_state_root() {} at reported tick {after}", hx(&croot))));
        }
        self.oracle.check_state(self.ctx, lane, after, cur.cursor.materialized_state(), &label, true).map_err(|o| match o {
            Outcome::Violation { class, detail } => Outcome::Violation { class, detail: format!("{who}\n{detail}") },
            o => o,
        })
    }

    /// Direct `replay_worldline_state_at` (`to = Some`) or `replay_worldline_state` (`to = None`).
    fn replay_op(&mut self, prov: &ProvenanceService, runtime: &WorldlineRuntime, lane: usize, to: Option<TickSel>, base: BaseSel, oi: usize) -> Result<(), Outcome> {
        let full = to.is_none();
        let owned = self.replayed_base(prov, lane, base)?;
        let l = &self.oracle.lanes[lane];
        let (wl, len, child) = (l.wl, l.len, l.child);
        let t = match to {
            None => len,
            Some(sel) => resolve_tick(sel, len, 0),
        };
        let base_ref: &WorldlineState = match (base, owned.as_ref()) {
            (BaseSel::Replayed(_), Some(s)) => s,
            (BaseSel::Live, _) if l.in_runtime => runtime.worldlines().get(&wl).map_or(&self.fresh[l.root], |f| f.state()),
            _ => &self.fresh[l.root],
        };
        let rec = Rec::new(prov);
        let res = if full {
            let _ = ProvenanceStore::checkpoint_state_before(&rec, wl, wt(len + 1));
            catch(|| prov.replay_worldline_state(wl, base_ref).map_err(|e| format!("{e:?}")))
        } else {
            catch(|| replay_at(&rec, prov, wl, base_ref, t))
        };
        let res = res.map_err(|p| Outcome::violation("cursor_panicked", format!("op#{oi} replay: {p}")))?;
        self.ctx.count("time.replay_calls", 1);
        self.ctx.trace_str(&format!("{oi}:replay:{lane}:{t}:{}", res.is_ok()));
        match res {
            Ok(st) => {
                if t > len {
                    return Err(Outcome::violation("seek_past_end_returned_state", format!("op#{oi}: replay_worldline_state_at(lane {lane}, {t}) returned a state for a {len}-tick history")));
                }
                if child {
                    self.ctx.hit("reach.fork_replayed");
                }
                let label = format!("{}:{}:{}", if full { "replay_full" } else { "replay_at" }, rec.path(), if child { "child" } else { "root" });
                self.oracle.check_state(self.ctx, lane, t, &st, &label, true)
            }
            Err(e) => {
                if t <= len {
                    return Err(Outcome::violation("seek_failed_on_servable_target", format!("op#{oi}: replay_worldline_state_at(lane {lane}, {t}) base {base:?}, history {len}: {e}")));
                }
                self.ctx.hit("reach.seek_past_end_typed_error");
                Ok(())
            }
        }
    }
}

/// `replay_worldline_state_at` through the generic entry point cannot take a wrapper (the service
/// method is concrete); the wrapper is only consulted to classify the path by the same lookup.
fn replay_at(rec: &Rec<'_>, prov: &ProvenanceService, wl: WorldlineId, base: &WorldlineState, t: u64) -> Result<WorldlineState, String> {
    // classify: same lookup the replay performs (largest checkpoint <= t)
    let _ = ProvenanceStore::checkpoint_state_before(rec, wl, wt(t).checked_increment().unwrap_or(wt(t))).is_some();
    prov.replay_worldline_state_at(wl, base, wt(t)).map_err(|e| format!("{e:?}"))
}

impl C07 {
    fn run(&self, ctx: &mut RunCtx) -> Result<(), Outcome> {
        let mut world = World::new(&self.world).map_err(|e| Outcome::violation("state_construction_failed", e))?;
        let warps: Vec<WarpId> = (0..ids::N_WARPS).map(ids::warp).collect();
        // tick-0 ground truth from the live runtime before anything ran
        let mut fresh = Vec::new();
        let mut t0 = Vec::new();
        for wl in &self.world.worldlines {
            fresh.push(fresh_base(wl)?);
            let f = world.runtime.worldlines().get(&wl_id(wl.id)).ok_or_else(|| Outcome::violation("state_construction_failed", "worldline not registered"))?;
            t0.push((abs(f.state().warp_state(), &warps), f.state().state_root()));
        }
        // ---- history
        let mut live_cps: BTreeMap<u8, BTreeSet<u64>> = BTreeMap::new();
        for (hi, h) in self.history.iter().enumerate() {
            match h {
                HOp::Deliver(i) => {
                    if self.world.worldlines.iter().any(|w| w.id == i.wl()) {
                        let _ = world.deliver(i);
                    }
                }
                HOp::Pass => match world.pass() {
                    PassResult::Ok(recs) => {
                        ctx.trace_str(&format!("pass:{}", recs.len()));
                    }
                    failed => {
                        ctx.trace_str(&format!("history stops: {failed:?}"));
                        ctx.hit("reach.history_stopped_at_failed_pass");
                        break;
                    }
                },
                HOp::LiveCheckpoint { .. } if self.outputs_plan.is_some() => {}
                HOp::LiveCheckpoint { wl } => {
                    let Some(f) = world.runtime.worldlines().get(&wl_id(*wl)) else { continue };
                    let t = f.frontier_tick().as_u64();
                    let state = f.state();
                    match catch(|| world.provenance.checkpoint(wl_id(*wl), state)) {
                        Ok(Ok(c)) => {
                            if c.worldline_tick.as_u64() != t {
                                return Err(Outcome::violation("checkpoint_rejected_valid", format!("history#{hi}: live checkpoint of worldline {wl} at frontier {t} was stored at {}", c.worldline_tick.as_u64())));
                            }
                            live_cps.entry(*wl).or_default().insert(t);
                            ctx.hit("reach.live_checkpoint");
                        }
                        Ok(Err(e)) => return Err(Outcome::violation("checkpoint_rejected_valid", format!("history#{hi}: ProvenanceService::checkpoint(live state of worldline {wl} at tick {t}): {e:?}"))),
                        Err(p) => return Err(Outcome::violation("cursor_panicked", format!("ProvenanceService::checkpoint: {p}"))),
                    }
                }
            }
        }
        if let Some(plan) = self.outputs_plan.as_ref().filter(|p| !p.is_empty()) {
            let mut rebuilt = ProvenanceService::new();
            for (wl, base) in self.world.worldlines.iter().zip(&fresh) {
                rebuilt.register_worldline(wl_id(wl.id), base).map_err(|e| Outcome::violation("harness:rebuild_register", format!("{e:?}")))?;
            }
            // entries in global commit order (cross-lane parents must exist when cited)
            let mut all: Vec<ProvenanceEntry> = Vec::new();
            for wl in &self.world.worldlines {
                let n = world.provenance.len(wl_id(wl.id)).unwrap_or(0);
                for t in 0..n {
                    all.push(world.provenance.entry(wl_id(wl.id), wt(t)).map_err(|e| Outcome::violation("harness:rebuild_entry", format!("{e:?}")))?);
                }
            }
            all.sort_by_key(|e| (e.commit_global_tick, e.worldline_id, e.worldline_tick));
            for mut e in all {
                let t = e.worldline_tick.as_u64() as usize;
                if plan[t % plan.len()] {
                    let ch = warp_core::materialization::make_channel_id(&format!("verif/c07/{}", t % 2));
                    e.outputs = vec![(ch, vec![0xC7, t as u8, (t >> 8) as u8])];
                    ctx.hit("reach.history_entry_with_outputs");
                }
                rebuilt.append_local_commit(e).map_err(|e| Outcome::violation("harness:rebuild_append", format!("{e:?}")))?;
            }
            world.provenance = rebuilt;
            live_cps.clear();
        }
        let World { runtime, provenance: prov, live, .. } = &mut world;
        // ---- lanes and ground truth
        let mut oracle = Oracle { roots: Vec::new(), lanes: Vec::new(), seen: BTreeMap::new(), multi_path: false, warps };
        let mut total_ticks = 0u64;
        for (i, wl) in self.world.worldlines.iter().enumerate() {
            let lv: Vec<LiveTick> = live.get(&wl.id).cloned().unwrap_or_default();
            let len = lv.len() as u64;
            total_ticks += len;
            let plen = prov.len(wl_id(wl.id)).map_err(|e| Outcome::violation("harness:provenance_len", format!("{e:?}")))?;
            let outs: Vec<Vec<(warp_core::TypeId, Vec<u8>)>> = (0..plen).map(|t| prov.entry(wl_id(wl.id), wt(t)).map(|e| e.outputs).unwrap_or_default()).collect();
            if outs.windows(2).any(|w| !w[0].is_empty() && w[1].is_empty()) {
                ctx.hit("reach.silent_tick_after_emitting_tick");
            }
            if plen != len {
                return Err(Outcome::violation("harness:provenance_len_vs_live", format!("worldline {}: {plen} entries, {len} live ticks", wl.id)));
            }
            for (t, l) in lv.iter().enumerate() {
                let e = prov.entry(wl_id(wl.id), wt(t as u64)).map_err(|e| Outcome::violation("harness:provenance_entry", format!("{e:?}")))?;
                if e.expected.commit_hash != l.commit_hash || e.expected.state_root != l.state_root {
                    return Err(Outcome::violation("replay_vs_live:commit_id", format!("worldline {} provenance entry {t}: commit {} root {} live commit {} root {}", wl.id, hx(&e.expected.commit_hash), hx(&e.expected.state_root), hx(&l.commit_hash), hx(&l.state_root))));
                }
            }
            let (abs0, root0) = t0[i].clone();
            oracle.roots.push(Root { live: lv, abs0, root0, outputs: outs });
            oracle.lanes.push(Lane { wl: wl_id(wl.id), root: i, len, cps: live_cps.get(&wl.id).cloned().unwrap_or_default(), in_runtime: true, child: false });
        }
        ctx.count("time.ticks", total_ticks);
        let max_len = oracle.lanes.iter().map(|l| l.len).max().unwrap_or(0);
        for lane in 0..oracle.lanes.len() {
            oracle.check_checkpoint_index(prov, lane, "checkpoint_lookup_mismatch")?;
        }
        let mut run = Run { oracle, fresh, cursors: BTreeMap::new(), n_cursors: 0, ctx };

        // ---- triples over a checkpoint-free clone
        self.run_triples(&mut run, prov)?;

        // ---- op tape
        let mut n_children = 0usize;
        for (oi, op) in self.tape.iter().enumerate() {
            let n_lanes = run.oracle.lanes.len();
            match op {
                Op::NewCursor { slot, lane, pin, writer, base0_replayed } => {
                    run.new_cursor(prov, *slot, usize::from(*lane) % n_lanes, *pin, *writer, *base0_replayed)?;
                }
                Op::SetPin { slot, pin } => {
                    run.ensure_cursor(prov, *slot)?;
                    if let Some(c) = run.cursors.get_mut(slot) {
                        let len = run.oracle.lanes[c.lane].len;
                        // restricting below the current position is allowed by the field's contract, but then
                        // the cursor sits beyond its own pin; keep pin >= tick so "servable" stays well-defined
                        let p = resolve_pin(*pin, len).max(c.cursor.current_tick().as_u64());
                        c.cursor.pin_max_tick = wt(p);
                    }
                }
                Op::Seek { slot, to, base } => run.seek_like(prov, runtime, *slot, *base, None, *to, oi)?,
                Op::Step { slot, mode, base } => run.seek_like(prov, runtime, *slot, *base, Some(*mode), TickSel::Rel(0), oi)?,
                Op::Checkpoint { lane, at, src } => {
                    let (lane, t, state): (usize, u64, WorldlineState) = match src {
                        CpSrc::Cursor(slot) => {
                            run.ensure_cursor(prov, *slot)?;
                            let c = &run.cursors[slot];
                            (c.lane, c.cursor.current_tick().as_u64(), c.cursor.materialized_state().clone())
                        }
                        CpSrc::Replay(base) => {
                            let lane = usize::from(*lane) % n_lanes;
                            let owned = run.replayed_base(prov, lane, *base)?;
                            let l = &run.oracle.lanes[lane];
                            let t = u64::from(*at) % (l.len + 1);
                            let base_ref: &WorldlineState = match (base, owned.as_ref()) {
                                (BaseSel::Replayed(_), Some(s)) => s,
                                (BaseSel::Live, _) if l.in_runtime => runtime.worldlines().get(&l.wl).map_or(&run.fresh[l.root], |f| f.state()),
                                _ => &run.fresh[l.root],
                            };
                            let wl = l.wl;
                            let child = l.child;
                            let rec = Rec::new(prov);
                            let st = catch(|| replay_at(&rec, prov, wl, base_ref, t)).map_err(|p| Outcome::violation("cursor_panicked", format!("op#{oi} replay_worldline_state_at: {p}")))?;
                            let st = st.map_err(|e| Outcome::violation("seek_failed_on_servable_target", format!("op#{oi} replay_worldline_state_at(lane {lane}, {t}) base {base:?}: {e}")))?;
                            let label = format!("replay_at:{}:{}", rec.path(), if child { "child" } else { "root" });
                            run.oracle.check_state(run.ctx, lane, t, &st, &label, true)?;
                            (lane, t, st)
                        }
                    };
                    let wl = run.oracle.lanes[lane].wl;
                    let res = catch(|| prov.add_checkpoint(wl, ReplayCheckpoint::from_state(&state))).map_err(|p| Outcome::violation("cursor_panicked", format!("op#{oi} add_checkpoint: {p}")))?;
                    if let Err(e) = res {
                        return Err(Outcome::violation("checkpoint_rejected_valid", format!("op#{oi}: add_checkpoint(lane {lane}, from_state(replayed state at tick {t})) source {src:?}: {e:?}")));
                    }
                    run.ctx.trace_str(&format!("{oi}:checkpoint:{lane}:{t}"));
                    run.ctx.hit("reach.checkpoint_placed");
                    if run.cursors.values().any(|c| c.lane == lane && c.cursor.current_tick().as_u64() < t) {
                        run.ctx.hit("reach.checkpoint_placed_ahead_of_a_cursor");
                    }
                    run.oracle.lanes[lane].cps.insert(t);
                    run.oracle.check_checkpoint_index(prov, lane, "checkpoint_lookup_mismatch")?;
                }
                Op::Fork { lane, at, strand } => {
                    let src = usize::from(*lane) % n_lanes;
                    let (src_wl, src_len, src_root, src_in_rt) = {
                        let l = &run.oracle.lanes[src];
                        (l.wl, l.len, l.root, l.in_runtime)
                    };
                    // fork tick is an entry index: last included entry
                    let f = match at {
                        TickSel::Abs(r) if src_len > 0 => u64::from(*r) % src_len,
                        TickSel::Abs(_) => 0,
                        other => resolve_tick(*other, src_len, 0).saturating_sub(1).max(src_len),
                    };
                    let servable = f < src_len;
                    if servable && n_children >= MAX_CHILDREN {
                        continue;
                    }
                    let child_ix = 16 + n_children as u8;
                    let child_wl = wl_id(child_ix);
                    let via_strand = *strand && src_in_rt;
                    let res: Result<Result<(), String>, String> = if via_strand {
                        let posture = retention_posture()?;
                        let req = ForkStrandRequest {
                            strand_id: make_strand_id(&format!("verif/c07/s{child_ix}")),
                            source_lane_id: src_wl,
                            fork_tick: wt(f),
                            child_worldline_id: child_wl,
                            writer_heads: vec![WriterHead::with_routing(head_key(child_ix, 0), PlaybackMode::Play, InboxPolicy::AcceptAll, None, true)],
                            retention_posture: posture,
                        };
                        catch(|| runtime.fork_strand(prov, req).map(|_| ()).map_err(|e| format!("{e:?}")))
                    } else {
                        catch(|| prov.fork(src_wl, wt(f), child_wl).map_err(|e| format!("{e:?}")))
                    };
                    let res = res.map_err(|p| Outcome::violation("cursor_panicked", format!("op#{oi} fork: {p}")))?;
                    run.ctx.trace_str(&format!("{oi}:fork:{src}:{f}:{via_strand}:{}", res.is_ok()));
                    match res {
                        Err(e) => {
                            if servable {
                                return Err(Outcome::violation("fork_failed_on_servable_tick", format!("op#{oi}: fork of lane {src} (history {src_len}) at entry {f} via {}: {e}", if via_strand { "fork_strand" } else { "ProvenanceService::fork" })));
                            }
                            run.ctx.hit("reach.fork_past_end_typed_error");
                        }
                        Ok(()) => {
                            if !servable {
                                return Err(Outcome::violation("fork_past_end_accepted", format!("op#{oi}: fork of lane {src} (history {src_len}) at entry {f} succeeded")));
                            }
                            n_children += 1;
                            run.ctx.hit(if via_strand { "reach.fork_strand" } else { "reach.fork_provenance" });
                            let clen = prov.len(child_wl).map_err(|e| Outcome::violation("fork_prefix_differs:len", format!("{e:?}")))?;
                            if clen != f + 1 {
                                return Err(Outcome::violation("fork_prefix_differs:len", format!("op#{oi}: child of lane {src} forked at entry {f} has {clen} entries")));
                            }
                            for t in 0..clen {
                                let e = prov.entry(child_wl, wt(t)).map_err(|e| Outcome::violation("fork_prefix_differs:entry", format!("{e:?}")))?;
                                let l = &run.oracle.roots[src_root].live[t as usize];
                                if e.expected.commit_hash != l.commit_hash || e.expected.state_root != l.state_root || e.worldline_id != child_wl || e.worldline_tick.as_u64() != t {
                                    return Err(Outcome::violation("fork_prefix_differs:entry", format!("op#{oi}: child entry {t} commit {} root {} vs parent live commit {} root {}", hx(&e.expected.commit_hash), hx(&e.expected.state_root), hx(&l.commit_hash), hx(&l.state_root))));
                                }
                            }
                            let cps: BTreeSet<u64> = run.oracle.lanes[src].cps.range(..=f + 1).copied().collect();
                            if !cps.is_empty() {
                                run.ctx.hit("reach.fork_copied_checkpoints");
                            }
                            run.oracle.lanes.push(Lane { wl: child_wl, root: src_root, len: clen, cps, in_runtime: via_strand, child: true });
                            let child_lane = run.oracle.lanes.len() - 1;
                            run.oracle.check_checkpoint_index(prov, child_lane, "fork_checkpoints_mismatch")?;
                            // the parent's index is untouched
                            run.oracle.check_checkpoint_index(prov, src, "fork_checkpoints_mismatch")?;
                            if via_strand {
                                let Some(fr) = runtime.worldlines().get(&child_wl) else {
                                    return Err(Outcome::violation("fork_prefix_differs:frontier", format!("op#{oi}: fork_strand registered no child frontier")));
                                };
                                if fr.frontier_tick().as_u64() != clen {
                                    return Err(Outcome::violation("fork_prefix_differs:frontier", format!("op#{oi}: child frontier tick {} for {clen} entries", fr.frontier_tick().as_u64())));
                                }
                                let st = fr.state().clone();
                                run.oracle.check_state(run.ctx, child_lane, clen, &st, "fork_strand_frontier:child", true)?;
                                run.ctx.hit("reach.fork_replayed");
                            }
                        }
                    }
                }
                Op::ReplayAt { lane, to, base } => run.replay_op(prov, runtime, usize::from(*lane) % n_lanes, Some(*to), *base, oi)?,
                Op::ReplayFull { lane, base } => run.replay_op(prov, runtime, usize::from(*lane) % n_lanes, None, *base, oi)?,
            }
        }
        if max_len >= 2 && run.oracle.multi_path {
            let sig = serde_json::to_vec(self).unwrap_or_default();
            run.ctx.nontrivial(&sig);
        }
        Ok(())
    }

    fn run_triples(&self, run: &mut Run<'_>, prov: &ProvenanceService) -> Result<(), Outcome> {
        if self.triples.picks.is_empty() && !self.triples.exhaustive {
            return Ok(());
        }
        let Some(lane) = self.world.worldlines.iter().position(|w| w.id == self.triples.wl) else { return Ok(()) };
        let (wl, len) = (run.oracle.lanes[lane].wl, run.oracle.lanes[lane].len);
        if len > 5 || !run.oracle.lanes[lane].cps.is_empty() {
            return Ok(());
        }
        let n = len + 1;
        // reference states from the checkpoint-free service (U0 replay), themselves checked
        let mut states = Vec::new();
        for t in 0..n {
            let st = catch(|| prov.replay_worldline_state_at(wl, &run.fresh[lane], wt(t))).map_err(|p| Outcome::violation("cursor_panicked", format!("triples: replay_worldline_state_at({t}): {p}")))?;
            let st = st.map_err(|e| Outcome::violation("seek_failed_on_servable_target", format!("triples: replay_worldline_state_at({t}) on a {len}-tick history: {e:?}")))?;
            run.oracle.check_state(run.ctx, lane, t, &st, "replay_at:u0:root", true)?;
            states.push(st);
        }
        let exhaustive_limit = if run.ctx.tier == Tier::Thorough { 5 } else { 3 };
        let mut by_mask: BTreeMap<u64, BTreeSet<(u64, u64)>> = BTreeMap::new();
        if self.triples.exhaustive && len <= exhaustive_limit {
            for mask in 0..(1u64 << n) {
                let e = by_mask.entry(mask).or_default();
                for s in 0..n {
                    for t in 0..n {
                        e.insert((s, t));
                    }
                }
            }
            run.ctx.hit("reach.triple_space_exhausted");
        } else {
            for p in &self.triples.picks {
                let p = u64::from(*p);
                let mask = (p % 64) & ((1u64 << n) - 1);
                by_mask.entry(mask).or_default().insert(((p / 64) % 6 % n, (p / 384) % 6 % n));
            }
        }
        let mut cid = 0u16;
        for (mask, pairs) in &by_mask {
            let mut p = prov.clone();
            let cps: BTreeSet<u64> = (0..n).filter(|t| mask & (1 << t) != 0).collect();
            for t in &cps {
                let res = catch(|| p.add_checkpoint(wl, ReplayCheckpoint::from_state(&states[*t as usize]))).map_err(|e| Outcome::violation("cursor_panicked", format!("triples: add_checkpoint: {e}")))?;
                if let Err(e) = res {
                    return Err(Outcome::violation("checkpoint_rejected_valid", format!("triples: add_checkpoint(from_state(U0 replay at tick {t})) on a {len}-tick history: {e:?}")));
                }
            }
            for (start, target) in pairs {
                cid = cid.wrapping_add(1);
                let mut id = [0u8; 32];
                id[0] = 0x7C;
                id[1..3].copy_from_slice(&cid.to_le_bytes());
                let base = &run.fresh[lane];
                let warp = base.root().warp_id;
                let mut cursor = catch(|| PlaybackCursor::new(CursorId(id), wl, warp, CursorRole::Reader, base, wt(len))).map_err(|e| Outcome::violation("cursor_panicked", format!("triples: PlaybackCursor::new: {e}")))?;
                for (leg, to) in [("start", *start), ("target", *target)] {
                    let before = cursor.current_tick().as_u64();
                    let rec = Rec::new(&p);
                    let who = format!("triple (start {start}, target {target}, checkpoints {cps:?}) on a {len}-tick history, {leg} leg {before}->{to}");
                    let res = catch(|| cursor.seek_to(wt(to), &rec, base)).map_err(|e| Outcome::violation("cursor_panicked", format!("{who}: {e}")))?;
                    run.ctx.count("time.cursor_ops", 1);
                    if let Err(e) = res {
                        return Err(Outcome::violation("seek_failed_on_servable_target", format!("{who}: {e:?}")));
                    }
                    if cursor.current_tick().as_u64() != to {
                        return Err(Outcome::violation("cursor_tick_mismatch", format!("{who}: cursor reports {}", cursor.current_tick().as_u64())));
                    }
                    let path = rec.path();
                    if to > before {
                        run.ctx.hit("reach.seek_forward");
                        if cps.range(before + 1..to).next().is_some() {
                            run.ctx.hit("reach.checkpoint_between_cursor_and_target");
                        }
                        if cps.contains(&to) {
                            run.ctx.hit("reach.checkpoint_at_target");
                        }
                        if path == "cp" {
                            run.ctx.hit("reach.forward_seek_restored_from_checkpoint");
                        }
                    } else if to < before {
                        run.ctx.hit("reach.seek_backward");
                    } else {
                        run.ctx.hit("reach.seek_same_tick");
                    }
                    match path {
                        "cp" => run.ctx.hit("reach.restored_from_checkpoint"),
                        "u0" => run.ctx.hit("reach.restored_from_u0"),
                        "fwd" => run.ctx.hit("reach.forward_advance"),
                        _ => {}
                    }
                    let croot = cursor.current_state_root();
                    if Some(croot) != run.oracle.expected_root(lane, to) {
                        return Err(Outcome::violation("replay_vs_live:state_root", format!("{who}: current_state_root() {}", hx(&croot))));
                    }
                    let label = format!("cursor:{path}:root");
                    run.oracle.check_state(run.ctx, lane, to, cursor.materialized_state(), &label, true).map_err(|o| match o {
                        Outcome::Violation { class, detail } => Outcome::Violation { class, detail: format!("{who}\n{detail}") },
                        o => o,
                    })?;
                }
                run.ctx.count("time.triples", 1);
                run.ctx.trace_str(&format!("triple:{mask}:{start}:{target}:{}", hx(&cursor.current_state_root())));
            }
        }
        Ok(())
    }
}
