//! C01 — a tick's outcome depends on the candidate set, never on arrival order.
//!
//! Scheduled party: the *clients* that enqueue candidates (arrival order, duplicate deliveries,
//! a second interleaved transaction). Oracle: K-way bit equality + independent reference tick model.

use serde::{Deserialize, Serialize};

use crate::kernel::{Outcome, PropertySpec, Rng, RunCtx, Scenario, Tier};
use crate::world::gen::{gen_prog, gen_state, ProgKnobs, StateSpec};
use crate::world::ids;
use crate::world::prog::{Decl, Prog, Step, Val, N};
use crate::world::rules::N_RULES;
use crate::world::tick::{ref_tick, run_tick, Cand, CommitObs, EngineCfg, RefTick, TickObs, TickResult};

pub const SPEC: PropertySpec = PropertySpec {
    id: "C01",
    level: "exploration",
    rule: "scenario = generated multi-instance pre-state + honest data-driven programs on crafted scope nodes + candidate set + K arrival schedules (permutations with 1-3 duplicate deliveries, sorted, reversed) + engine config (scheduler kind, workers, rule registration order, optional second interleaved transaction); 1 in 8 runs crosses the 1024-candidate sort threshold; non-trivial = >=2 matched candidates and (>=1 rejected or >=1 duplicate delivery); distinct = hash of (state, candidate set)",
    quick_runs: 6_000,
    thorough_runs: 600_000,
    real_components: &["Engine (apply_in_warp, commit_with_receipt)", "RadixScheduler / LegacyScheduler", "parallel executor + merge", "tick_patch diff/apply", "snapshot hashing", "footprint guard (enforcement on)"],
    stub_components: &["application rules: one data-driven interpreter rule per rule id (programs are generated data)"],
    assumptions: &["reference tick model (canonical order, greedy independent set, interpretation against the pre-state, canonical op merge and application) is written from the specs", "compact rule id order cannot influence canonical order because scope hashes already bind the rule id"],
    fault_kinds: &["fault.duplicate_delivery", "fault.interleaved_foreign_tx", "fault.stale_or_mismatched_candidate"],
};

#[derive(Clone, Debug, Serialize, Deserialize)]
pub struct C01 {
    pub state: StateSpec,
    pub cands: Vec<Cand>,
    pub arrivals: Vec<Vec<usize>>,
    pub cfgs: Vec<EngineCfg>,
}

pub fn knobs(rng: &mut Rng, avoid: bool) -> ProgKnobs {
    ProgKnobs {
        node_pool: *rng.pick(&[2u8, 3, 4, 6, 8]),
        edge_pool: *rng.pick(&[2u8, 3, 5, 8]),
        max_steps: *rng.pick(&[1usize, 2, 3, 5]),
        avoid_reparent_attached: avoid,
        absent_16: *rng.pick(&[0u64, 0, 0, 1, 2]),
        double_write: false,
    }
}

/// Shared by C01/C02/C14: generate state, programs and candidate set.
pub fn gen_tick(rng: &mut Rng, avoid: bool, big: bool, n_small: usize) -> (StateSpec, Vec<Cand>) {
    let mut kn = knobs(rng, avoid);
    kn.double_write = rng.chance(1, 8);
    if kn.double_write {
        kn.node_pool = kn.node_pool.min(3);
        kn.max_steps = kn.max_steps.max(3);
    }
    let mut state = gen_state(rng, kn.node_pool.max(3));
    let mut cands = Vec::new();
    let n_inst = state.insts.len();
    let shard_pool = *rng.pick(&[1u8, 2, 3, 4]);
    let shard_mode = rng.weighted(&[4, 2, 1]);
    let mut nonce = 1u32;
    for k in 0..n_small {
        let wi = rng.usize_below(n_inst);
        let rule = rng.below(u64::from(N_RULES)) as u8;
        // Shard ids cover the whole 0..=255 range: low shards (dense), the top of the range (the
        // last partial round of any static round-robin ownership) or anywhere.
        let shard = match shard_mode {
            0 => rng.below(u64::from(shard_pool)) as u8,
            1 => 255 - rng.below(u64::from(shard_pool) * 4) as u8,
            _ => rng.below(256) as u8,
        };
        let templ = if rng.chance(1, 12) { crate::world::gen::gen_repoint_delete(rng, &state, wi, rule, nonce) } else { None };
        let prog = templ.unwrap_or_else(|| gen_prog(rng, &state, wi, rule, nonce, &kn));
        nonce += 1;
        let w = state.insts[wi].w;
        state.insts[wi].progs.push((k as u16, shard, prog));
        cands.push(Cand { rule, w, k: k as u16, shard });
        // occasionally a second rule is applied at the same scope (does not match: program is for `rule`)
        if rng.chance(1, 10) {
            cands.push(Cand { rule: (rule + 1) % N_RULES, w, k: k as u16, shard });
        }
    }
    // stale candidate: scope node that does not exist
    if rng.chance(1, 6) {
        cands.push(Cand { rule: 0, w: 0, k: 60_000, shard: 0 });
    }
    if big {
        let count = *rng.pick(&[900u16, 1015, 1024, 1025, 1100, 2000, 3000, 4096, 4500]);
        let m = *rng.pick(&[1u8, 4, 16, 200]);
        state.insts[0].filler = Some((1000, count, m));
        for k in 1000..1000 + count {
            cands.push(Cand { rule: 0, w: 0, k, shard: (k % u16::from(m)) as u8 });
        }
        // Adversarial keys on the engine path: scope hashes are BLAKE3 outputs, so search the scope-id
        // space for two candidates whose scope hashes share the longest prefix (a birthday search over
        // ~130k ids finds 3-4 equal leading bytes) and give them conflicting programs, so that any sort
        // that does not realise the full byte order shows up in the receipt and in the conflict winner.
        if rng.chance(3, 4) {
            let rid = crate::world::rules::rule_id(0);
            let mut hs: Vec<([u8; 32], u16, u8)> = Vec::with_capacity(131_072);
            let base = rng.below(4) as u16 * 16_384;
            for k in base..base.saturating_add(16_384) {
                if (1000..1000 + count).contains(&k) || k < 64 {
                    continue;
                }
                for shard in 0..8u8 {
                    let key = warp_core::NodeKey { warp_id: ids::warp(0), local_id: ids::pnode(k, shard) };
                    hs.push((warp_core::scope_hash(&rid, &key), k, shard));
                }
            }
            hs.sort();
            let mut best = (0usize, 0usize);
            for i in 0..hs.len().saturating_sub(1) {
                let l = hs[i].0.iter().zip(hs[i + 1].0.iter()).take_while(|(a, b)| a == b).count();
                if l > best.0 && hs[i].1 != hs[i + 1].1 {
                    best = (l, i);
                }
            }
            if best.0 >= 2 {
                for (j, (_, k, shard)) in [hs[best.1], hs[best.1 + 1]].iter().enumerate() {
                    let prog = Prog {
                        rule: 0,
                        nonce: 0x7000_0000 + j as u32,
                        steps: vec![Step::UpsertNode { n: N::D(7), ty: j as u8 }, Step::SetNodeAtt { n: N::D(7), val: Some(Val { ty: 0, bytes: vec![b'x', j as u8] }) }],
                        decl: Decl::Honest,
                    };
                    state.insts[0].progs.push((*k, *shard, prog));
                    cands.push(Cand { rule: 0, w: 0, k: *k, shard: *shard });
                }
            }
        }
    }
    (state, cands)
}

pub fn gen_arrivals(rng: &mut Rng, n: usize, k: usize) -> Vec<Vec<usize>> {
    let id: Vec<usize> = (0..n).collect();
    let mut out = vec![id.clone()];
    let mut rev = id.clone();
    rev.reverse();
    out.push(rev);
    while out.len() < k {
        let mut p = id.clone();
        rng.shuffle(&mut p);
        // duplicate deliveries: each candidate enqueued 1-3 times
        let extra = if n > 0 { rng.urange(0, n.min(12)) } else { 0 };
        for _ in 0..extra {
            let c = p[rng.usize_below(p.len())];
            let pos = rng.urange(0, p.len());
            p.insert(pos, c);
        }
        out.push(p);
    }
    out
}

pub fn gen_cfg(rng: &mut Rng, n_cands: usize) -> EngineCfg {
    let mut order: Vec<u8> = (0..N_RULES).collect();
    rng.shuffle(&mut order);
    let other_tx = if rng.chance(1, 4) && n_cands > 0 {
        (0..rng.urange(1, 6)).map(|_| rng.usize_below(n_cands)).collect()
    } else {
        vec![]
    };
    EngineCfg {
        legacy_scheduler: rng.chance(1, 4),
        workers: *rng.pick(&[1usize, 1, 2, 4]),
        rule_order: order,
        other_tx,
    }
}

impl Scenario for C01 {
    fn generate(rng: &mut Rng, tier: Tier, avoid: bool) -> Self {
        let big = rng.chance(1, if tier == Tier::Thorough { 6 } else { 8 });
        let n_small = if big { rng.urange(2, 8) } else { rng.weighted(&[1, 2, 3, 4, 4, 4, 3, 3, 2, 2, 2, 1, 1, 1, 1, 1, 1, 1, 1, 1, 1, 1, 1, 1, 1]) };
        let (state, cands) = gen_tick(rng, avoid, big, n_small);
        let k = if big { 3 } else { rng.urange(4, 8) };
        let arrivals = gen_arrivals(rng, cands.len(), k);
        let cfgs = arrivals.iter().map(|_| gen_cfg(rng, cands.len())).collect();
        C01 { state, cands, arrivals, cfgs }
    }

    fn execute(&self, ctx: &mut RunCtx) -> Outcome {
        let pre = match self.state.build_ref() {
            Ok(p) => p,
            Err(e) => return Outcome::violation("harness:ref_state_build", e),
        };
        let reference = ref_tick(&pre, &self.cands);
        let mut first: Option<TickObs> = None;
        for (ai, arrival) in self.arrivals.iter().enumerate() {
            let cfg = self.cfgs.get(ai).cloned().unwrap_or_default();
            if !cfg.other_tx.is_empty() {
                ctx.hit("fault.interleaved_foreign_tx");
            }
            let dups = arrival.len().saturating_sub(self.cands.len());
            ctx.count("fault.duplicate_delivery", dups as u64);
            let tape: [u16; 4] = [0, 1, 2, 3];
            let obs = match run_tick(&self.state, &self.cands, arrival, &cfg, if cfg.workers > 1 { Some(&tape) } else { None }) {
                Ok(o) => o,
                Err(e) => return Outcome::violation("state_construction_failed", e),
            };
            if ai == 0 {
                if let Err(v) = check_against_reference(&pre, &reference, &obs, ctx) {
                    return v;
                }
            }
            if let Some(f) = &first {
                if let Err(v) = compare_obs(f, &obs, ai) {
                    return v;
                }
            }
            if let TickResult::Committed(c) = &obs.result {
                ctx.trace(&c.hash);
            }
            if first.is_none() {
                first = Some(obs);
            }
        }
        ctx.count("time.ticks", self.arrivals.len() as u64);
        let matched = reference.order.len();
        let rejected = reference.accepted.iter().filter(|a| !**a).count();
        ctx.count("reach.rejected_candidates", rejected as u64);
        if matched > 1024 {
            ctx.hit("reach.batch_above_1024");
        }
        if self.state.insts.len() > 1 {
            ctx.hit("reach.multi_instance");
        }
        if reference.post.is_err() {
            ctx.hit("reach.reference_expects_commit_error");
        }
        let any_dups = self.arrivals.iter().any(|a| a.len() > self.cands.len());
        if matched >= 2 && (rejected >= 1 || any_dups) {
            let sig = serde_json::to_vec(&(&self.state, &self.cands)).unwrap_or_default();
            ctx.nontrivial(&sig);
        }
        Outcome::Ok
    }

    fn shrink_candidates(&self) -> Vec<Self> {
        let mut out = Vec::new();
        // drop the filler block
        if self.state.insts[0].filler.is_some() {
            let mut s = self.clone();
            s.state.insts[0].filler = None;
            s.cands.retain(|c| c.k < 1000 || c.k == 60_000);
            let n = s.cands.len();
            for a in &mut s.arrivals {
                a.retain(|i| *i < n);
            }
            out.push(s);
        }
        // keep only two arrivals
        if self.arrivals.len() > 2 {
            for i in 1..self.arrivals.len() {
                let mut s = self.clone();
                s.arrivals = vec![self.arrivals[0].clone(), self.arrivals[i].clone()];
                s.cfgs = vec![self.cfgs[0].clone(), self.cfgs[i].clone()];
                out.push(s);
            }
        }
        // drop a candidate
        for ci in 0..self.cands.len().min(40) {
            let mut s = self.clone();
            s.cands.remove(ci);
            for a in &mut s.arrivals {
                a.retain(|i| *i != ci);
                for x in a.iter_mut() {
                    if *x > ci {
                        *x -= 1;
                    }
                }
            }
            for c in &mut s.cfgs {
                c.other_tx.clear();
            }
            out.push(s);
        }
        // drop a program step
        for (ii, inst) in self.state.insts.iter().enumerate() {
            for (pi, (_, _, p)) in inst.progs.iter().enumerate() {
                if p.steps.len() > 1 {
                    for si in 0..p.steps.len() {
                        let mut s = self.clone();
                        s.state.insts[ii].progs[pi].2.steps.remove(si);
                        out.push(s);
                    }
                }
            }
        }
        // simplify configs
        for i in 0..self.cfgs.len() {
            if self.cfgs[i] != EngineCfg::default() {
                let mut s = self.clone();
                s.cfgs[i] = EngineCfg::default();
                out.push(s);
            }
        }
        // drop state content
        for ii in 0..self.state.insts.len() {
            for f in 0..4 {
                let mut s = self.clone();
                let inst = &mut s.state.insts[ii];
                let ok = match f {
                    0 => inst.edge_atts.pop().is_some(),
                    1 => inst.node_atts.pop().is_some(),
                    2 => false,
                    _ => false,
                };
                if ok {
                    out.push(s);
                }
            }
        }
        // drop last instance if unused
        if self.state.insts.len() > 1 {
            let last = self.state.insts.len() - 1;
            let w = self.state.insts[last].w;
            if !self.cands.iter().any(|c| c.w == w) && !self.state.insts.iter().any(|i| matches!(&i.portal, Some(crate::world::gen::PortalSpec::OnNode{pw,..}) | Some(crate::world::gen::PortalSpec::OnEdge{pw,..}) if *pw == w)) {
                let mut s = self.clone();
                s.state.insts.pop();
                out.push(s);
            }
        }
        out
    }
}

pub fn compare_commit(a: &CommitObs, b: &CommitObs, label: &str) -> Result<(), Outcome> {
    macro_rules! eqf {
        ($f:ident, $c:expr) => {
            if a.$f != b.$f {
                return Err(Outcome::violation(format!("order_dependent:{}", $c), format!("{label}: {} differs: {:?} vs {:?}", $c, a.$f, b.$f)));
            }
        };
    }
    eqf!(receipt, "receipt");
    eqf!(patch_ops, "patch_ops");
    eqf!(patch_in, "patch_in_slots");
    eqf!(patch_out, "patch_out_slots");
    eqf!(patch_digest, "patch_digest");
    eqf!(state_root, "state_root");
    eqf!(plan_digest, "plan_digest");
    eqf!(decision_digest, "decision_digest");
    eqf!(rewrites_digest, "rewrites_digest");
    eqf!(parents, "parents");
    eqf!(policy_id, "policy_id");
    eqf!(hash, "commit_id");
    Ok(())
}

pub fn compare_obs(first: &TickObs, obs: &TickObs, ai: usize) -> Result<(), Outcome> {
    let label = format!("arrival#{ai} vs arrival#0");
    match (&first.result, &obs.result) {
        (TickResult::ValidatorDisagreement(_), _) | (_, TickResult::ValidatorDisagreement(_)) => return Ok(()),
        (TickResult::Committed(a), TickResult::Committed(b)) => compare_commit(a, b, &label)?,
        (TickResult::EngineErr(_), TickResult::EngineErr(_)) => {}
        (a, b) => {
            if std::mem::discriminant(a) != std::mem::discriminant(b) {
                return Err(Outcome::violation("order_dependent:result_kind", format!("{label}: {a:?} vs {b:?}")));
            }
        }
    }
    if matches!(first.result, TickResult::Committed(_)) && first.post != obs.post {
        return Err(Outcome::violation("order_dependent:post_state", format!("{label}: post-states differ")));
    }
    Ok(())
}

/// The reference-model half of the oracle (also used by C02/C03/C14 on their runs).
pub fn check_against_reference(pre: &crate::model::refstate::RefState, reference: &RefTick, obs: &TickObs, ctx: &mut RunCtx) -> Result<(), Outcome> {
    match &obs.result {
        TickResult::Committed(c) => {
            // receipt: canonical order, dispositions, exact blockers
            let exp_entries: Vec<_> = reference
                .order
                .iter()
                .zip(&reference.accepted)
                .map(|(c, a)| (c.rule_id, c.scope_hash, (c.cand.key().warp_id.0, c.cand.key().local_id.0), *a))
                .collect();
            if c.receipt.entries != exp_entries {
                let got: Vec<_> = c.receipt.entries.iter().map(|e| (hex::encode(&e.1[..4]), e.3)).collect();
                let exp: Vec<_> = exp_entries.iter().map(|e| (hex::encode(&e.1[..4]), e.3)).collect();
                let class = if got.iter().map(|g| &g.0).collect::<Vec<_>>() != exp.iter().map(|g| &g.0).collect::<Vec<_>>() {
                    "reference_mismatch:canonical_order"
                } else {
                    "reference_mismatch:admission"
                };
                return Err(Outcome::violation(class, format!("receipt entries (scope hash prefix, applied): engine {got:?} reference {exp:?}")));
            }
            if c.receipt.blocked_by != reference.blockers {
                return Err(Outcome::violation("reference_mismatch:blockers", format!("engine {:?} reference {:?}", c.receipt.blocked_by, reference.blockers)));
            }
            // independent second implementation of the state root (columnar accumulator, hook H4)
            if let Some(engine) = obs.engine.as_ref() {
                let acc = warp_core::verif::accumulator_state_root(engine.state(), &engine.root_key());
                if acc != c.state_root {
                    return Err(Outcome::violation("committed_state_root_disagrees_with_accumulator", format!("snapshot {} accumulator {}", hex::encode(c.state_root), hex::encode(acc))));
                }
            }
            match &reference.post {
                Ok(post) => {
                    if obs.post != *post {
                        return Err(Outcome::violation("reference_mismatch:post_state", diff_states(post, &obs.post)));
                    }
                }
                Err(e) => {
                    return Err(Outcome::violation("commit_ok_but_reference_cannot_apply", format!("reference: {e}; engine committed")));
                }
            }
            Ok(())
        }
        TickResult::EngineErr(e) => match &reference.post {
            Ok(_) => Err(Outcome::violation("commit_err_but_reference_applies", format!("engine: {e}"))),
            Err(_) => {
                ctx.hit("reach.tick_refused_as_reference_predicts");
                Ok(())
            }
        },
        TickResult::Violation { kind, .. } => Err(Outcome::violation("honest_program_flagged", format!("footprint violation on honest programs: {kind}"))),
        TickResult::Panic(p) => {
            let _ = pre;
            Err(Outcome::violation("commit_panicked", p.clone()))
        }
        TickResult::ValidatorDisagreement(_) => {
            // monitor, not oracle: the in-crate validator may be stricter than the property
            ctx.hit("reach.incrate_validator_disagreement");
            Ok(())
        }
    }
}

pub fn diff_states(exp: &crate::model::refstate::RefState, got: &crate::model::refstate::RefState) -> String {
    let mut out = String::new();
    for (w, e) in &exp.inst {
        match got.inst.get(w) {
            None => out.push_str(&format!("instance {:02x} missing in engine state\n", w[0])),
            Some(g) => {
                if e.nodes != g.nodes {
                    out.push_str(&format!("W{:02x} nodes differ: ref {} vs engine {}\n", w[0], e.nodes.len(), g.nodes.len()));
                }
                if e.edges != g.edges {
                    out.push_str(&format!("W{:02x} edges differ: ref {:?} vs engine {:?}\n", w[0], short_edges(&e.edges), short_edges(&g.edges)));
                }
                if e.node_att != g.node_att {
                    for (k, v) in &e.node_att {
                        if g.node_att.get(k) != Some(v) {
                            out.push_str(&format!("W{:02x} node_att[{}] ref {:?} engine {:?}\n", w[0], hex::encode(&k[..10]), short(v), g.node_att.get(k).map(short)));
                        }
                    }
                    for k in g.node_att.keys() {
                        if !e.node_att.contains_key(k) {
                            out.push_str(&format!("W{:02x} node_att[{}] only in engine\n", w[0], hex::encode(&k[..10])));
                        }
                    }
                }
                if e.edge_att != g.edge_att {
                    out.push_str(&format!("W{:02x} edge_att differ: ref keys {:?} engine keys {:?}\n", w[0], e.edge_att.keys().map(|k| k[1]).collect::<Vec<_>>(), g.edge_att.keys().map(|k| k[1]).collect::<Vec<_>>()));
                }
                if e.root != g.root || e.parent != g.parent {
                    out.push_str("instance metadata differs\n");
                }
            }
        }
    }
    for w in got.inst.keys() {
        if !exp.inst.contains_key(w) {
            out.push_str(&format!("instance {:02x} only in engine state\n", w[0]));
        }
    }
    out
}

fn short(v: &crate::model::refstate::RefAtt) -> String {
    match v {
        crate::model::refstate::RefAtt::Atom { ty, bytes } => format!("atom({:02x},{} bytes {})", ty[0], bytes.len(), hex::encode(&bytes[..bytes.len().min(8)])),
        crate::model::refstate::RefAtt::Descend(w) => format!("descend({:02x})", w[0]),
    }
}

fn short_edges(m: &std::collections::BTreeMap<[u8; 32], ([u8; 32], [u8; 32], [u8; 32])>) -> Vec<(u8, String, String)> {
    m.iter().map(|(k, (f, t, _))| (k[1], hex::encode(&f[8..10]), hex::encode(&t[8..10]))).collect()
}
