//! C08 — ingress is content-addressed, idempotent and order-free.
//!
//! The network-shaped property. Clients hold a multiset of intents (kind, program bytes, cited
//! causal parents, target = default writer / named inbox / exact head). A scenario fixes an *epoch
//! partition* (which intents are first submitted between which scheduler passes — tick membership
//! is a causality boundary per `canonical-inbox-sequencing.md`) and K delivery schedules that
//! respect it: any order inside an epoch, 0–3 retries of each envelope in its own or any later
//! epoch (while pending, after the commit, after a clean restart), eligibility changes at a
//! schedule-chosen point between two passes. Every schedule runs on a fresh world.
//!
//! Oracle: (a) K-way equality inside a family of schedules with the same implied partition
//! (pending sets per head before/after every pass, step records, provenance entries incl. tick
//! receipts, final runtime / provenance / engine fingerprints minus arrival metadata);
//! (b) the reference inbox model step by step (ingress id from the documented formula, pending =
//! set per resolved head, batch = lowest ids up to the budget, first delivery Accepted, every
//! retry Duplicate with the same submission id, rejections typed and without effect);
//! (c) at-most-once per (head, ingress id) over the whole retained history; (d) identity.

mod exec;
mod gen;
mod graph_inbox;
mod ident;
mod inbox;

use std::collections::BTreeSet;

use serde::{Deserialize, Serialize};

use crate::kernel::{Outcome, PropertySpec, Rng, RunCtx, Scenario, Tier};
use crate::world::runtime::{TargetSpec, WorldSpec};
use exec::{implied_partition, PassOut, Runner, Trace};
use ident::CIntent;

pub const SPEC: PropertySpec = PropertySpec {
    id: "C08",
    level: "exploration",
    rule: "scenario = world (1-3 worldlines x 1-4 heads; AcceptAll / KindFilter / Budgeted{0..3}; default, named and exact routing) + intent multiset (2-14; deliberate exact duplicates, same content through another route or to another worldline, same bytes with other kind / other cited parent set) + epoch partition (1-4 member epochs + 0-2 drain epochs, one scheduler pass each) + 3-9 delivery schedules (per epoch any order, 0-3 retries per envelope in its own or a later epoch, eligibility change at a schedule-chosen point, optional clean restarts after chosen epochs in ticketed mode, optional no-restart twin, optional schedules of a different partition); first-delivery orders of epochs with <=6 members are drawn without replacement across schedules; non-trivial = >=2 intents first delivered in one epoch and >=2 distinct schedules in the family; distinct = hash of (world, intents, partition)",
    quick_runs: 16_000,
    thorough_runs: 250_000,
    real_components: &[
        "IngressEnvelope::local_intent_with_causal_parents / compute_ingress_id",
        "WorldlineRuntime::ingest, submit_intent, ingest_ticketed_invocation, resolve_target, set_head_eligibility",
        "Engine::ingest_intent, dispatch_next_intent, pending_intent_count, inbox::ack_pending_rule (graph inbox `sim/inbox`, 1 run in 4)",
        "HeadInbox ingest/admit with AcceptAll, KindFilter, Budgeted policies; HeadInbox::set_policy between admissions (standalone inbox surface)",
        "SchedulerCoordinator::super_tick, Engine::commit_with_state (event materialisation), WorldlineState::committed_ingress",
        "ProvenanceService (entries, tick receipts)",
        "restart: witnessed_submission_persistence_snapshot, restore_witnessed_submission_persistence, restore_causal_runtime_history on a freshly built runtime / provenance service / engine",
    ],
    stub_components: &[
        "application rules: data-driven interpreter, honest programs only",
        "restart persistence medium: the harness carries the persisted material (submission snapshot, provenance entries, receipt correlations) in memory and plays the runtime owner that re-stages undecided submissions; TrustedRuntimeHost and its WAL are not involved (C10 covers them)",
        "admission tickets: plain OpticAdmissionTicket values with a digest derived from (head, ingress id)",
    ],
    assumptions: &[
        "excluded from K-way equality as Echo-owned arrival metadata: the per-record `submission_generation` inside `witnessed_submissions` (coordinator.rs: 'audit metadata for accepted ingress history. It is not scheduler order'); `next_submission_generation` itself IS compared (same number of accepted submissions)",
        "excluded: the `target` of retained / pending envelopes (`witnessed_submission_envelopes`, `heads[..].inbox.pending`): two route aliases resolving to one head have one ingress id and the first arrival's alias is kept; the spec calls transport metadata 'not identity'; everything else in those fields is compared",
        "restart exists only for the ticketed path (submit_intent + ingest_ticketed_invocation): plain `ingest` has no receipt correlation and `committed_ingress` is documented as not persisted across restarts for it; head eligibility is host configuration and is re-applied by the harness; pending inbox contents are re-staged by the harness from the persisted submissions (restore does not enter inboxes by design)",
        "a no-restart twin is compared with its restarting family only on pending sets and on (head, admitted count, worldline tick, state root, commit hash): the global tick is restored from the last commit, so empty passes before a restart are not counted again",
        "schedules whose implied partition differs (delay across an epoch boundary) are checked against the reference model only, and against each other if they form a family of their own",
        "a scheduler pass that fails must fail identically in every schedule of the family; comparison stops there",
        "inbox policies cannot be changed on a registered head through the public API (the registry's mutable access is crate-private), so policy changes between admissions are simulated on a standalone HeadInbox (the object a head owns) with its own reference model, not inside the runtime schedules",
    ],
    fault_kinds: &["fault.retry_while_pending", "fault.retry_after_commit", "fault.retry_after_restart", "fault.reordered_delivery", "fault.delayed_across_epoch", "fault.clean_restart"],
};

#[derive(Clone, Copy, Debug, Serialize, Deserialize, PartialEq, Eq)]
pub enum Mode {
    /// `WorldlineRuntime::ingest`
    Plain,
    /// `submit_intent` followed by the runtime owner's `ingest_ticketed_invocation`
    Ticketed,
}

#[derive(Clone, Debug, Serialize, Deserialize, PartialEq, Eq)]
pub enum Op {
    Deliver(usize),
    /// ticketed mode only: a retry through plain `WorldlineRuntime::ingest` (clients mixing the two
    /// intake APIs); falls back to `Deliver` when the reference says this would be a first delivery
    DeliverPlain(usize),
    /// apply this epoch's eligibility changes here (default: after the epoch's deliveries)
    Elig,
}

#[derive(Clone, Debug, Serialize, Deserialize, PartialEq, Eq)]
pub struct EligChange {
    pub wl: u8,
    pub head: u8,
    pub admitted: bool,
}

#[derive(Clone, Debug, Serialize, Deserialize, PartialEq, Eq)]
pub struct Schedule {
    /// skip the scenario's restarts (twin used to show that a restart is invisible to commits)
    pub no_restart: bool,
    /// after a restart re-stage undecided submissions in reverse arrival order
    pub restage_rev: bool,
    /// ticketed mode: the runtime owner stages an epoch's witnessed submissions only after the
    /// epoch's last delivery (newest first) instead of right after each submission
    #[serde(default)]
    pub defer_staging: bool,
    pub epochs: Vec<Vec<Op>>,
}

#[derive(Clone, Debug, Serialize, Deserialize)]
pub struct C08 {
    pub world: WorldSpec,
    pub mode: Mode,
    pub intents: Vec<CIntent>,
    /// identity-only variants (never delivered)
    pub probes: Vec<CIntent>,
    /// parent citation order (+ duplicates) per intent, then per probe
    pub perms: Vec<Vec<usize>>,
    pub n_epochs: usize,
    pub elig: Vec<Vec<EligChange>>,
    /// restart after the pass of epoch e (ticketed mode only)
    pub restarts: Vec<bool>,
    pub schedules: Vec<Schedule>,
    /// standalone head-inbox tape with policy changes between admissions
    #[serde(default)]
    pub inbox_tape: inbox::InboxTape,
    /// legacy graph inbox (`Engine::ingest_intent` / `dispatch_next_intent`) tape
    #[serde(default)]
    pub graph_inbox: graph_inbox::GraphInboxTape,
}

fn short(ids: &[[u8; 32]]) -> Vec<String> {
    ids.iter().map(|i| hex::encode(&i[..4])).collect()
}

/// Strict K-way comparison of two schedules of one family.
fn compare_strict(a: &Trace, b: &Trace, ia: usize, ib: usize, ctx: &mut RunCtx) -> Outcome {
    let who = format!("schedules {ia} and {ib} (same epoch partition)");
    if a.failed_at != b.failed_at {
        return Outcome::violation("order_dependent:pass_failure", format!("{who}: first failing pass {:?} vs {:?}", a.failed_at, b.failed_at));
    }
    for (e, (x, y)) in a.epochs.iter().zip(&b.epochs).enumerate() {
        if x.pending_pre != y.pending_pre {
            let h = (0..x.pending_pre.len()).find(|h| x.pending_pre[*h] != y.pending_pre.get(*h).cloned().unwrap_or_default()).unwrap_or(0);
            return Outcome::violation("order_dependent:pending_set", format!("{who}: epoch {e} before the pass, head #{h}: {:?} vs {:?}", short(&x.pending_pre[h]), short(y.pending_pre.get(h).map(Vec::as_slice).unwrap_or(&[]))));
        }
        match (&x.pass, &y.pass) {
            (PassOut::Ok(rx), PassOut::Ok(ry)) => {
                if rx != ry {
                    return Outcome::violation("order_dependent:step_records", format!("{who}: epoch {e}: {rx:?} vs {ry:?}"));
                }
            }
            (px, py) => {
                if px != py {
                    return Outcome::violation("order_dependent:pass_failure", format!("{who}: epoch {e}: {px:?} vs {py:?}"));
                }
            }
        }
        if x.entries != y.entries {
            let k = (0..x.entries.len().min(y.entries.len())).find(|k| x.entries[*k] != y.entries[*k]).unwrap_or(0);
            let receipts_differ = x.entries.get(k).map(|en| &en.tick_receipt) != y.entries.get(k).map(|en| &en.tick_receipt);
            return Outcome::violation(if receipts_differ { "order_dependent:receipts" } else { "order_dependent:provenance" }, format!("{who}: epoch {e}, entry #{k} of the pass differs"));
        }
        if x.pending_post != y.pending_post {
            return Outcome::violation("order_dependent:pending_set", format!("{who}: epoch {e} after the pass: {:?} vs {:?}", x.pending_post.iter().map(|p| short(p)).collect::<Vec<_>>(), y.pending_post.iter().map(|p| short(p)).collect::<Vec<_>>()));
        }
    }
    if let (Some(fa), Some(fb)) = (&a.fin, &b.fin) {
        let d = fa.runtime_masked.diff(&fb.runtime_masked);
        if let Some(f) = d.first() {
            return Outcome::violation(format!("order_dependent:final_state:{f}"), format!("{who}: runtime fields {d:?} differ after masking arrival metadata"));
        }
        if fa.runtime_strict != fb.runtime_strict {
            ctx.hit("reach.arrival_metadata_differs");
        }
        let d = fa.provenance.diff(&fb.provenance);
        if let Some(f) = d.first() {
            return Outcome::violation(format!("order_dependent:final_state:provenance.{f}"), format!("{who}: provenance fields {d:?} differ"));
        }
        if fa.engine != fb.engine {
            return Outcome::violation("order_dependent:final_state:engine", format!("{who}: engine fingerprints differ"));
        }
    }
    Outcome::Ok
}

/// Restart twin: a restart must be invisible to pending sets and commit identities.
fn compare_relaxed(a: &Trace, b: &Trace, ia: usize, ib: usize) -> Outcome {
    let who = format!("schedule {ia} (with restarts) and its no-restart twin {ib}");
    if a.failed_at != b.failed_at {
        return Outcome::violation("restart_visible:pass_failure", format!("{who}: first failing pass {:?} vs {:?}", a.failed_at, b.failed_at));
    }
    for (e, (x, y)) in a.epochs.iter().zip(&b.epochs).enumerate() {
        if x.pending_pre != y.pending_pre || x.pending_post != y.pending_post {
            return Outcome::violation("restart_visible:pending_set", format!("{who}: epoch {e}"));
        }
        if let (PassOut::Ok(rx), PassOut::Ok(ry)) = (&x.pass, &y.pass) {
            let proj = |r: &Vec<warp_core::StepRecord>| r.iter().map(|s| (s.head_key, s.admitted_count, s.worldline_tick_after, s.state_root, s.commit_hash)).collect::<Vec<_>>();
            if proj(rx) != proj(ry) {
                return Outcome::violation("restart_visible:step_records", format!("{who}: epoch {e}: {rx:?} vs {ry:?}"));
            }
        }
    }
    Outcome::Ok
}

impl Scenario for C08 {
    fn generate(rng: &mut Rng, tier: Tier, avoid: bool) -> Self {
        gen::generate(rng, tier, avoid)
    }

    fn execute(&self, ctx: &mut RunCtx) -> Outcome {
        if let Err(v) = inbox::check(&self.inbox_tape, &self.intents, ctx) {
            return v;
        }
        if let Err(v) = graph_inbox::check(&self.graph_inbox, ctx) {
            return v;
        }
        if self.schedules.is_empty() || self.n_epochs == 0 {
            return Outcome::Ok;
        }
        // (d) identity
        let all: Vec<&CIntent> = self.intents.iter().chain(self.probes.iter()).collect();
        match ident::check_identity(&all, &self.perms) {
            Ok(n) => ctx.count("reach.parent_set_permutations", n),
            Err(v) => return v,
        }
        let ids = exec::ref_ids(self);
        let has_restart = self.mode == Mode::Ticketed && self.restarts.iter().take(self.n_epochs).any(|r| *r);

        // families = schedules with the same implied partition
        let partitions: Vec<_> = self.schedules.iter().map(|s| implied_partition(self, s, &ids)).collect();
        let mut traces: Vec<Trace> = Vec::with_capacity(self.schedules.len());
        for si in 0..self.schedules.len() {
            if partitions[si] != partitions[0] {
                ctx.hit("fault.delayed_across_epoch");
            }
            let runner = match Runner::new(self, si, &ids) {
                Ok(r) => r,
                Err(v) => return v,
            };
            match runner.run(ctx) {
                Ok(t) => traces.push(t),
                Err(v) => return v,
            }
        }
        let mut done: BTreeSet<usize> = BTreeSet::new();
        let mut nontrivial = false;
        for lead in 0..self.schedules.len() {
            if done.contains(&lead) {
                continue;
            }
            let fam: Vec<usize> = (lead..self.schedules.len()).filter(|s| partitions[*s] == partitions[lead]).collect();
            done.extend(fam.iter().copied());
            // members that restart and members that do not (twins) are each compared strictly among
            // themselves; one restarting member is compared with one twin on commit identities only
            let restarting = |s: usize| has_restart && !self.schedules[s].no_restart;
            let with: Vec<usize> = fam.iter().copied().filter(|s| restarting(*s)).collect();
            let without: Vec<usize> = fam.iter().copied().filter(|s| !restarting(*s)).collect();
            for group in [&with, &without] {
                for s in group.iter().skip(1) {
                    let out = compare_strict(&traces[group[0]], &traces[*s], group[0], *s, ctx);
                    if out != Outcome::Ok {
                        return out;
                    }
                }
            }
            if let (Some(a), Some(b)) = (with.first(), without.first()) {
                let out = compare_relaxed(&traces[*a], &traces[*b], *a, *b);
                if out != Outcome::Ok {
                    return out;
                }
                ctx.hit("reach.restart_twin_compared");
            }
            if lead == 0 {
                let distinct: BTreeSet<String> = fam.iter().map(|s| format!("{:?}", self.schedules[*s].epochs)).collect();
                if distinct.len() >= 2 && partitions[0].iter().any(|p| p.len() >= 2) {
                    nontrivial = true;
                }
                if fam.len() >= 2 {
                    ctx.count("reach.family_members_compared", fam.len() as u64 - 1);
                }
            } else if fam.len() >= 2 {
                ctx.hit("reach.second_family_compared");
            }
        }
        for t in &traces {
            for e in &t.epochs {
                ctx.trace_str(&format!("{:?}", e.pass));
            }
        }
        if nontrivial {
            let sig = serde_json::to_vec(&(&self.world, &self.intents, &partitions[0])).unwrap_or_default();
            ctx.nontrivial(&sig);
        }
        Outcome::Ok
    }

    fn shrink_candidates(&self) -> Vec<Self> {
        let mut out = Vec::new();
        if !self.graph_inbox.ops.is_empty() {
            let mut s = self.clone();
            s.graph_inbox = Default::default();
            out.push(s);
            if !self.schedules.is_empty() || !self.inbox_tape.ops.is_empty() {
                let mut s = self.clone();
                s.schedules.clear();
                s.inbox_tape = Default::default();
                out.push(s);
            }
            for i in (0..self.graph_inbox.ops.len()).rev() {
                let mut s = self.clone();
                s.graph_inbox.ops.remove(i);
                out.push(s);
            }
        }
        // inbox surface: drop it, or keep only it, or drop one of its ops
        if !self.inbox_tape.ops.is_empty() {
            let mut s = self.clone();
            s.inbox_tape = Default::default();
            out.push(s);
            if !self.schedules.is_empty() {
                let mut s = self.clone();
                s.schedules.clear();
                out.push(s);
            }
            for i in (0..self.inbox_tape.ops.len()).rev() {
                let mut s = self.clone();
                s.inbox_tape.ops.remove(i);
                out.push(s);
            }
        }
        // drop a schedule (keep >= 2)
        if self.schedules.len() > 2 {
            for i in (0..self.schedules.len()).rev() {
                let mut s = self.clone();
                s.schedules.remove(i);
                out.push(s);
            }
        }
        // drop an intent
        for i in (0..self.intents.len()).rev() {
            out.push(self.without_intent(i));
        }
        // drop all retries of a schedule, then single retries
        for si in 0..self.schedules.len() {
            let mut s = self.clone();
            let mut seen = BTreeSet::new();
            let mut changed = false;
            for ops in &mut s.schedules[si].epochs {
                ops.retain(|op| match op.intent() {
                    Some(i) => {
                        let first = seen.insert(i);
                        changed |= !first;
                        first
                    }
                    None => true,
                });
            }
            if changed {
                out.push(s);
            }
        }
        for si in 0..self.schedules.len() {
            let mut seen = BTreeSet::new();
            for e in 0..self.schedules[si].epochs.len() {
                for k in 0..self.schedules[si].epochs[e].len() {
                    if let Some(i) = self.schedules[si].epochs[e][k].intent() {
                        if !seen.insert(i) {
                            let mut s = self.clone();
                            s.schedules[si].epochs[e].remove(k);
                            out.push(s);
                        }
                    }
                }
            }
        }
        // merge epochs e and e+1; drop a trailing epoch without deliveries
        for e in 0..self.n_epochs.saturating_sub(1) {
            let mut s = self.clone();
            for sch in &mut s.schedules {
                if sch.epochs.len() > e + 1 {
                    let next = sch.epochs.remove(e + 1);
                    sch.epochs[e].extend(next);
                }
            }
            if s.elig.len() > e + 1 {
                let next = s.elig.remove(e + 1);
                s.elig[e].extend(next);
            }
            if s.restarts.len() > e + 1 {
                s.restarts.remove(e);
            }
            s.n_epochs -= 1;
            out.push(s);
        }
        if self.n_epochs > 1 && self.schedules.iter().all(|s| s.epochs.get(self.n_epochs - 1).is_none_or(|ops| !ops.iter().any(|o| o.intent().is_some()))) {
            let mut s = self.clone();
            s.n_epochs -= 1;
            out.push(s);
        }
        // drop restarts / eligibility changes / ticketed mode
        for e in 0..self.restarts.len() {
            if self.restarts[e] {
                let mut s = self.clone();
                s.restarts[e] = false;
                out.push(s);
            }
        }
        for e in 0..self.elig.len() {
            for k in 0..self.elig[e].len() {
                let mut s = self.clone();
                s.elig[e].remove(k);
                out.push(s);
            }
        }
        if self.mode == Mode::Ticketed {
            let mut s = self.clone();
            s.mode = Mode::Plain;
            out.push(s);
        }
        {
            let mut s = self.clone();
            let mut changed = false;
            for sch in &mut s.schedules {
                changed |= std::mem::take(&mut sch.defer_staging) | std::mem::take(&mut sch.restage_rev);
                for (e, ops) in sch.epochs.iter_mut().enumerate() {
                    for op in ops.iter_mut() {
                        if let Op::DeliverPlain(i) = op {
                            *op = Op::Deliver(*i);
                            changed = true;
                        }
                    }
                    if self.elig.get(e).is_none_or(Vec::is_empty) {
                        let n = ops.len();
                        ops.retain(|o| !matches!(o, Op::Elig));
                        changed |= ops.len() != n;
                    }
                }
            }
            if changed {
                out.push(s);
            }
        }
        // drop the last worldline / a non-default head
        if self.world.worldlines.len() > 1 {
            let id = self.world.worldlines[self.world.worldlines.len() - 1].id;
            let mut s = self.clone();
            s.world.worldlines.pop();
            let doomed: Vec<usize> = (0..s.intents.len()).filter(|i| s.intents[*i].base.wl() == id).collect();
            for i in doomed.into_iter().rev() {
                s = s.without_intent(i);
            }
            for ch in &mut s.elig {
                ch.retain(|c| c.wl != id);
            }
            s.probes.retain(|p| p.base.wl() != id);
            s.perms.clear();
            out.push(s);
        }
        for (wi, wl) in self.world.worldlines.iter().enumerate() {
            for (hi, h) in wl.heads.iter().enumerate() {
                if h.default || wl.heads.len() < 2 {
                    continue;
                }
                let mut s = self.clone();
                s.world.worldlines[wi].heads.remove(hi);
                let gone = |t: &TargetSpec| match t {
                    TargetSpec::Exact { wl: w, head } => *w == wl.id && *head == h.label,
                    TargetSpec::Inbox { wl: w, name } => *w == wl.id && Some(*name) == h.inbox,
                    TargetSpec::Default { .. } => false,
                };
                let doomed: Vec<usize> = (0..s.intents.len()).filter(|i| gone(&s.intents[*i].base.target)).collect();
                for i in doomed.into_iter().rev() {
                    s = s.without_intent(i);
                }
                for ch in &mut s.elig {
                    ch.retain(|c| !(c.wl == wl.id && c.head == h.label));
                }
                out.push(s);
            }
        }
        // simpler policies
        for (wi, wl) in self.world.worldlines.iter().enumerate() {
            for (hi, h) in wl.heads.iter().enumerate() {
                if h.policy != crate::world::runtime::PolicySpec::AcceptAll {
                    let mut s = self.clone();
                    s.world.worldlines[wi].heads[hi].policy = crate::world::runtime::PolicySpec::AcceptAll;
                    out.push(s);
                }
            }
        }
        // probes, parents, program steps, workers
        if !self.probes.is_empty() {
            let mut s = self.clone();
            s.probes.clear();
            s.perms.truncate(s.intents.len());
            out.push(s);
        }
        for i in 0..self.intents.len() {
            if !self.intents[i].parents.is_empty() {
                let mut s = self.clone();
                s.intents[i].parents.pop();
                s.perms.clear();
                out.push(s);
            }
            if self.intents[i].base.prog.steps.len() > 1 {
                for k in 0..self.intents[i].base.prog.steps.len() {
                    let mut s = self.clone();
                    s.intents[i].base.prog.steps.remove(k);
                    out.push(s);
                }
            }
        }
        if self.world.workers > 1 {
            let mut s = self.clone();
            s.world.workers = 1;
            out.push(s);
        }
        out
    }
}

impl Op {
    pub fn intent(&self) -> Option<usize> {
        match self {
            Op::Deliver(i) | Op::DeliverPlain(i) => Some(*i),
            Op::Elig => None,
        }
    }
    fn intent_mut(&mut self) -> Option<&mut usize> {
        match self {
            Op::Deliver(i) | Op::DeliverPlain(i) => Some(i),
            Op::Elig => None,
        }
    }
}

impl C08 {
    fn without_intent(&self, i: usize) -> C08 {
        let mut s = self.clone();
        if i >= s.intents.len() {
            return s;
        }
        s.intents.remove(i);
        if i < s.perms.len() {
            s.perms.remove(i);
        }
        for sch in &mut s.schedules {
            for ops in &mut sch.epochs {
                ops.retain(|op| op.intent() != Some(i));
                for op in ops.iter_mut() {
                    if let Some(k) = op.intent_mut() {
                        if *k > i {
                            *k -= 1;
                        }
                    }
                }
            }
        }
        s
    }
}
