//! C03 — admission is the canonical greedy independent set with exact blocking witnesses.
//!
//! Scheduled party: the *history of calls* on one stateful scheduler instance (hook H2,
//! `RawScheduler`) and the interleaving of 1-3 transactions (plus a stratified block of mini
//! transactions): enqueue* (with last-wins re-enqueue), drain, reserve per drained candidate,
//! optional second enqueue/drain/reserve batch, re-drain, finalize or premature finalize, and
//! reuse of the instance (and of transaction ids) by later rounds. The same history is fed to a
//! Radix and a Legacy scheduler and to an independent reference (`model::RefScheduler`).
//! Blocker witnesses are checked on the engine path (small engine tick in ~1 of 4 runs).

mod gen;
mod model;
mod real;

use serde::{Deserialize, Serialize};
use warp_core::{NodeId, NodeKey, SchedulerKind, TickReceipt, TickReceiptDisposition, TickReceiptEntry, TickReceiptRejection, TxId};

use crate::kernel::{self, Outcome, PropertySpec, Rng, RunCtx, Scenario, Tier};
use crate::props::c01;
use crate::world::gen::StateSpec;
use crate::world::tick::{ref_tick, run_tick, Cand, EngineCfg, TickResult};

use model::{drive, DKey, Masks, RefScheduler, Round, TxObs};
use real::Real;

pub const SPEC: PropertySpec = PropertySpec {
    id: "C03",
    level: "exploration",
    rule: "scenario = operation history on one RawScheduler instance per kind (Radix, Legacy): rounds of 1-3 seeded-interleaved transactions (enqueue* with last-wins re-enqueue under a different footprint and tag, drain, reserve in order, optional second batch, re-drain, finalize or premature finalize), later rounds reuse the instance and transaction ids; adversarial keys (random hashes, shared 30-byte prefixes, single 16-bit digit differences at every scope position and in either rule half, equal scope with different rules); batch sizes 0..5000 with mass at 1020-1030 (1 run in 8 quick, 1 in 4 thorough); footprints over 2 instances x {2 nodes, 2 edges, 2 attachment keys, 2 ports}; every run has a stratified block (9 access pairs on one resource + rejected-reserves-nothing triple); ~1 run in 4 adds a small engine tick for blocker witnesses; non-trivial = >=1 rejection or >=1 last-wins replacement; distinct = hash of the history",
    quick_runs: 60_000,
    thorough_runs: 600_000,
    real_components: &[
        "warp_core::verif::RawScheduler over DeterministicScheduler (RadixScheduler: PendingTx radix/comparison sort, GenSet reservation; LegacyScheduler: BTreeMap drain, Footprint::independent)",
        "TickReceipt::try_from_retained_parts",
        "Engine::commit_with_receipt (reserve_for_receipt, footprints_conflict) on the engine-path runs",
    ],
    stub_components: &["engine-path runs only: application rules are the shared data-driven interpreter rule (programs are generated data)"],
    assumptions: &[
        "rule ids are the big-endian encoding of the compact rule id, so (scope hash, compact id) order and (scope hash, rule id) order are isomorphic as the engine guarantees",
        "factor masks are all-ones (sound), as the property requires for the Legacy scheduler",
        "blocker witnesses cannot be observed through RawScheduler; they are compared on the engine path against the shared reference tick model",
        "a second enqueue/drain/reserve batch inside one transaction (before finalize) is treated as part of the same tick: the accepted frontier persists until finalize",
    ],
    fault_kinds: &[],
};

#[derive(Clone, Debug, Serialize, Deserialize)]
pub struct EngineTick {
    pub state: StateSpec,
    pub cands: Vec<Cand>,
    pub arrival: Vec<usize>,
    pub cfg: EngineCfg,
}

#[derive(Clone, Debug, Serialize, Deserialize)]
pub struct C03 {
    /// compact rule ids; rule index -> (rule id hash, compact id) with isomorphic order
    pub rules: Vec<u32>,
    pub rounds: Vec<Round>,
    pub engine: Option<EngineTick>,
}

impl Scenario for C03 {
    fn generate(rng: &mut Rng, tier: Tier, avoid: bool) -> Self {
        let big = rng.chance(1, if tier == Tier::Thorough { 4 } else { 8 });
        let rules = gen::gen_rules(rng);
        let mut rounds = Vec::new();
        let strat_first = rng.chance(1, 2);
        if strat_first {
            rounds.push(gen::gen_stratified(rng, &rules));
        }
        let main = gen::gen_round(rng, &rules, big, &[]);
        let ids: Vec<u64> = main.txs.iter().map(|t| t.id).collect();
        rounds.push(main);
        // a later round on the same instance, often reusing transaction ids
        if rng.chance(1, 3) {
            rounds.push(gen::gen_round(rng, &rules, false, &ids));
        }
        if !strat_first {
            rounds.push(gen::gen_stratified(rng, &rules));
        }
        let engine = if rng.chance(1, 4) {
            let n_small = rng.urange(2, 10);
            let _ = avoid;
            // always steer around re-parenting of attached edges: that shape belongs to C04/C14
            let (state, cands) = c01::gen_tick(rng, true, false, n_small);
            let arrivals = c01::gen_arrivals(rng, cands.len(), 3);
            let arrival = arrivals.last().cloned().unwrap_or_default();
            let cfg = c01::gen_cfg(rng, cands.len());
            Some(EngineTick { state, cands, arrival, cfg })
        } else {
            None
        };
        C03 { rules, rounds, engine }
    }

    fn execute(&self, ctx: &mut RunCtx) -> Outcome {
        // ---- reference history ----
        let mut reference = RefScheduler::default();
        let (ref_obs, ref_stats) = drive(&mut reference, &self.rounds, &self.rules, None);
        let n_tx_total: usize = self.rounds.iter().map(|r| r.txs.len()).sum();

        // ---- real schedulers, same history ----
        let mut radix_obs: Option<Vec<Vec<TxObs>>> = None;
        for (kind, name) in [(SchedulerKind::Radix, "radix"), (SchedulerKind::Legacy, "legacy")] {
            let main = match kernel::catch(|| {
                let mut s = Real::new(kind);
                drive(&mut s, &self.rounds, &self.rules, None).0
            }) {
                Ok(o) => o,
                Err(p) => return Outcome::violation(format!("scheduler_panicked:{name}"), p),
            };
            for (ri, round) in self.rounds.iter().enumerate() {
                for (si, tx) in round.txs.iter().enumerate() {
                    // A transaction that did not run alone on a fresh instance is re-run alone:
                    // solo vs reference decides order/admission classes, history vs solo decides crosstalk.
                    let solo = if n_tx_total > 1 {
                        match kernel::catch(|| {
                            let mut s = Real::new(kind);
                            let mut o = drive(&mut s, &self.rounds, &self.rules, Some((ri, si))).0;
                            std::mem::take(&mut o[ri][si])
                        }) {
                            Ok(o) => o,
                            Err(p) => return Outcome::violation(format!("scheduler_panicked:{name}"), p),
                        }
                    } else {
                        main[ri][si].clone()
                    };
                    if let Err(v) = compare_tx(name, &ref_obs[ri][si], &solo, &format!("round {ri} tx#{si} (id {}) run alone", tx.id)) {
                        return v;
                    }
                    if main[ri][si] != solo {
                        let what = first_difference(&solo, &main[ri][si]);
                        return Outcome::violation(
                            "tx_crosstalk",
                            format!("{name}: round {ri} tx#{si} (id {}) behaves differently inside the history than alone on a fresh scheduler: {what}", tx.id),
                        );
                    }
                }
            }
            if radix_obs.is_none() {
                radix_obs = Some(main);
            }
        }
        let radix_obs = radix_obs.unwrap_or_default();

        // ---- receipt invariants: real decisions + reference blockers must form a valid receipt ----
        for (ri, round) in self.rounds.iter().enumerate() {
            for (si, tx) in round.txs.iter().enumerate() {
                let (o, r) = (&radix_obs[ri][si], &ref_obs[ri][si]);
                let (Some(d), Some(a), Some(bl)) = (o.drains.first(), o.accepts.first(), r.blockers.first()) else { continue };
                if a.len() != d.len() || bl.len() != d.len() {
                    continue; // aborted before all reserves
                }
                let entries: Vec<TickReceiptEntry> = d
                    .iter()
                    .zip(a)
                    .map(|(k, acc)| TickReceiptEntry {
                        rule_id: k.rule_id,
                        scope_hash: k.scope_hash,
                        scope: NodeKey { warp_id: real::warp(0), local_id: NodeId(k.scope_hash) },
                        disposition: if *acc == Some(true) {
                            TickReceiptDisposition::Applied
                        } else {
                            TickReceiptDisposition::Rejected(TickReceiptRejection::FootprintConflict)
                        },
                    })
                    .collect();
                match TickReceipt::try_from_retained_parts(TxId::from_raw(tx.id), entries.clone(), bl.clone()) {
                    Ok(rec) => {
                        crate::ensure!(
                            rec.entries() == entries.as_slice() && (0..entries.len()).all(|i| rec.blocked_by(i) == bl[i].as_slice()),
                            "receipt_parts_altered",
                            "round {ri} tx#{si}: reconstructed receipt differs from its parts"
                        );
                    }
                    Err(e) => {
                        return Outcome::violation(
                            "receipt_parts_rejected",
                            format!("round {ri} tx#{si}: scheduler decisions + reference blockers rejected by try_from_retained_parts: {e}"),
                        )
                    }
                }
                ctx.hit("time.receipts_reconstructed");
            }
        }

        // ---- engine path: exact blockers ----
        if let Some(et) = &self.engine {
            if let Err(v) = engine_check(et, ctx) {
                return v;
            }
        }

        // ---- counters, trace, signature ----
        let mut rejected = 0u64;
        let mut reserves = 0u64;
        let mut enqueues = 0u64;
        let mut th = blake3::Hasher::new();
        for (ri, round) in self.rounds.iter().enumerate() {
            if round.txs.len() > 1 {
                ctx.hit("reach.multi_tx_round");
            }
            for (si, tx) in round.txs.iter().enumerate() {
                let o = &radix_obs[ri][si];
                enqueues += o.enqueues;
                if o.finalized_early {
                    ctx.hit("reach.aborted_tx");
                }
                if !tx.late.is_empty() && o.drains.len() >= 2 {
                    ctx.hit("reach.second_batch_in_tx");
                }
                if tx.redrain && !o.finalized_early {
                    ctx.hit("reach.redrain_empty");
                }
                if self.rounds[..ri].iter().any(|r| r.txs.iter().any(|t| t.id == tx.id)) {
                    ctx.hit("reach.tx_id_reused_after_finalize");
                }
                for (d, a) in o.drains.iter().zip(&o.accepts) {
                    ctx.hit("time.drains");
                    match d.len() {
                        0 => ctx.hit("reach.batch_empty"),
                        1..=1023 => {}
                        1024 => ctx.hit("reach.batch_exactly_1024"),
                        _ => ctx.hit("reach.batch_above_1024"),
                    }
                    let (mut one_digit, mut prefix, mut same_scope) = (false, false, false);
                    for w in d.windows(2) {
                        let (x, y) = (&w[0], &w[1]);
                        if x.scope_hash == y.scope_hash {
                            same_scope = true;
                            let (lo, hi) = ((x.compact ^ y.compact) & 0xffff, (x.compact ^ y.compact) >> 16);
                            if (lo == 0) != (hi == 0) {
                                one_digit = true;
                            }
                        } else {
                            let differing = (0..16).filter(|p| x.scope_hash[2 * p..2 * p + 2] != y.scope_hash[2 * p..2 * p + 2]).count();
                            if differing == 1 {
                                one_digit = true;
                            }
                            if x.scope_hash[..30] == y.scope_hash[..30] {
                                prefix = true;
                            }
                        }
                    }
                    if one_digit {
                        ctx.hit("reach.one_digit_keys");
                    }
                    if prefix {
                        ctx.hit("reach.shared_prefix_keys");
                    }
                    if same_scope {
                        ctx.hit("reach.equal_scope_different_rule");
                    }
                    reserves += a.len() as u64;
                    rejected += a.iter().filter(|x| **x == Some(false)).count() as u64;
                    th.update(&(d.len() as u64).to_le_bytes());
                    for (k, acc) in d.iter().zip(a.iter().map(Some).chain(std::iter::repeat(None))) {
                        th.update(&k.scope_hash);
                        th.update(&k.compact.to_le_bytes());
                        th.update(&k.tag.to_le_bytes());
                        th.update(&[match acc {
                            Some(Some(true)) => 1,
                            Some(Some(false)) => 2,
                            Some(None) => 3,
                            None => 0,
                        }]);
                    }
                }
            }
        }
        ctx.trace(th.finalize().as_bytes());
        ctx.count("time.reserves", reserves);
        ctx.count("time.enqueues", enqueues);
        ctx.count("reach.rejected", rejected);
        ctx.count("reach.last_wins_reenqueue", ref_stats.replaced);
        ctx.count("reach.interleaved_txs", ref_stats.interleave_switches);
        if rejected > 0 || ref_stats.replaced > 0 {
            let sig = serde_json::to_vec(&(&self.rules, &self.rounds)).unwrap_or_default();
            ctx.nontrivial(&sig);
        }
        Outcome::Ok
    }

    fn shrink_candidates(&self) -> Vec<Self> {
        let mut out = Vec::new();
        if self.engine.is_some() {
            let mut s = self.clone();
            s.engine = None;
            out.push(s);
        }
        // drop a round
        if self.rounds.len() > 1 || self.engine.is_some() {
            for ri in 0..self.rounds.len() {
                let mut s = self.clone();
                s.rounds.remove(ri);
                out.push(s);
            }
        }
        // drop a transaction
        for ri in 0..self.rounds.len() {
            if self.rounds[ri].txs.len() > 1 {
                for ti in 0..self.rounds[ri].txs.len() {
                    let mut s = self.clone();
                    s.rounds[ri].txs.remove(ti);
                    out.push(s);
                }
            }
        }
        for ri in 0..self.rounds.len() {
            // sequential instead of interleaved
            if !self.rounds[ri].tape.is_empty() {
                let mut s = self.clone();
                s.rounds[ri].tape.clear();
                out.push(s);
            }
            for ti in 0..self.rounds[ri].txs.len() {
                let tx = &self.rounds[ri].txs[ti];
                if !tx.late.is_empty() {
                    let mut s = self.clone();
                    s.rounds[ri].txs[ti].late.clear();
                    out.push(s);
                }
                if tx.abort_at.is_some() {
                    let mut s = self.clone();
                    s.rounds[ri].txs[ti].abort_at = None;
                    out.push(s);
                }
                if tx.redrain {
                    let mut s = self.clone();
                    s.rounds[ri].txs[ti].redrain = false;
                    out.push(s);
                }
                // shrink the batch: drop chunks, then single enqueues
                let n = tx.enq.len();
                if n > 8 {
                    let mut last_chunk = 0;
                    for g in [2usize, 8, 32, 128] {
                        let chunk = n.div_ceil(g);
                        if chunk == last_chunk || (chunk == 1 && n <= 64) {
                            continue;
                        }
                        last_chunk = chunk;
                        for c in 0..g {
                            let (lo, hi) = (c * chunk, ((c + 1) * chunk).min(n));
                            if lo < hi {
                                let mut s = self.clone();
                                s.rounds[ri].txs[ti].enq.drain(lo..hi);
                                out.push(s);
                            }
                        }
                    }
                    // all footprints empty at once (order / dedupe failures do not need them)
                    if tx.enq.iter().any(|e| !e.fp.is_empty()) {
                        let mut s = self.clone();
                        for e in &mut s.rounds[ri].txs[ti].enq {
                            e.fp.clear();
                        }
                        out.push(s);
                    }
                }
                if n <= 64 {
                    for i in 0..n {
                        let mut s = self.clone();
                        s.rounds[ri].txs[ti].enq.remove(i);
                        out.push(s);
                    }
                    // simplify footprints and keys
                    for i in 0..n {
                        for f in 0..tx.enq[i].fp.len() {
                            let mut s = self.clone();
                            s.rounds[ri].txs[ti].enq[i].fp.remove(f);
                            out.push(s);
                        }
                        if tx.enq[i].k.p < 16 && tx.enq[i].k.v != 0 {
                            let mut s = self.clone();
                            s.rounds[ri].txs[ti].enq[i].k.v = 0;
                            out.push(s);
                        }
                    }
                }
                for i in 0..tx.late.len() {
                    let mut s = self.clone();
                    s.rounds[ri].txs[ti].late.remove(i);
                    out.push(s);
                }
            }
        }
        // engine tick: drop a candidate
        if let Some(et) = &self.engine {
            for ci in 0..et.cands.len().min(40) {
                let mut s = self.clone();
                if let Some(e) = s.engine.as_mut() {
                    e.cands.remove(ci);
                    e.arrival.retain(|i| *i != ci);
                    for x in e.arrival.iter_mut() {
                        if *x > ci {
                            *x -= 1;
                        }
                    }
                    e.cfg.other_tx.clear();
                }
                out.push(s);
            }
            if et.cfg != EngineCfg::default() {
                let mut s = self.clone();
                if let Some(e) = s.engine.as_mut() {
                    e.cfg = EngineCfg::default();
                }
                out.push(s);
            }
        }
        out
    }
}

fn show_key(k: &DKey) -> String {
    format!("({}, rule {:#010x}, tag {:#x})", hex::encode(k.scope_hash), k.compact, k.tag)
}

fn show_masks(m: &Masks) -> String {
    let mut parts = Vec::new();
    for r in 0..16u8 {
        let bit = 1u16 << r;
        let acc = if m.p & bit != 0 {
            "port"
        } else if m.w & bit != 0 && m.r & bit != 0 {
            "read+write"
        } else if m.w & bit != 0 {
            "write"
        } else if m.r & bit != 0 {
            "read"
        } else {
            continue;
        };
        let name = ["node0", "node1", "edge0", "edge1", "alpha(node0)", "beta(edge0)", "port0", "port1"][usize::from(r % 8)];
        parts.push(format!("W{}.{name}:{acc}", r / 8));
    }
    format!("{{{}}}", parts.join(", "))
}

/// Compare one scheduler's record of a transaction with the reference's.
fn compare_tx(kind: &str, reference: &TxObs, got: &TxObs, label: &str) -> Result<(), Outcome> {
    if reference.drains.len() != got.drains.len() {
        return Err(Outcome::violation("harness:drain_count", format!("{label}: {} vs {} drain calls", reference.drains.len(), got.drains.len())));
    }
    for (bi, (rd, gd)) in reference.drains.iter().zip(&got.drains).enumerate() {
        let key = |k: &DKey| (k.scope_hash, k.rule_id, k.compact);
        if rd.len() != gd.len() || rd.iter().zip(gd).any(|(a, b)| key(a) != key(b)) {
            let at = rd.iter().zip(gd).position(|(a, b)| key(a) != key(b)).unwrap_or(rd.len().min(gd.len()));
            let mut rs: Vec<_> = rd.iter().map(key).collect();
            let mut gs: Vec<_> = gd.iter().map(key).collect();
            rs.sort_unstable();
            gs.sort_unstable();
            let how = if rs == gs { "same candidates, different order" } else { "different candidate sets" };
            return Err(Outcome::violation(
                format!("drain_order:{kind}_vs_reference"),
                format!(
                    "{label}, drain #{bi}: {how}; {kind} drained {} candidates, reference {}; first difference at index {at}: {kind} {} reference {}",
                    gd.len(),
                    rd.len(),
                    gd.get(at).map(show_key).unwrap_or_else(|| "-".into()),
                    rd.get(at).map(show_key).unwrap_or_else(|| "-".into())
                ),
            ));
        }
        if let Some(at) = rd.iter().zip(gd).position(|(a, b)| a.tag != b.tag) {
            return Err(Outcome::violation(
                "dedupe_winner",
                format!("{label}, drain #{bi}, index {at}: {kind} kept enqueue {} but the last enqueue of that key is {}", show_key(&gd[at]), show_key(&rd[at])),
            ));
        }
        let (ra, ga) = (&reference.accepts[bi], &got.accepts[bi]);
        if ra.len() != ga.len() {
            return Err(Outcome::violation("harness:reserve_count", format!("{label}: drain #{bi}: {} vs {} reserve calls", ra.len(), ga.len())));
        }
        if let Some(at) = ra.iter().zip(ga).position(|(a, b)| a != b) {
            let masks = reference.masks.get(bi).cloned().unwrap_or_default();
            let me = masks.get(at).copied().unwrap_or_default();
            let mut detail = format!(
                "{label}, drain #{bi}, candidate {at} {} footprint {}: {kind} reserve = {:?}, reference = {:?}",
                show_key(&rd[at]),
                show_masks(&me),
                ga[at],
                ra[at]
            );
            // Does the candidate collide with an earlier candidate the reference REJECTED?
            let mut class = format!("admission:{kind}");
            if ra[at] == Some(true) && ga[at] == Some(false) {
                if let Some(j) = (0..at).find(|j| ra[*j] == Some(false) && masks[*j].conflicts(&me)) {
                    class = "rejected_candidate_reserved".to_owned();
                    detail.push_str(&format!("; it overlaps only rejected candidate {j} {}, which must have reserved nothing", show_masks(&masks[j])));
                }
            } else if ra[at] == Some(false) {
                if let Some(bl) = reference.blockers.get(bi).and_then(|b| b.get(at)) {
                    detail.push_str(&format!("; reference blockers {bl:?}"));
                    for j in bl.iter().take(3) {
                        if let Some(m) = masks.get(*j as usize) {
                            detail.push_str(&format!(" [{j}: {}]", show_masks(m)));
                        }
                    }
                }
            }
            return Err(Outcome::violation(class, detail));
        }
    }
    Ok(())
}

fn first_difference(solo: &TxObs, hist: &TxObs) -> String {
    if solo.drains.len() != hist.drains.len() {
        return format!("{} vs {} drains", solo.drains.len(), hist.drains.len());
    }
    for (bi, (a, b)) in solo.drains.iter().zip(&hist.drains).enumerate() {
        if a != b {
            let at = a.iter().zip(b).position(|(x, y)| x != y).unwrap_or(a.len().min(b.len()));
            return format!(
                "drain #{bi} differs at index {at} (alone {} candidates: {}; in history {} candidates: {})",
                a.len(),
                a.get(at).map(show_key).unwrap_or_else(|| "-".into()),
                b.len(),
                b.get(at).map(show_key).unwrap_or_else(|| "-".into())
            );
        }
        if solo.accepts[bi] != hist.accepts[bi] {
            let at = solo.accepts[bi].iter().zip(&hist.accepts[bi]).position(|(x, y)| x != y).unwrap_or(0);
            return format!("drain #{bi} reserve #{at}: alone {:?}, in history {:?}", solo.accepts[bi].get(at), hist.accepts[bi].get(at));
        }
    }
    "bookkeeping differs".to_owned()
}

/// Engine path: receipt order, dispositions and EXACT blocker sets against the shared reference
/// tick model, and the receipt's retained parts must be accepted by `try_from_retained_parts`.
fn engine_check(et: &EngineTick, ctx: &mut RunCtx) -> Result<(), Outcome> {
    let pre = et.state.build_ref().map_err(|e| Outcome::violation("harness:ref_state_build", e))?;
    let reference = ref_tick(&pre, &et.cands);
    let tape: [u16; 4] = [0, 1, 2, 3];
    let obs = run_tick(&et.state, &et.cands, &et.arrival, &et.cfg, if et.cfg.workers > 1 { Some(&tape) } else { None })
        .map_err(|e| Outcome::violation("harness:state_construction", e))?;
    ctx.hit("reach.engine_tick");
    ctx.count("time.ticks", 1);
    if let Err(Outcome::Violation { class, detail }) = c01::check_against_reference(&pre, &reference, &obs, ctx) {
        match class.as_str() {
            "reference_mismatch:canonical_order" => return Err(Outcome::violation("engine_receipt:canonical_order", detail)),
            "reference_mismatch:admission" => return Err(Outcome::violation("engine_receipt:admission", detail)),
            "reference_mismatch:blockers" => return Err(Outcome::violation("engine_receipt:blockers", detail)),
            // post-state / commit-error disagreements are C01's and C04's subject, not C03's
            _ => ctx.hit("other.engine_tick_mismatch_outside_c03_scope"),
        }
    }
    let TickResult::Committed(c) = &obs.result else {
        ctx.hit("reach.engine_tick_without_receipt");
        return Ok(());
    };
    // Own statement of the witness law, independent of the helper above.
    for (i, (e, bl)) in c.receipt.entries.iter().zip(&c.receipt.blocked_by).enumerate() {
        if e.3 && !bl.is_empty() {
            return Err(Outcome::violation("engine_receipt:applied_entry_has_blockers", format!("entry {i} applied with blockers {bl:?}")));
        }
        if !e.3 {
            ctx.hit("reach.engine_rejected_with_blockers");
            let exp = reference.blockers.get(i).cloned().unwrap_or_default();
            if *bl != exp {
                return Err(Outcome::violation("engine_receipt:blockers", format!("entry {i}: engine blockers {bl:?}, reference {exp:?}")));
            }
            if bl.len() > 1 {
                ctx.hit("reach.engine_multiple_blockers");
            }
        }
    }
    let Some(engine) = obs.engine.as_ref() else { return Ok(()) };
    let Some((_, receipt, _)) = engine.get_ledger().last() else {
        return Err(Outcome::violation("harness:ledger_empty", "engine committed but the ledger holds no receipt"));
    };
    let entries: Vec<TickReceiptEntry> = receipt.entries().to_vec();
    let blocked: Vec<Vec<u32>> = (0..entries.len()).map(|i| receipt.blocked_by(i).to_vec()).collect();
    match TickReceipt::try_from_retained_parts(receipt.tx(), entries, blocked) {
        Ok(r) => {
            if r != *receipt {
                return Err(Outcome::violation("receipt_parts_altered", "engine receipt rebuilt from its parts differs (entries, blockers or digest)"));
            }
        }
        Err(e) => return Err(Outcome::violation("receipt_parts_rejected", format!("engine receipt parts rejected: {e}"))),
    }
    Ok(())
}
