//! C20 surface 4: `FilesystemWscStore` through `WscStorePort` — stage → crash → reopen → commit,
//! torn envelope / marker files, leftover temp files of `write_atomic`.
//!
//! Reference: an envelope is *published* iff its envelope file is byte-identical to
//! `WscStoreEnvelope::encode()` and its commit-marker file is byte-identical to the marker a
//! pristine twin store wrote for the same envelope. Published ⇒ `read_envelope` returns exactly
//! that envelope and `list_envelopes` contains it; anything else ⇒ typed obstruction, never
//! content; no marker ⇒ not listed.

use std::collections::{BTreeMap, BTreeSet};
use std::fs;
use std::path::{Path, PathBuf};

use serde::{Deserialize, Serialize};
use warp_core::wsc::types::{AttRow, NodeRow, Range};
use warp_core::wsc::{
    write_wsc_one_warp, FilesystemWscStore, OneWarpInput, WscStoreEnvelope, WscStoreEnvelopeId, WscStoreObstruction,
    WscStorePort, WscStoreRecordKind, WscStoreWriteReceipt,
};

use super::panic_class;
use crate::kernel::{catch, Outcome, Rng, RunCtx, Tier};

#[derive(Clone, Copy, Debug, Serialize, Deserialize, PartialEq, Eq)]
pub struct EnvSpec {
    pub kind: u8,
    pub basis: u8,
    pub tick: u8,
    /// Attachment payload length in units of 8 bytes.
    pub payload8: u8,
}

impl EnvSpec {
    pub fn build(&self) -> Result<WscStoreEnvelope, String> {
        let n = usize::from(self.payload8) * 8;
        let payload: Vec<u8> = (0..n).map(|i| (i as u8).wrapping_mul(13) ^ self.basis).collect();
        let has_att = n > 0;
        let input = OneWarpInput {
            warp_id: [1; 32],
            root_node_id: [2; 32],
            nodes: vec![NodeRow { node_id: [2; 32], node_type: [3; 32] }],
            edges: vec![],
            out_index: vec![Range::default()],
            out_edges: vec![],
            node_atts_index: vec![if has_att { Range { start_le: 0u64.to_le(), len_le: 1u64.to_le() } } else { Range::default() }],
            node_atts: if has_att {
                vec![AttRow { tag: AttRow::TAG_ATOM, reserved0: [0; 7], type_or_warp: [4; 32], blob_off_le: 0u64.to_le(), blob_len_le: (n as u64).to_le() }]
            } else {
                vec![]
            },
            edge_atts_index: vec![],
            edge_atts: vec![],
            blobs: payload,
        };
        let bytes = write_wsc_one_warp(&input, [8; 32], u64::from(self.tick)).map_err(|e| format!("write_wsc_one_warp: {e}"))?;
        let kind = match self.kind % 3 {
            0 => WscStoreRecordKind::Snapshot,
            1 => WscStoreRecordKind::CausalHistory,
            _ => WscStoreRecordKind::RetainedEvidence,
        };
        WscStoreEnvelope::validated(kind, [self.basis; 32], bytes).map_err(|o| format!("validated: {:?}", o.kind))
    }
}

#[derive(Clone, Debug, Serialize, Deserialize, PartialEq, Eq)]
pub enum Tear {
    Truncate(u32),
    Flip { pos: u32, mask: u8 },
    Extend(u8),
    Garbage(u8),
    /// Valid bytes of another pool envelope (or its marker) under this id's path.
    Other(usize),
}

#[derive(Clone, Debug, Serialize, Deserialize, PartialEq, Eq)]
pub enum WscOp {
    Write(usize),
    Stage(usize),
    Commit(usize),
    Read(usize),
    List,
    /// Process death: drop the store handle, reopen on the same directory.
    Crash,
    TearEnvelope { e: usize, how: Tear },
    TearMarker { e: usize, how: Tear },
    DeleteEnvelope(usize),
    DeleteMarker(usize),
    /// Crash inside `write_atomic` between temp write and rename.
    LeftoverTemp { e: usize, marker: bool, keep: u32 },
}

#[derive(Clone, Debug, Serialize, Deserialize)]
pub struct WscStoreScenario {
    pub pool: Vec<EnvSpec>,
    pub ops: Vec<WscOp>,
}

#[derive(Clone, Copy, Debug, PartialEq, Eq)]
enum FileState {
    Absent,
    Intact,
    Damaged,
}

enum Done {
    Staged(WscStoreEnvelopeId),
    Written(WscStoreWriteReceipt),
}

struct Item {
    env: WscStoreEnvelope,
    id: WscStoreEnvelopeId,
    env_bytes: Vec<u8>,
    marker_bytes: Vec<u8>,
}

type V = (String, String);

fn v(class: &str, detail: String) -> V {
    (class.to_owned(), detail)
}

fn classify(path: &Path, reference: &[u8]) -> FileState {
    match fs::read(path) {
        Ok(b) if b == reference => FileState::Intact,
        Ok(_) => FileState::Damaged,
        Err(e) if e.kind() == std::io::ErrorKind::NotFound => FileState::Absent,
        Err(_) => FileState::Damaged,
    }
}

fn sid(id: &WscStoreEnvelopeId) -> String {
    hex::encode(&id.as_hash()[..6])
}

fn obs_kind(o: &WscStoreObstruction) -> String {
    format!("{:?}", o.kind)
}

struct Run {
    root: PathBuf,
    store: FilesystemWscStore,
    items: Vec<Item>,
    receipts: BTreeMap<WscStoreEnvelopeId, WscStoreWriteReceipt>,
    temps: u64,
}

impl Run {
    fn states(&self, it: &Item) -> (FileState, FileState) {
        (classify(&self.store.envelope_path(it.id), &it.env_bytes), classify(&self.store.commit_marker_path(it.id), &it.marker_bytes))
    }

    fn sweep(&self, ctx: &mut RunCtx) -> Result<(), V> {
        let mut must_list: BTreeSet<WscStoreEnvelopeId> = BTreeSet::new();
        let mut may_list: BTreeSet<WscStoreEnvelopeId> = BTreeSet::new();
        let mut staged: BTreeSet<WscStoreEnvelopeId> = BTreeSet::new();
        for it in &self.items {
            let (es, ms) = self.states(it);
            let r = catch(|| self.store.read_envelope(it.id)).map_err(|p| v(&panic_class("read_envelope"), p))?;
            match (&r, es, ms) {
                (Ok(x), _, _) if *x != it.env => {
                    let class = if es == FileState::Damaged { "torn_envelope_not_obstructed" } else { "wrong_envelope_returned" };
                    return Err(v(class, format!("read_envelope({}) returned a different envelope (files {es:?}/{ms:?})", sid(&it.id))));
                }
                (Ok(_), FileState::Intact, FileState::Intact) => {}
                (Ok(_), FileState::Damaged, _) => return Err(v("torn_envelope_not_obstructed", format!("read_envelope({}) returned Ok although the envelope file is damaged (marker {ms:?})", sid(&it.id)))),
                (Ok(_), _, FileState::Damaged) => return Err(v("torn_marker_not_obstructed", format!("read_envelope({}) returned Ok although the commit marker is damaged", sid(&it.id)))),
                (Ok(_), FileState::Intact, FileState::Absent) => return Err(v("staged_envelope_visible", format!("read_envelope({}) returned the envelope although no commit marker exists", sid(&it.id)))),
                (Ok(_), _, _) => return Err(v("phantom_envelope", format!("read_envelope({}) returned Ok with files {es:?}/{ms:?}", sid(&it.id)))),
                (Err(o), FileState::Intact, FileState::Intact) => {
                    let class = if self.temps > 0 { "temp_file_broke_op" } else { "committed_envelope_not_returned" };
                    return Err(v(class, format!("read_envelope({}) = {} although envelope and marker files are intact", sid(&it.id), obs_kind(o))));
                }
                (Err(o), _, _) => {
                    ctx.hit(&format!("reach.obstruction.{}", obs_kind(o)));
                }
            }
            if es == FileState::Intact && ms == FileState::Intact {
                must_list.insert(it.id);
            }
            if ms != FileState::Absent {
                may_list.insert(it.id);
            } else if es != FileState::Absent {
                staged.insert(it.id);
            }
        }
        // Store-level recovery over the listing: a published envelope (intact commit marker) whose
        // material is missing or damaged must obstruct the recovery, never shrink its result.
        let lost: Vec<String> = self
            .items
            .iter()
            .filter(|it| {
                let (es, ms) = self.states(it);
                ms == FileState::Intact && es != FileState::Intact
            })
            .map(|it| sid(&it.id))
            .collect();
        let rec = catch(|| warp_core::wsc::retention_records_from_wsc_store(&self.store)).map_err(|p| v(&panic_class("retention_records_from_wsc_store"), p))?;
        match (&rec, lost.is_empty()) {
            (Ok(_), false) => {
                return Err(v("recovery_complete_despite_missing_material", format!("retention_records_from_wsc_store returned Ok although the published envelopes {lost:?} have no intact material file")));
            }
            (Err(o), false) => ctx.hit(&format!("reach.store_recovery_obstructed.{}", obs_kind(o))),
            (Ok(_), true) => ctx.hit("reach.store_recovery_ok"),
            (Err(_), true) => ctx.hit("reach.store_recovery_obstructed_for_other_reasons"),
        }
        let l = catch(|| self.store.list_envelopes()).map_err(|p| v(&panic_class("list_envelopes"), p))?;
        if l.windows(2).any(|w| w[0] >= w[1]) {
            return Err(v("list_not_sorted", "list_envelopes() is not strictly ascending".to_owned()));
        }
        for id in &must_list {
            if !l.contains(id) {
                return Err(v("committed_envelope_not_listed", format!("list_envelopes() misses published {}", sid(id))));
            }
        }
        for id in &l {
            if staged.contains(id) {
                return Err(v("staged_envelope_visible", format!("list_envelopes() contains {} which has no commit marker", sid(id))));
            }
            if !may_list.contains(id) {
                let class = if self.temps > 0 { "temp_file_became_visible" } else { "phantom_envelope" };
                return Err(v(class, format!("list_envelopes() contains {} which has no commit marker file", sid(id))));
            }
        }
        Ok(())
    }
}

fn tear_bytes(cur: Option<Vec<u8>>, how: &Tear, other: Option<&[u8]>) -> Option<Vec<u8>> {
    match how {
        Tear::Truncate(k) => {
            let b = cur?;
            if b.is_empty() {
                return None;
            }
            Some(b[..(*k as usize % b.len())].to_vec())
        }
        Tear::Flip { pos, mask } => {
            let mut b = cur?;
            if b.is_empty() {
                return None;
            }
            let p = *pos as usize % b.len();
            b[p] ^= if *mask == 0 { 1 } else { *mask };
            Some(b)
        }
        Tear::Extend(n) => {
            let mut b = cur?;
            b.extend(std::iter::repeat(0xEE).take(usize::from(*n).max(1)));
            Some(b)
        }
        Tear::Garbage(n) => Some((0..usize::from(*n)).map(|i| (i as u8).wrapping_mul(97) ^ 0x5A).collect()),
        Tear::Other(_) => other.map(<[u8]>::to_vec),
    }
}

impl WscStoreScenario {
    pub fn generate(rng: &mut Rng, tier: Tier) -> Self {
        let np = rng.urange(1, 4);
        let mut pool: Vec<EnvSpec> = (0..np)
            .map(|_| EnvSpec { kind: rng.below(3) as u8, basis: rng.below(3) as u8, tick: rng.below(3) as u8, payload8: *rng.pick(&[0u8, 0, 1, 2, 8, 25]) })
            .collect();
        if np >= 2 && rng.chance(1, 5) {
            pool[1] = pool[0];
        }
        let max_ops = if tier == Tier::Thorough && rng.chance(1, 4) { 40 } else { 20 };
        let n_ops = rng.urange(3, max_ops);
        let mut w: [u32; 11] = [4, 5, 5, 3, 2, 4, 3, 3, 1, 1, 3];
        for x in w.iter_mut() {
            if rng.chance(1, 5) {
                *x = 0;
            }
        }
        if w[0] + w[1] == 0 {
            w[1] = 4;
        }
        let mut ops = Vec::with_capacity(n_ops);
        let gen_tear = |rng: &mut Rng, np: usize| -> Tear {
            match rng.below(6) {
                0 => Tear::Truncate(match rng.below(4) {
                    0 => 0,
                    1 => 123,
                    2 => 124,
                    _ => rng.below(400) as u32,
                }),
                1 | 2 => Tear::Flip { pos: if rng.chance(1, 2) { rng.below(124) as u32 } else { rng.below(600) as u32 }, mask: *rng.pick(&[1u8, 0x80, 0xFF]) },
                3 => Tear::Extend(rng.range(1, 9) as u8),
                4 => Tear::Garbage(*rng.pick(&[0u8, 13, 188, 200])),
                _ => Tear::Other(rng.usize_below(np)),
            }
        };
        for i in 0..n_ops {
            let e = rng.usize_below(np);
            let k = if i == 0 { rng.weighted(&[w[0], w[1]]) } else { rng.weighted(&w) };
            ops.push(match k {
                0 => WscOp::Write(e),
                1 => WscOp::Stage(e),
                2 => WscOp::Commit(e),
                3 => WscOp::Read(e),
                4 => WscOp::List,
                5 => WscOp::Crash,
                6 => WscOp::TearEnvelope { e, how: gen_tear(rng, np) },
                7 => WscOp::TearMarker { e, how: gen_tear(rng, np) },
                8 => WscOp::DeleteEnvelope(e),
                9 => WscOp::DeleteMarker(e),
                _ => WscOp::LeftoverTemp { e, marker: rng.chance(1, 2), keep: rng.below(500) as u32 },
            });
        }
        WscStoreScenario { pool, ops }
    }

    pub fn shrink(&self) -> Vec<Self> {
        let mut out = Vec::new();
        for i in 0..self.ops.len() {
            let mut s = self.clone();
            s.ops.remove(i);
            out.push(s);
        }
        for i in 0..self.pool.len() {
            if self.pool[i].payload8 > 0 {
                let mut s = self.clone();
                s.pool[i].payload8 = 0;
                out.push(s);
            }
        }
        if self.pool.len() > 1 {
            for r in 0..self.pool.len() {
                let mut s = self.clone();
                let np = s.pool.len();
                let mut used = false;
                for op in s.ops.iter_mut() {
                    let mut xs: Vec<&mut usize> = Vec::new();
                    match op {
                        WscOp::Write(e) | WscOp::Stage(e) | WscOp::Commit(e) | WscOp::Read(e) | WscOp::DeleteEnvelope(e) | WscOp::DeleteMarker(e) | WscOp::LeftoverTemp { e, .. } => xs.push(e),
                        WscOp::TearEnvelope { e, how } | WscOp::TearMarker { e, how } => {
                            xs.push(e);
                            if let Tear::Other(j) = how {
                                xs.push(j);
                            }
                        }
                        WscOp::List | WscOp::Crash => {}
                    }
                    for x in xs {
                        *x %= np;
                        if *x == r {
                            used = true;
                        } else if *x > r {
                            *x -= 1;
                        }
                    }
                }
                if !used {
                    s.pool.remove(r);
                    out.push(s);
                }
            }
        }
        out
    }

    pub fn execute(&self, ctx: &mut RunCtx) -> (Outcome, bool) {
        if self.pool.is_empty() {
            return (Outcome::Ok, false);
        }
        let scratch = ctx.scratch_dir();
        let root = scratch.join("wsc");
        let twin_root = scratch.join("wsc-twin");

        // Reference encodings from a pristine twin store.
        let mut twin = match catch(|| FilesystemWscStore::open(&twin_root)) {
            Ok(Ok(s)) => s,
            Ok(Err(o)) => return (Outcome::violation("open_failed", obs_kind(&o)), false),
            Err(p) => return (Outcome::violation(panic_class("wsc_open"), p), false),
        };
        let mut items: Vec<Item> = Vec::new();
        for spec in &self.pool {
            let env = match catch(|| spec.build()) {
                Ok(Ok(e)) => e,
                Ok(Err(e)) => return (Outcome::violation("harness_envelope_invalid", format!("{spec:?}: {e}")), false),
                Err(p) => return (Outcome::violation(panic_class("envelope_build"), p), false),
            };
            let id = env.id();
            if items.iter().any(|it| it.id == id) {
                // identical envelope twice in the pool: same id
                let prev = items.iter().find(|it| it.id == id).map(|it| (it.env.clone(), it.env_bytes.clone(), it.marker_bytes.clone()));
                if let Some((e, eb, mb)) = prev {
                    if e != env {
                        return (Outcome::violation("envelope_id_collision", format!("two different envelopes share id {}", sid(&id))), true);
                    }
                    items.push(Item { env, id, env_bytes: eb, marker_bytes: mb });
                }
                continue;
            }
            match catch(|| twin.write_envelope(env.clone())) {
                Ok(Ok(_)) => {}
                Ok(Err(o)) => return (Outcome::violation("op_failed_without_fault", format!("twin write_envelope: {}", obs_kind(&o))), false),
                Err(p) => return (Outcome::violation(panic_class("write_envelope"), p), false),
            }
            let env_bytes = env.encode();
            let marker_bytes = fs::read(twin.commit_marker_path(id)).unwrap_or_default();
            if fs::read(twin.envelope_path(id)).ok().as_deref() != Some(env_bytes.as_slice()) || marker_bytes.is_empty() {
                return (Outcome::violation("written_files_not_canonical", format!("twin store files for {} do not match encode()", sid(&id))), false);
            }
            items.push(Item { env, id, env_bytes, marker_bytes });
        }
        let n = items.len();
        let store = match catch(|| FilesystemWscStore::open(&root)) {
            Ok(Ok(s)) => s,
            Ok(Err(o)) => return (Outcome::violation("open_failed", obs_kind(&o)), false),
            Err(p) => return (Outcome::violation(panic_class("wsc_open"), p), false),
        };
        let mut run = Run { root, store, items, receipts: BTreeMap::new(), temps: 0 };
        let mut faults = 0u64;
        let mut special = false;

        macro_rules! bail {
            ($class:expr, $($fmt:tt)*) => {
                return (Outcome::violation($class, format!($($fmt)*)), faults > 0 || special)
            };
        }
        if let Err((c, d)) = run.sweep(ctx) {
            bail!(c, "fresh store: {d}");
        }

        for (i, op) in self.ops.iter().enumerate() {
            ctx.count("time.ops", 1);
            match op {
                WscOp::Write(e) | WscOp::Stage(e) | WscOp::Commit(e) => {
                    let it = &run.items[*e % n];
                    let (id, env) = (it.id, it.env.clone());
                    let (es, ms) = run.states(it);
                    let clean = es != FileState::Damaged && ms != FileState::Damaged;
                    // Ok(Written(receipt)) for write/commit, Ok(Staged(id)) for stage
                    let r: Result<Result<Done, WscStoreObstruction>, String> = match op {
                        WscOp::Write(_) => catch(|| run.store.write_envelope(env).map(Done::Written)),
                        WscOp::Stage(_) => catch(|| run.store.stage_envelope_without_commit_marker(env).map(Done::Staged)),
                        _ => catch(|| run.store.commit_staged_envelope(id).map(Done::Written)),
                    };
                    let r = match r {
                        Ok(r) => r,
                        Err(p) => bail!(panic_class("wsc_write"), "op#{i} {op:?}: {p}"),
                    };
                    let must_ok = clean && (matches!(op, WscOp::Write(_) | WscOp::Stage(_)) || es == FileState::Intact);
                    let must_err = clean && matches!(op, WscOp::Commit(_)) && es == FileState::Absent;
                    match r {
                        Ok(done) => {
                            if must_err {
                                bail!("commit_without_staged_envelope_ok", "op#{i} {op:?}: commit of {} succeeded although no envelope file exists", sid(&id));
                            }
                            if let Done::Staged(rid) = done {
                                if rid != id {
                                    bail!("stage_returned_wrong_id", "op#{i} {op:?}: stage returned a different envelope id");
                                }
                            } else if let Done::Written(rc) = done {
                                let it = &run.items[*e % n];
                                if rc.envelope_id != id || rc.wsc_digest != *it.env.wsc_digest() || rc.encoded_len != it.env_bytes.len() as u64 {
                                    bail!("receipt_mismatch", "op#{i} {op:?}: receipt {rc:?} does not describe envelope {}", sid(&id));
                                }
                                if let Some(prev) = run.receipts.get(&id) {
                                    special = true;
                                    ctx.hit("reach.idempotent_write");
                                    if *prev != rc {
                                        bail!("write_not_idempotent", "op#{i} {op:?}: receipt differs from the earlier receipt of the same envelope");
                                    }
                                }
                                run.receipts.insert(id, rc);
                            }
                            if es == FileState::Intact && matches!(op, WscOp::Stage(_) | WscOp::Write(_)) {
                                special = true;
                                ctx.hit("reach.idempotent_stage");
                            }
                            ctx.trace(&[1]);
                            ctx.trace(&id.as_hash());
                        }
                        Err(o) => {
                            if must_ok {
                                let class = if run.temps > 0 { "temp_file_broke_op" } else { "op_failed_without_fault" };
                                bail!(class, "op#{i} {op:?}: failed with {} although files are {es:?}/{ms:?}", obs_kind(&o));
                            }
                            ctx.hit(&format!("reach.write_obstruction.{}", obs_kind(&o)));
                            ctx.trace_str(&obs_kind(&o));
                        }
                    }
                    // post-state of an op that was required to succeed
                    if must_ok {
                        let it = &run.items[*e % n];
                        let (es2, ms2) = run.states(it);
                        let want_marker = !matches!(op, WscOp::Stage(_));
                        if es2 != FileState::Intact || (want_marker && ms2 != FileState::Intact) {
                            bail!("write_ok_but_files_wrong", "op#{i} {op:?}: after Ok the files are {es2:?}/{ms2:?}");
                        }
                        if !want_marker && ms2 != ms {
                            bail!("stage_touched_marker", "op#{i} {op:?}: marker state changed {ms:?} -> {ms2:?}");
                        }
                    }
                }
                WscOp::Read(e) => {
                    let id = run.items[*e % n].id;
                    match catch(|| run.store.read_envelope(id)) {
                        Ok(Ok(env)) => {
                            ctx.trace(&[2]);
                            ctx.trace(env.wsc_digest());
                        }
                        Ok(Err(o)) => ctx.trace_str(&obs_kind(&o)),
                        Err(p) => bail!(panic_class("read_envelope"), "op#{i} {op:?}: {p}"),
                    }
                }
                WscOp::List => match catch(|| run.store.list_envelopes()) {
                    Ok(l) => ctx.trace(&(l.len() as u32).to_le_bytes()),
                    Err(p) => bail!(panic_class("list_envelopes"), "op#{i}: {p}"),
                },
                WscOp::Crash => {
                    let staged = run.items.iter().any(|it| matches!(run.states(it), (FileState::Intact, FileState::Absent)));
                    match catch(|| FilesystemWscStore::open(&run.root)) {
                        Ok(Ok(s)) => run.store = s,
                        Ok(Err(o)) => bail!("reopen_failed", "op#{i}: {}", obs_kind(&o)),
                        Err(p) => bail!(panic_class("wsc_reopen"), "op#{i}: {p}"),
                    }
                    ctx.hit("reach.reopen");
                    if staged {
                        ctx.hit("fault.crash_before_commit_marker");
                        faults += 1;
                    }
                    ctx.trace(&[3]);
                }
                WscOp::TearEnvelope { e, how } | WscOp::TearMarker { e, how } => {
                    let marker = matches!(op, WscOp::TearMarker { .. });
                    let it = &run.items[*e % n];
                    let path = if marker { run.store.commit_marker_path(it.id) } else { run.store.envelope_path(it.id) };
                    let other: Option<Vec<u8>> = match how {
                        Tear::Other(j) => {
                            let o = &run.items[*j % n];
                            Some(if marker { o.marker_bytes.clone() } else { o.env_bytes.clone() })
                        }
                        _ => None,
                    };
                    let cur = fs::read(&path).ok();
                    if let Some(newb) = tear_bytes(cur.clone(), how, other.as_deref()) {
                        if cur.as_ref() != Some(&newb) && fs::write(&path, &newb).is_ok() {
                            let reference = if marker { &it.marker_bytes } else { &it.env_bytes };
                            if cur.as_ref() == Some(reference) || newb != *reference {
                                ctx.hit(if marker { "fault.torn_marker" } else { "fault.torn_envelope" });
                                faults += 1;
                            }
                            ctx.trace(&[4, u8::from(marker)]);
                        }
                    }
                }
                WscOp::DeleteEnvelope(e) | WscOp::DeleteMarker(e) => {
                    let marker = matches!(op, WscOp::DeleteMarker(_));
                    let it = &run.items[*e % n];
                    let path = if marker { run.store.commit_marker_path(it.id) } else { run.store.envelope_path(it.id) };
                    if fs::remove_file(&path).is_ok() {
                        ctx.hit("fault.delete");
                        faults += 1;
                        ctx.trace(&[5, u8::from(marker)]);
                    }
                }
                WscOp::LeftoverTemp { e, marker, keep } => {
                    let it = &run.items[*e % n];
                    let (path, bytes) = if *marker { (run.store.commit_marker_path(it.id), &it.marker_bytes) } else { (run.store.envelope_path(it.id), &it.env_bytes) };
                    // write_atomic's temp name: final path with the last extension replaced by "tmp"
                    let temp = path.with_extension("tmp");
                    let k = *keep as usize % (bytes.len() + 1);
                    if fs::write(&temp, &bytes[..k]).is_ok() {
                        run.temps += 1;
                        ctx.hit("fault.leftover_temp");
                        faults += 1;
                        ctx.trace(&[6, u8::from(*marker)]);
                    }
                }
            }
            if let Err((c, d)) = run.sweep(ctx) {
                bail!(c, "after op#{i} {op:?}: {d}");
            }
        }
        (Outcome::Ok, faults > 0 || special)
    }
}
