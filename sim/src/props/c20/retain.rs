//! C20 surface 3: `RetainedBlobIndex` over colliding / distinct semantic coordinates, byte ranges
//! and budgets, on `MemoryTier` and on the simulator-owned `EvictingBlobStore`.

use std::collections::{BTreeMap, BTreeSet};
use std::sync::Arc;

use echo_cas::{
    BlobHash, BlobStore, CasError, MemoryTier, RetainedBlobIndex, RetainedBlobRole, RetentionError, SemanticBlobCoordinate,
};
use serde::{Deserialize, Serialize};

use super::{blake, gen_pool, panic_class, short, BlobSpec};
use crate::kernel::{catch, Outcome, Rng, RunCtx, Tier};

type H = [u8; 32];

/// A semantic coordinate over a tiny alphabet chosen so that field-wise distinct coordinates have
/// equal concatenations ("contract:a" + ":00" vs "contract:a:" + "00").
#[derive(Clone, Copy, Debug, Serialize, Deserialize, PartialEq, Eq, PartialOrd, Ord)]
pub struct CoordSpec {
    pub ns: u8,
    pub schema: u8,
    pub artifact: u8,
    pub role: u8,
    pub digest: u8,
}

const NS: [&str; 3] = ["contract:a", "contract:a:", "contract:b"];
const SCHEMA: [&str; 3] = [":00", "00", "0"];
const ARTIFACT: [&str; 2] = ["aa", "ab"];
const ROLES: [RetainedBlobRole; 6] = [
    RetainedBlobRole::ContractArtifact,
    RetainedBlobRole::ContractReceipt,
    RetainedBlobRole::Witness,
    RetainedBlobRole::ReadingPayload,
    RetainedBlobRole::ReadingEnvelope,
    RetainedBlobRole::ObserverArtifact,
];

impl CoordSpec {
    fn norm(self) -> CoordSpec {
        CoordSpec { ns: self.ns % 3, schema: self.schema % 3, artifact: self.artifact % 2, role: self.role % 6, digest: self.digest % 3 }
    }
    fn real(self) -> SemanticBlobCoordinate {
        let n = self.norm();
        let mut d = [0u8; 32];
        match n.digest {
            0 => {}
            1 => d = [1; 32],
            _ => d[31] = 1,
        }
        SemanticBlobCoordinate {
            namespace: NS[usize::from(n.ns)].to_owned(),
            schema_hash_hex: SCHEMA[usize::from(n.schema)].to_owned(),
            artifact_hash_hex: ARTIFACT[usize::from(n.artifact)].to_owned(),
            role: ROLES[usize::from(n.role)],
            semantic_digest: d,
        }
    }
}

#[derive(Clone, Debug, Serialize, Deserialize, PartialEq, Eq)]
pub enum StoreKind {
    Memory,
    Evicting,
}

#[derive(Clone, Debug, Serialize, Deserialize, PartialEq, Eq)]
pub enum RetainOp {
    Retain { c: usize, b: usize },
    Load { c: usize },
    LoadRange { c: usize, offset: u64, len: u64, max: u64 },
    LoadByHash { b: usize },
    /// Put content into the store without indexing it (unpinned content).
    PutLoose { b: usize },
    /// The caller drops the retention root of a content hash.
    Unpin { b: usize },
    /// Evicting store: lose every unpinned blob.
    EvictUnpinned,
    /// Evicting store: lose this blob even if pinned.
    EvictPinned { b: usize },
}

#[derive(Clone, Debug, Serialize, Deserialize)]
pub struct RetainScenario {
    pub store: StoreKind,
    pub pool: Vec<BlobSpec>,
    pub coords: Vec<CoordSpec>,
    pub ops: Vec<RetainOp>,
}

/// Simulator-owned honest store that can lose blobs.
#[derive(Default)]
pub struct EvictingBlobStore {
    blobs: BTreeMap<H, Vec<u8>>,
    pins: BTreeSet<H>,
}

impl EvictingBlobStore {
    fn evict_unpinned(&mut self) -> usize {
        let before = self.blobs.len();
        let pins = &self.pins;
        self.blobs.retain(|h, _| pins.contains(h));
        before - self.blobs.len()
    }
    fn evict(&mut self, h: &H) -> bool {
        self.blobs.remove(h).is_some()
    }
}

impl BlobStore for EvictingBlobStore {
    fn put(&mut self, bytes: &[u8]) -> BlobHash {
        let h = blake(bytes);
        self.blobs.entry(h).or_insert_with(|| bytes.to_vec());
        BlobHash::from_bytes(h)
    }
    fn put_verified(&mut self, expected: BlobHash, bytes: &[u8]) -> Result<(), CasError> {
        let h = blake(bytes);
        if h != *expected.as_bytes() {
            return Err(CasError::HashMismatch { expected, computed: BlobHash::from_bytes(h) });
        }
        self.blobs.entry(h).or_insert_with(|| bytes.to_vec());
        Ok(())
    }
    fn get(&self, hash: &BlobHash) -> Option<Arc<[u8]>> {
        self.blobs.get(hash.as_bytes()).map(|b| Arc::from(b.as_slice()))
    }
    fn has(&self, hash: &BlobHash) -> bool {
        self.blobs.contains_key(hash.as_bytes())
    }
    fn pin(&mut self, hash: &BlobHash) {
        self.pins.insert(*hash.as_bytes());
    }
    fn unpin(&mut self, hash: &BlobHash) {
        self.pins.remove(hash.as_bytes());
    }
}

enum Store {
    Mem(MemoryTier, BTreeSet<H>),
    Ev(EvictingBlobStore),
}

impl Store {
    fn present(&self, h: &H) -> bool {
        match self {
            Store::Mem(_, put) => put.contains(h),
            Store::Ev(e) => e.blobs.contains_key(h),
        }
    }
}

fn err_tag(e: &RetentionError) -> &'static str {
    match e {
        RetentionError::MissingSemanticCoordinate { .. } => "missing_coordinate",
        RetentionError::MissingBlob { .. } => "missing_blob",
        RetentionError::RangeExceedsBudget { .. } => "range_exceeds_budget",
        RetentionError::RangeOutOfBounds { .. } => "range_out_of_bounds",
        RetentionError::SemanticCoordinateConflict { .. } => "coordinate_conflict",
    }
}

type V = (String, String);

fn v(class: &str, detail: String) -> V {
    (class.to_owned(), detail)
}

struct Run {
    index: RetainedBlobIndex,
    store: Store,
    /// Reference: coordinate → (content hash, content).
    refidx: BTreeMap<CoordSpec, (H, Vec<u8>)>,
}

macro_rules! with_store {
    ($store:expr, $s:ident => $body:expr) => {
        match $store {
            Store::Mem($s, _) => $body,
            Store::Ev($s) => $body,
        }
    };
}

impl Run {
    /// Every coordinate of the scenario must resolve exactly as the reference says.
    fn sweep(&self, coords: &[CoordSpec], ctx: &mut RunCtx) -> Result<(), V> {
        for c in coords {
            let c = c.norm();
            let real = c.real();
            let got = catch(|| with_store!(&self.store, s => self.index.load(s, &real))).map_err(|p| v(&panic_class("load"), p))?;
            let desc = self.index.descriptor(&real).cloned();
            match self.refidx.get(&c) {
                None => {
                    if let Ok(b) = &got {
                        return Err(v("coordinate_alias", format!("coordinate {c:?} was never retained but load returned {} bytes", b.bytes.len())));
                    }
                    if desc.is_some() {
                        return Err(v("coordinate_alias", format!("coordinate {c:?} was never retained but has a descriptor")));
                    }
                }
                Some((h, bytes)) => {
                    match &desc {
                        Some(d) if d.coordinate == real && d.content_hash.as_bytes() == h && d.byte_len == bytes.len() as u64 => {}
                        other => return Err(v("descriptor_mismatch", format!("coordinate {c:?}: descriptor {other:?}, expected hash {} len {}", short(h), bytes.len()))),
                    }
                    match got {
                        Ok(b) => {
                            if b.bytes.as_ref() != bytes.as_slice() {
                                let other = self.refidx.iter().any(|(k, (_, ob))| *k != c && ob.as_slice() == b.bytes.as_ref());
                                let class = if other { "coordinate_alias" } else { "wrong_bytes_returned" };
                                return Err(v(class, format!("coordinate {c:?}: load returned {} bytes hashing to {}, expected {}", b.bytes.len(), short(&blake(&b.bytes)), short(h))));
                            }
                            if Some(&b.descriptor) != desc.as_ref() {
                                return Err(v("descriptor_mismatch", format!("coordinate {c:?}: load descriptor differs from descriptor()")));
                            }
                        }
                        Err(e) => {
                            if self.store.present(h) {
                                return Err(v("retained_blob_not_returned", format!("coordinate {c:?}: content {} is present in the store but load failed: {}", short(h), err_tag(&e))));
                            }
                            ctx.hit("reach.load_typed_error_after_evict");
                        }
                    }
                }
            }
        }
        Ok(())
    }
}

impl RetainScenario {
    pub fn generate(rng: &mut Rng, tier: Tier) -> Self {
        let store = if rng.chance(3, 5) { StoreKind::Evicting } else { StoreKind::Memory };
        let pool = gen_pool(rng, 2, 6);
        let np = pool.len();
        // coordinates: a base and single-field variants, so that near-collisions dominate
        let base = CoordSpec { ns: rng.below(3) as u8, schema: rng.below(3) as u8, artifact: rng.below(2) as u8, role: rng.below(6) as u8, digest: rng.below(3) as u8 };
        let nc = rng.urange(2, 6);
        let mut coords = vec![base];
        while coords.len() < nc {
            let mut c = *rng.pick(&coords);
            match rng.below(6) {
                0 => c.ns = rng.below(3) as u8,
                1 => c.schema = rng.below(3) as u8,
                2 => c.artifact = rng.below(2) as u8,
                3 => c.role = rng.below(6) as u8,
                4 => c.digest = rng.below(3) as u8,
                _ => {
                    // the concatenation-collision pair
                    c.ns = 1 - (c.ns % 2);
                    c.schema = 1 - (c.schema % 2);
                }
            }
            coords.push(c);
        }
        let max_ops = if tier == Tier::Thorough && rng.chance(1, 4) { 60 } else { 28 };
        let n_ops = rng.urange(3, max_ops);
        let mut w: [u32; 8] = [8, 5, 4, 2, 1, 2, 3, 2];
        for x in w.iter_mut().skip(1) {
            if rng.chance(1, 5) {
                *x = 0;
            }
        }
        if store == StoreKind::Memory {
            w[6] = 0;
            w[7] = 0;
        }
        let mut ops = Vec::with_capacity(n_ops);
        for i in 0..n_ops {
            let k = if i < 2 { 0 } else { rng.weighted(&w) };
            let c = rng.usize_below(coords.len());
            let b = rng.usize_below(np);
            ops.push(match k {
                0 => RetainOp::Retain { c, b },
                1 => RetainOp::Load { c },
                2 => {
                    let big = u64::from(pool[b].len);
                    let offset = match rng.below(6) {
                        0 => 0,
                        1 => big,
                        2 => big + 1,
                        3 => u64::MAX - rng.below(3),
                        _ => rng.below(big + 2),
                    };
                    let len = match rng.below(6) {
                        0 => 0,
                        1 => big,
                        2 => u64::MAX,
                        _ => rng.below(big + 3),
                    };
                    let max = match rng.below(4) {
                        0 => 0,
                        1 => len,
                        2 => len.saturating_sub(1),
                        _ => rng.below(300),
                    };
                    RetainOp::LoadRange { c, offset, len, max }
                }
                3 => RetainOp::LoadByHash { b },
                4 => RetainOp::PutLoose { b },
                5 => RetainOp::Unpin { b },
                6 => RetainOp::EvictUnpinned,
                _ => RetainOp::EvictPinned { b },
            });
        }
        RetainScenario { store, pool, coords, ops }
    }

    pub fn shrink(&self) -> Vec<Self> {
        let mut out = Vec::new();
        for i in 0..self.ops.len() {
            let mut s = self.clone();
            s.ops.remove(i);
            out.push(s);
        }
        for i in 0..self.pool.len() {
            if self.pool[i].len > 0 {
                let mut s = self.clone();
                s.pool[i].len /= 2;
                out.push(s);
            }
        }
        if self.store == StoreKind::Evicting {
            let mut s = self.clone();
            s.store = StoreKind::Memory;
            out.push(s);
        }
        // drop an unreferenced pool blob / coordinate
        if self.pool.len() > 1 {
            for r in 0..self.pool.len() {
                let mut s = self.clone();
                let np = s.pool.len();
                let mut used = false;
                for op in s.ops.iter_mut() {
                    let x = match op {
                        RetainOp::Retain { b, .. } | RetainOp::LoadByHash { b } | RetainOp::PutLoose { b } | RetainOp::Unpin { b } | RetainOp::EvictPinned { b } => b,
                        _ => continue,
                    };
                    *x %= np;
                    if *x == r {
                        used = true;
                    } else if *x > r {
                        *x -= 1;
                    }
                }
                if !used {
                    s.pool.remove(r);
                    out.push(s);
                }
            }
        }
        if self.coords.len() > 1 {
            for r in 0..self.coords.len() {
                let mut s = self.clone();
                let nc = s.coords.len();
                let mut used = false;
                for op in s.ops.iter_mut() {
                    let x = match op {
                        RetainOp::Retain { c, .. } | RetainOp::Load { c } | RetainOp::LoadRange { c, .. } => c,
                        _ => continue,
                    };
                    *x %= nc;
                    if *x == r {
                        used = true;
                    } else if *x > r {
                        *x -= 1;
                    }
                }
                if !used {
                    s.coords.remove(r);
                    out.push(s);
                }
            }
        }
        out
    }

    pub fn execute(&self, ctx: &mut RunCtx) -> (Outcome, bool) {
        if self.pool.is_empty() || self.coords.is_empty() {
            return (Outcome::Ok, false);
        }
        let pool: Vec<(H, Vec<u8>)> = self
            .pool
            .iter()
            .map(|b| {
                let bytes = b.bytes();
                (blake(&bytes), bytes)
            })
            .collect();
        let np = pool.len();
        let nc = self.coords.len();
        let mut run = Run {
            index: RetainedBlobIndex::default(),
            store: match self.store {
                StoreKind::Memory => Store::Mem(MemoryTier::new(), BTreeSet::new()),
                StoreKind::Evicting => Store::Ev(EvictingBlobStore::default()),
            },
            refidx: BTreeMap::new(),
        };
        let mut special = false;
        let mut evicted_any = false;
        let mut read_after_evict = false;

        macro_rules! bail {
            ($class:expr, $($fmt:tt)*) => {
                return (Outcome::violation($class, format!($($fmt)*)), special || evicted_any)
            };
        }

        for (i, op) in self.ops.iter().enumerate() {
            ctx.count("time.ops", 1);
            match op {
                RetainOp::Retain { c, b } => {
                    let cs = self.coords[*c % nc].norm();
                    let real = cs.real();
                    let (h, bytes) = &pool[*b % np];
                    let index_before = run.index.clone();
                    let r = {
                        let Run { index, store, .. } = &mut run;
                        catch(|| with_store!(store, s => index.retain(s, real.clone(), bytes)))
                    };
                    let r = match r {
                        Ok(r) => r,
                        Err(p) => bail!(panic_class("retain"), "op#{i} {op:?}: {p}"),
                    };
                    match run.refidx.get(&cs).cloned() {
                        None => match r {
                            Ok(d) => {
                                if d.coordinate != real || d.content_hash.as_bytes() != h || d.byte_len != bytes.len() as u64 {
                                    bail!("descriptor_mismatch", "op#{i} {op:?}: retain returned {d:?}");
                                }
                                if run.refidx.values().any(|(oh, _)| oh == h) {
                                    ctx.hit("reach.same_content_distinct_coordinates");
                                    special = true;
                                }
                                if !run.refidx.is_empty() {
                                    special = true;
                                }
                                run.refidx.insert(cs, (*h, bytes.clone()));
                                if let Store::Mem(_, put) = &mut run.store {
                                    put.insert(*h);
                                }
                                ctx.trace(&[1]);
                                ctx.trace(h);
                            }
                            Err(e) => bail!("retain_rejected", "op#{i} {op:?}: fresh coordinate rejected: {}", err_tag(&e)),
                        },
                        Some((oh, _)) if oh == *h => {
                            special = true;
                            ctx.hit("reach.idempotent_retain");
                            match r {
                                Ok(d) => {
                                    if d.coordinate != real || d.content_hash.as_bytes() != h || d.byte_len != bytes.len() as u64 {
                                        bail!("retain_not_idempotent", "op#{i} {op:?}: second retain returned {d:?}");
                                    }
                                    if run.index != index_before {
                                        bail!("retain_not_idempotent", "op#{i} {op:?}: index changed on re-retain of equal content");
                                    }
                                    if !run.store.present(h) && matches!(run.store, Store::Ev(_)) {
                                        bail!("retain_did_not_restore", "op#{i} {op:?}: re-retain returned Ok but the evicted content is still absent");
                                    }
                                    if let Store::Ev(_) = run.store {
                                        ctx.hit("reach.retain_restores_evicted");
                                    }
                                    ctx.trace(&[2]);
                                }
                                Err(e) => bail!("retain_not_idempotent", "op#{i} {op:?}: same coordinate + same content rejected: {}", err_tag(&e)),
                            }
                        }
                        Some((oh, _)) => {
                            special = true;
                            ctx.hit("reach.same_coordinate_different_content");
                            match r {
                                Ok(d) => bail!("same_coordinate_different_content_accepted", "op#{i} {op:?}: coordinate already names {} but retain of {} returned Ok({d:?})", short(&oh), short(h)),
                                Err(RetentionError::SemanticCoordinateConflict { coordinate, existing_content_hash, new_content_hash }) => {
                                    if *coordinate != real || *existing_content_hash.as_bytes() != oh || new_content_hash.as_bytes() != h {
                                        bail!("conflict_report_mismatch", "op#{i} {op:?}: conflict names wrong coordinate or hashes");
                                    }
                                }
                                Err(e) => {
                                    // any typed refusal satisfies the property; record which one
                                    ctx.trace_str(err_tag(&e));
                                }
                            }
                            if run.index != index_before {
                                bail!("rejected_retain_mutated_index", "op#{i} {op:?}: index changed by a rejected retain");
                            }
                            ctx.trace(&[3]);
                        }
                    }
                }
                RetainOp::Load { c } => {
                    // covered by the sweep below; trace the result for the determinism digest
                    let real = self.coords[*c % nc].norm().real();
                    let r = catch(|| with_store!(&run.store, s => run.index.load(s, &real)));
                    match r {
                        Ok(Ok(b)) => {
                            ctx.trace(&[4]);
                            ctx.trace(&b.bytes);
                        }
                        Ok(Err(e)) => ctx.trace_str(err_tag(&e)),
                        Err(p) => bail!(panic_class("load"), "op#{i} {op:?}: {p}"),
                    }
                    if evicted_any {
                        read_after_evict = true;
                    }
                }
                RetainOp::LoadRange { c, offset, len, max } => {
                    let cs = self.coords[*c % nc].norm();
                    let real = cs.real();
                    let r = catch(|| with_store!(&run.store, s => run.index.load_range(s, &real, *offset, *len, *max)));
                    let r = match r {
                        Ok(r) => r,
                        Err(p) => bail!(panic_class("load_range"), "op#{i} {op:?}: {p}"),
                    };
                    // reference: coordinate → content present → budget → bounds
                    let expect: Result<Vec<u8>, &'static str> = match run.refidx.get(&cs) {
                        None => Err("missing_coordinate"),
                        Some((h, _)) if !run.store.present(h) => Err("missing_blob"),
                        Some((_, bytes)) => {
                            if len > max {
                                Err("range_exceeds_budget")
                            } else {
                                match offset.checked_add(*len) {
                                    Some(end) if end <= bytes.len() as u64 => Ok(bytes[*offset as usize..end as usize].to_vec()),
                                    _ => Err("range_out_of_bounds"),
                                }
                            }
                        }
                    };
                    match (&r, &expect) {
                        (Ok(got), Ok(want)) => {
                            if got.bytes.as_ref() != want.as_slice() || got.offset != *offset {
                                bail!("wrong_bytes_returned", "op#{i} {op:?}: range returned {:?} (offset {}), expected {:?}", got.bytes, got.offset, want);
                            }
                            ctx.hit("reach.range_ok");
                            ctx.trace(&[5]);
                            ctx.trace(want);
                        }
                        (Ok(got), Err(why)) => {
                            let class = match *why {
                                "range_exceeds_budget" => "range_budget_not_enforced",
                                "range_out_of_bounds" => "range_out_of_bounds_accepted",
                                "missing_coordinate" => "coordinate_alias",
                                _ => "wrong_bytes_returned",
                            };
                            bail!(class, "op#{i} {op:?}: expected typed error {why}, got Ok with {} bytes", got.bytes.len());
                        }
                        (Err(e), Ok(_)) => bail!("retained_blob_not_returned", "op#{i} {op:?}: in-bounds, in-budget range of present content failed: {}", err_tag(e)),
                        (Err(e), Err(why)) => {
                            ctx.hit(&format!("reach.range_err.{why}"));
                            ctx.trace_str(err_tag(e));
                        }
                    }
                    if evicted_any {
                        read_after_evict = true;
                    }
                }
                RetainOp::LoadByHash { b } => {
                    let (h, bytes) = &pool[*b % np];
                    let r = catch(|| with_store!(&run.store, s => run.index.load_by_hash(s, BlobHash::from_bytes(*h))));
                    match r {
                        Ok(Ok(got)) => {
                            if got.as_ref() != bytes.as_slice() {
                                bail!("wrong_bytes_returned", "op#{i} {op:?}: load_by_hash({}) returned other bytes", short(h));
                            }
                            if !run.store.present(h) {
                                bail!("phantom_blob", "op#{i} {op:?}: load_by_hash({}) returned content that the store does not hold", short(h));
                            }
                            ctx.trace(&[6]);
                        }
                        Ok(Err(e)) => {
                            if run.store.present(h) {
                                bail!("retained_blob_not_returned", "op#{i} {op:?}: content present but load_by_hash failed: {}", err_tag(&e));
                            }
                            ctx.trace_str(err_tag(&e));
                        }
                        Err(p) => bail!(panic_class("load_by_hash"), "op#{i} {op:?}: {p}"),
                    }
                    if evicted_any {
                        read_after_evict = true;
                    }
                }
                RetainOp::PutLoose { b } => {
                    let (h, bytes) = &pool[*b % np];
                    match &mut run.store {
                        Store::Mem(m, put) => {
                            m.put(bytes);
                            put.insert(*h);
                        }
                        Store::Ev(e) => {
                            e.put(bytes);
                        }
                    }
                }
                RetainOp::Unpin { b } => {
                    let h = BlobHash::from_bytes(pool[*b % np].0);
                    with_store!(&mut run.store, s => s.unpin(&h));
                }
                RetainOp::EvictUnpinned => {
                    if let Store::Ev(e) = &mut run.store {
                        let n = e.evict_unpinned();
                        if n > 0 {
                            ctx.count("fault.evict", n as u64);
                            evicted_any = true;
                        }
                    }
                }
                RetainOp::EvictPinned { b } => {
                    if let Store::Ev(e) = &mut run.store {
                        let h = pool[*b % np].0;
                        let was_pinned = e.pins.contains(&h);
                        if e.evict(&h) {
                            ctx.hit("fault.evict");
                            if was_pinned {
                                ctx.hit("reach.evicted_pinned_blob");
                            }
                            evicted_any = true;
                        }
                    }
                }
            }
            if let Err((class, detail)) = run.sweep(&self.coords, ctx) {
                bail!(class, "after op#{i} {op:?}: {detail}");
            }
            if evicted_any {
                read_after_evict = true;
            }
        }
        (Outcome::Ok, special || (evicted_any && read_after_evict))
    }
}
