//! Retained-reading cache surface (`optic.rs`: `RetainedReadingCache`).
//!
//! Semantic retention must never alias distinct semantic coordinates: bytes retained under one
//! read identity are revealed only to a request that names exactly that identity (every field)
//! together with the key; anything else is the typed `MissingRetainedReading` obstruction.
//! A history of Retain / Reveal steps over a small alphabet of identities runs against a reference
//! map. Reveal requests come in four shapes: the exact identity, another properly derived identity,
//! the retained identity with one field edited but the retained hash kept (all fields are public;
//! a DTO can transport the hash verbatim), and an unknown key.

use std::collections::BTreeMap;

use serde::{Deserialize, Serialize};
use warp_core::{
    AttachmentDescentPolicy, CoordinateAt, EchoCoordinate, EchoOptic, IntentFamilyId, OpticAperture, OpticApertureShape, OpticCapabilityId, OpticFocus, OpticObstructionKind, OpticReadBudget, ProjectionVersion,
    ProvenanceRef, ReadIdentity, ReadingBudgetPosture, ReadingResidualPosture, ReadingRightsPosture, RetainReadingRequest, RetainedReadingCache, RetainedReadingCodecId, RetainedReadingKey, RevealReadingRequest,
    WitnessBasis, WorldlineId, WorldlineTick,
};

use super::{panic_class, BlobSpec};
use crate::kernel::{catch, Outcome, Rng, RunCtx, Tier};

/// A semantic coordinate from a tiny alphabet.
#[derive(Clone, Copy, Debug, Serialize, Deserialize, PartialEq, Eq, PartialOrd, Ord)]
pub struct IdSpec {
    pub wl: u8,
    pub tick: u8,
    pub witness: u8,
    pub residual: u8,
    pub shape: u8,
}

#[derive(Clone, Copy, Debug, Serialize, Deserialize, PartialEq, Eq)]
pub enum Edit {
    Tick,
    Worldline,
    Witness,
    Residual,
    Budget,
    Aperture,
    Focus,
}

#[derive(Clone, Debug, Serialize, Deserialize, PartialEq, Eq)]
pub enum ROp {
    Retain { id: usize, blob: BlobSpec, codec: u8 },
    /// reveal the `nth` retained entry (mod count) ...
    RevealExact { nth: usize },
    /// ... naming another, properly derived identity
    RevealOther { nth: usize, id: usize },
    /// ... with one field edited and the retained identity hash kept
    RevealEdited { nth: usize, edit: Edit },
    /// a key that was never returned
    RevealUnknownKey { id: usize },
}

#[derive(Clone, Debug, Serialize, Deserialize)]
pub struct ReadingScenario {
    pub ids: Vec<IdSpec>,
    pub ops: Vec<ROp>,
}

fn wl(seed: u8) -> WorldlineId {
    WorldlineId::from_bytes([seed.wrapping_add(0x30); 32])
}

fn aperture(shape: u8) -> OpticAperture {
    OpticAperture {
        shape: if shape % 2 == 0 { OpticApertureShape::Head } else { OpticApertureShape::SnapshotMetadata },
        budget: OpticReadBudget { max_bytes: Some(256), max_nodes: Some(8), max_ticks: Some(1), max_attachments: Some(0) },
        attachment_descent: AttachmentDescentPolicy::BoundaryOnly,
    }
}

fn witness(seed: u8, k: u8) -> WitnessBasis {
    let reference = ProvenanceRef { worldline_id: wl(seed), worldline_tick: WorldlineTick::from_raw(u64::from(k)), commit_hash: [k.wrapping_add(1); 32] };
    WitnessBasis::ResolvedCommit { reference, state_root: [k.wrapping_add(2); 32], commit_hash: reference.commit_hash }
}

fn residual(r: u8) -> ReadingResidualPosture {
    match r % 3 {
        0 => ReadingResidualPosture::Complete,
        1 => ReadingResidualPosture::Residual,
        _ => ReadingResidualPosture::PluralityPreserved,
    }
}

fn budget(payload: u64) -> ReadingBudgetPosture {
    ReadingBudgetPosture::Bounded { max_payload_bytes: 256, payload_bytes: payload, max_witness_refs: 1, witness_refs: 1 }
}

impl IdSpec {
    fn coordinate(&self) -> EchoCoordinate {
        EchoCoordinate::Worldline { worldline_id: wl(self.wl), at: CoordinateAt::Tick(WorldlineTick::from_raw(u64::from(self.tick))) }
    }
    fn real(&self) -> ReadIdentity {
        let focus = OpticFocus::Worldline { worldline_id: wl(self.wl) };
        let optic = EchoOptic::new(focus.clone(), self.coordinate(), ProjectionVersion::from_raw(1), None, IntentFamilyId::from_bytes([self.wl; 32]), OpticCapabilityId::from_bytes([self.wl; 32]));
        ReadIdentity::new(optic.optic_id, &focus, self.coordinate(), &aperture(self.shape), ProjectionVersion::from_raw(1), None, witness(self.wl, self.witness), ReadingRightsPosture::KernelPublic, budget(12), residual(self.residual))
    }
}

/// The retained identity with one field changed and `read_identity_hash` left as it was.
fn edited(base: &ReadIdentity, spec: &IdSpec, edit: Edit) -> ReadIdentity {
    let mut x = base.clone();
    match edit {
        Edit::Tick => x.coordinate = IdSpec { tick: spec.tick.wrapping_add(1), ..*spec }.coordinate(),
        Edit::Worldline => x.coordinate = IdSpec { wl: spec.wl.wrapping_add(1), ..*spec }.coordinate(),
        Edit::Witness => x.witness_basis = witness(spec.wl, spec.witness.wrapping_add(1)),
        Edit::Residual => x.residual_posture = residual(spec.residual.wrapping_add(1)),
        Edit::Budget => x.budget_posture = budget(13),
        Edit::Aperture => x.aperture_digest = IdSpec { shape: spec.shape.wrapping_add(1), ..*spec }.real().aperture_digest,
        Edit::Focus => x.focus_digest = IdSpec { wl: spec.wl.wrapping_add(1), ..*spec }.real().focus_digest,
    }
    x
}

fn v(class: &str, detail: String) -> Outcome {
    Outcome::violation(format!("reading_cache:{class}"), detail)
}

impl ReadingScenario {
    pub fn generate(rng: &mut Rng, _tier: Tier) -> Self {
        let n_ids = rng.urange(1, 4);
        let ids: Vec<IdSpec> = (0..n_ids)
            .map(|_| IdSpec { wl: rng.below(2) as u8, tick: rng.below(3) as u8, witness: rng.below(2) as u8, residual: rng.below(2) as u8, shape: rng.below(2) as u8 })
            .collect();
        let n = rng.urange(2, 14);
        let ops = (0..n)
            .map(|_| match rng.weighted(&[5, 3, 3, 5, 1]) {
                0 => ROp::Retain { id: rng.usize_below(n_ids), blob: super::gen_blob(rng, 40), codec: rng.below(2) as u8 },
                1 => ROp::RevealExact { nth: rng.usize_below(8) },
                2 => ROp::RevealOther { nth: rng.usize_below(8), id: rng.usize_below(n_ids) },
                3 => ROp::RevealEdited { nth: rng.usize_below(8), edit: *rng.pick(&[Edit::Tick, Edit::Worldline, Edit::Witness, Edit::Residual, Edit::Budget, Edit::Aperture, Edit::Focus]) },
                _ => ROp::RevealUnknownKey { id: rng.usize_below(n_ids) },
            })
            .collect();
        ReadingScenario { ids, ops }
    }

    pub fn shrink(&self) -> Vec<Self> {
        let mut out = Vec::new();
        for i in (0..self.ops.len()).rev() {
            let mut s = self.clone();
            s.ops.remove(i);
            out.push(s);
        }
        out
    }

    pub fn execute(&self, ctx: &mut RunCtx) -> (Outcome, bool) {
        let mut cache = RetainedReadingCache::default();
        // reference: key -> (identity spec index, identity, payload)
        let mut kept: Vec<(RetainedReadingKey, usize, ReadIdentity, Vec<u8>)> = Vec::new();
        let mut by_key: BTreeMap<String, usize> = BTreeMap::new();
        let mut nontrivial = false;
        macro_rules! bail {
            ($c:expr, $($f:tt)*) => { return (v($c, format!($($f)*)), nontrivial) };
        }
        for (i, op) in self.ops.iter().enumerate() {
            match op {
                ROp::Retain { id, blob, codec } => {
                    let Some(spec) = self.ids.get(*id) else { continue };
                    let ident = spec.real();
                    let payload = blob.bytes();
                    let req = RetainReadingRequest { read_identity: ident.clone(), codec_id: RetainedReadingCodecId::from_bytes([*codec; 32]), payload: payload.clone() };
                    let r = match catch(|| cache.retain_reading(req)) {
                        Ok(r) => r,
                        Err(p) => bail!(&panic_class("retain_reading"), "op#{i}: {p}"),
                    };
                    if r.descriptor.read_identity != ident || r.descriptor.byte_len != payload.len() as u64 || r.descriptor.content_hash != super::blake(&payload) {
                        bail!("descriptor_mismatch", "op#{i}: retain_reading returned a descriptor that does not describe the request: {:?}", r.descriptor);
                    }
                    let k = format!("{:?}", r.descriptor.key);
                    match by_key.get(&k) {
                        Some(ix) => {
                            // same key: must be the same question and the same bytes (idempotent retention)
                            let (_, _, id0, p0) = &kept[*ix];
                            if *id0 != ident || *p0 != payload {
                                bail!("key_aliases_distinct_retentions", "op#{i}: one retained-reading key for two different (identity, payload) pairs");
                            }
                            ctx.hit("reach.reading_retained_again");
                        }
                        None => {
                            by_key.insert(k, kept.len());
                            kept.push((r.descriptor.key, *id, ident, payload));
                        }
                    }
                }
                ROp::RevealExact { nth } | ROp::RevealOther { nth, .. } | ROp::RevealEdited { nth, .. } => {
                    if kept.is_empty() {
                        continue;
                    }
                    let (key, spec_ix, ident, payload) = kept[*nth % kept.len()].clone();
                    let spec = self.ids[spec_ix];
                    let (asked, what) = match op {
                        ROp::RevealExact { .. } => (ident.clone(), "exact".to_owned()),
                        ROp::RevealOther { id, .. } => match self.ids.get(*id) {
                            Some(o) => (o.real(), "other derived identity".to_owned()),
                            None => continue,
                        },
                        ROp::RevealEdited { edit, .. } => (edited(&ident, &spec, *edit), format!("{edit:?} edited, hash kept")),
                        ROp::RevealUnknownKey { .. } | ROp::Retain { .. } => continue,
                    };
                    let same = asked == ident;
                    let req = RevealReadingRequest { key, read_identity: asked.clone() };
                    let r = match catch(|| cache.reveal_reading(&req)) {
                        Ok(r) => r,
                        Err(p) => bail!(&panic_class("reveal_reading"), "op#{i}: {p}"),
                    };
                    nontrivial = true;
                    match (r, same) {
                        (Ok(x), true) => {
                            if x.payload != payload || x.descriptor.read_identity != ident {
                                bail!("wrong_bytes_revealed", "op#{i}: reveal with the exact identity returned other bytes or another descriptor");
                            }
                            ctx.hit("reach.reading_revealed");
                        }
                        (Err(o), true) => bail!("retained_reading_lost", "op#{i}: reveal with the exact key and identity was refused: {o:?}"),
                        (Ok(x), false) => bail!(
                            "distinct_coordinates_aliased",
                            "op#{i}: reveal handed the {} bytes retained for {:?} to a request naming a different question ({what}): {:?}",
                            x.payload.len(),
                            ident.coordinate,
                            asked.coordinate
                        ),
                        (Err(o), false) => {
                            if o.kind != OpticObstructionKind::MissingRetainedReading {
                                bail!("wrong_obstruction", "op#{i}: refusal kind {:?}", o.kind);
                            }
                            ctx.hit(if matches!(op, ROp::RevealEdited { .. }) { "reach.edited_identity_refused" } else { "reach.other_identity_refused" });
                        }
                    }
                }
                ROp::RevealUnknownKey { id } => {
                    let Some(spec) = self.ids.get(*id) else { continue };
                    // a key obtained from another cache for another payload
                    let mut other = RetainedReadingCache::default();
                    let r = other.retain_reading(RetainReadingRequest { read_identity: spec.real(), codec_id: RetainedReadingCodecId::from_bytes([9; 32]), payload: vec![0xEE, i as u8] });
                    if by_key.contains_key(&format!("{:?}", r.descriptor.key)) {
                        continue;
                    }
                    let req = RevealReadingRequest { key: r.descriptor.key, read_identity: spec.real() };
                    match catch(|| cache.reveal_reading(&req)) {
                        Err(p) => bail!(&panic_class("reveal_reading"), "op#{i}: {p}"),
                        Ok(Ok(x)) => bail!("phantom_reading", "op#{i}: reveal of a key this cache never issued returned {} bytes", x.payload.len()),
                        Ok(Err(_)) => ctx.hit("reach.unknown_key_refused"),
                    }
                }
            }
            if cache.len() != kept.len() {
                bail!("cache_len", "op#{i}: cache holds {} readings, reference {}", cache.len(), kept.len());
            }
        }
        (Outcome::Ok, nontrivial)
    }
}
