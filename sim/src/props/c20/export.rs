//! C20 surface 5: causal-history export profiles.
//!
//! A generated record set (submission acceptances, tick receipts + correlations, retained
//! readings with retained-material records) is written to a real filesystem WAL on tmpfs through
//! the public `causal_wal` API (one or two segments), recovered and projected to a `WalRoot`.
//! The record set is pushed through the reference-only, self-contained and CAS-addressed export
//! and back through the validate/import functions. Then each referenced blob (segment bytes,
//! retained payloads) is, in turn, withheld or corrupted — in the simulator-owned
//! `FaultyBlobStore` for the CAS-addressed profile, in the embedded material for the
//! self-contained profile — and the import must answer with a typed error.

use std::collections::BTreeMap;
use std::fmt::Debug;
use std::fs;
use std::path::PathBuf;

use serde::{Deserialize, Serialize};
use warp_core::causal_wal::{
    build_recovery_certificate, build_retained_reading_transaction, build_submission_acceptance_transaction,
    build_tick_transaction, project_filesystem_wal_recovery, recover_filesystem_store, AffectedFrontier,
    AffectedFrontierKind, EvidenceMaterialPosture, FilesystemWalStore, Lsn, PayloadCodecId, PayloadSchemaId,
    ReadingRefRecord, RecoveryAccessMode, RetainedMaterialKind, RetainedMaterialRecord, SubmissionAcceptanceRecord,
    TickReceiptRecord, WalAppendAuthority, WalCommittedTransaction, WalDurabilityMode, WalManifest,
    WalReceiptCorrelationRecord, WalRoot, WalSegmentId, WalStorePort, WalTickDecision, WalTransactionBuilder,
    WalTransactionId, WalTransactionKind, WalWriterEpoch, WriterEpochId, WriterEpochRequest,
};
use warp_core::wsc::{
    validate_wsc_cas_addressed_wal_export, validate_wsc_ref_only_wal_export, validate_wsc_self_contained_wal_export,
    wsc_cas_addressed_wal_export, wsc_ref_only_wal_export, wsc_self_contained_wal_export, FilesystemWscStore,
    WscCasAddressedRetainedMaterialReference, WscCasAddressedWalSegmentMaterial, WscCasBlobStorePort,
    WscSelfContainedRetainedMaterial, WscSelfContainedWalSegmentMaterial, WscStoreEnvelope, WscStorePort,
    WscWalCausalHistoryRecords,
};
use warp_core::{CausalTickReceiptRef, GlobalTick, WorldlineId, WorldlineTick};

use super::{blake, gen_blob, panic_class, short, BlobSpec};
use crate::kernel::{catch, Outcome, Rng, RunCtx, Tier};

type H = [u8; 32];

#[derive(Clone, Debug, Serialize, Deserialize, PartialEq, Eq)]
pub struct MatSpec {
    pub blob: BlobSpec,
    pub kind: u8,
    /// 0 = Present (payload retained); other values = a non-present posture (no payload).
    pub posture: u8,
    pub coord: u8,
}

#[derive(Clone, Debug, Serialize, Deserialize, PartialEq, Eq)]
pub struct LogEntry {
    /// Decision of the tick that decides this submission, if any (0 applied, 1 rejected, 2 obstructed).
    pub tick: Option<u8>,
    /// Retained reading with its retained-material records, if any.
    pub reading: Option<Vec<MatSpec>>,
}

#[derive(Clone, Debug, Serialize, Deserialize, PartialEq, Eq)]
pub enum Corrupt {
    Withhold,
    Flip { pos: u32, mask: u8 },
    Truncate(u32),
    Extend(u8),
    /// Serve / embed the bytes of another referenced blob.
    Swap(u8),
}

#[derive(Clone, Debug, Serialize, Deserialize, PartialEq, Eq)]
pub struct BlobFault {
    pub target: u8,
    pub how: Corrupt,
}

#[derive(Clone, Debug, Serialize, Deserialize)]
pub struct ExportScenario {
    pub salt: u8,
    pub entries: Vec<LogEntry>,
    /// Rotate to a second WAL segment after this many entries.
    pub rotate_after: Option<u8>,
    pub faults: Vec<BlobFault>,
    pub via_fs_store: bool,
}

fn digest(s: &str) -> H {
    blake(s.as_bytes())
}

/// Simulator-owned CAS port: an honest map that can withhold or corrupt one blob.
struct FaultyBlobStore {
    blobs: BTreeMap<H, Vec<u8>>,
    fault: Option<(H, Option<Vec<u8>>)>,
}

impl WscCasBlobStorePort for FaultyBlobStore {
    fn cas_blob_bytes(&self, content_hash: &H) -> Option<Vec<u8>> {
        if let Some((h, replacement)) = &self.fault {
            if h == content_hash {
                return replacement.clone();
            }
        }
        self.blobs.get(content_hash).cloned()
    }
}

fn corrupt(bytes: &[u8], how: &Corrupt, others: &[Vec<u8>]) -> Option<Vec<u8>> {
    let out = match how {
        Corrupt::Withhold => return None,
        Corrupt::Flip { pos, mask } => {
            if bytes.is_empty() {
                let mut b = bytes.to_vec();
                b.push(*mask | 1);
                b
            } else {
                let mut b = bytes.to_vec();
                let p = *pos as usize % b.len();
                b[p] ^= if *mask == 0 { 1 } else { *mask };
                b
            }
        }
        Corrupt::Truncate(k) => {
            if bytes.is_empty() {
                vec![0]
            } else {
                bytes[..(*k as usize % bytes.len())].to_vec()
            }
        }
        Corrupt::Extend(n) => {
            let mut b = bytes.to_vec();
            b.extend(std::iter::repeat(0u8).take(usize::from(*n).max(1)));
            b
        }
        Corrupt::Swap(j) => {
            let o = &others[usize::from(*j) % others.len().max(1)];
            if o.as_slice() == bytes {
                let mut b = bytes.to_vec();
                b.push(0x99);
                b
            } else {
                o.clone()
            }
        }
    };
    Some(out)
}

fn variant<E: Debug>(e: &E) -> String {
    let s = format!("{e:?}");
    s.chars().take_while(|c| c.is_ascii_alphanumeric() || *c == '_').collect()
}

fn canon<T: Debug>(v: &[T]) -> Vec<String> {
    let mut s: Vec<String> = v.iter().map(|x| format!("{x:?}")).collect();
    s.sort();
    s.dedup();
    s
}

struct Originals {
    acceptances: Vec<SubmissionAcceptanceRecord>,
    receipts: Vec<TickReceiptRecord>,
    correlations: Vec<WalReceiptCorrelationRecord>,
    materials: Vec<RetainedMaterialRecord>,
    readings: Vec<ReadingRefRecord>,
}

impl Originals {
    fn records(&self) -> WscWalCausalHistoryRecords<'_> {
        WscWalCausalHistoryRecords {
            retained_materials: &self.materials,
            reading_refs: &self.readings,
            accepted_submissions: &self.acceptances,
            receipts: &self.receipts,
            correlations: &self.correlations,
            causal_anchors: &[],
        }
    }

    #[allow(clippy::too_many_arguments)]
    fn compare(
        &self,
        profile: &str,
        acc: &[SubmissionAcceptanceRecord],
        rec: &[TickReceiptRecord],
        cor: &[WalReceiptCorrelationRecord],
        mats: &[RetainedMaterialRecord],
        reads: &[ReadingRefRecord],
    ) -> Result<(), String> {
        let pairs: [(&str, Vec<String>, Vec<String>, usize); 5] = [
            ("accepted_submissions", canon(&self.acceptances), canon(acc), acc.len()),
            ("receipts", canon(&self.receipts), canon(rec), rec.len()),
            ("correlations", canon(&self.correlations), canon(cor), cor.len()),
            ("retained_materials", canon(&self.materials), canon(mats), mats.len()),
            ("reading_refs", canon(&self.readings), canon(reads), reads.len()),
        ];
        for (name, want, got, raw_len) in pairs {
            if want != got {
                return Err(format!("{profile}: imported {name} differ from the originals\n want {want:?}\n got  {got:?}"));
            }
            if raw_len != got.len() {
                return Err(format!("{profile}: imported {name} contain duplicates ({raw_len} records, {} distinct)", got.len()));
            }
        }
        Ok(())
    }
}

fn epoch_id() -> WriterEpochId {
    WriterEpochId::from_hash(digest("c20:epoch:1"))
}

fn builder(segment: WalSegmentId, txid: &str, first_lsn: Lsn, authority: WalAppendAuthority, kind: WalTransactionKind) -> WalTransactionBuilder {
    WalTransactionBuilder::new(
        epoch_id(),
        segment,
        WalTransactionId::from_hash(digest(txid)),
        kind,
        authority,
        first_lsn,
        digest("c20:previous-frame"),
        digest("c20:previous-commit"),
        WalDurabilityMode::Buffered,
        PayloadCodecId::from_hash(digest("c20:codec")),
        PayloadSchemaId::from_hash(digest("c20:schema")),
        1,
        1,
        digest("c20:domain"),
    )
}

fn frontier(kind: AffectedFrontierKind, tag: &str) -> AffectedFrontier {
    AffectedFrontier { kind, before_digest: digest(&format!("{tag}:before")), after_digest: digest(&format!("{tag}:after")) }
}

const KINDS: [RetainedMaterialKind; 4] =
    [RetainedMaterialKind::ReadingPayload, RetainedMaterialKind::ReadingEnvelope, RetainedMaterialKind::TickReceipt, RetainedMaterialKind::Diagnostic];
const POSTURES: [EvidenceMaterialPosture; 4] = [
    EvidenceMaterialPosture::Present,
    EvidenceMaterialPosture::Missing,
    EvidenceMaterialPosture::RedactedByPolicy,
    EvidenceMaterialPosture::EncryptedKeyUnavailable,
];

struct BuiltLog {
    root: WalRoot,
    /// (segment id, raw segment bytes)
    segments: Vec<(WalSegmentId, Vec<u8>)>,
    originals: Originals,
    /// Present retained materials with their payload bytes.
    payloads: Vec<(RetainedMaterialRecord, Vec<u8>)>,
}

enum BuildFail {
    /// The log could not be produced / projected: a harness limitation, not a C20 matter.
    Skip(String),
}

impl ExportScenario {
    pub fn generate(rng: &mut Rng, tier: Tier) -> Self {
        let n = rng.urange(1, if tier == Tier::Thorough { 4 } else { 3 });
        let mut entries = Vec::new();
        for _ in 0..n {
            let tick = if rng.chance(2, 3) { Some(rng.below(3) as u8) } else { None };
            let reading = if rng.chance(1, 2) {
                let m = rng.urange(0, 2);
                Some(
                    (0..m)
                        .map(|_| MatSpec { blob: gen_blob(rng, 120), kind: rng.below(4) as u8, posture: if rng.chance(3, 4) { 0 } else { rng.range(1, 3) as u8 }, coord: rng.below(8) as u8 })
                        .collect(),
                )
            } else {
                None
            };
            entries.push(LogEntry { tick, reading });
        }
        let rotate_after = if n >= 2 && rng.chance(1, 3) { Some(rng.range(1, n as u64 - 1) as u8) } else { None };
        let n_segments = if rotate_after.is_some() { 2 } else { 1 };
        let n_present: usize = entries.iter().map(|e| e.reading.as_ref().map_or(0, |r| r.iter().filter(|m| m.posture == 0).count())).sum();
        let n_refs = n_segments + n_present;
        // every referenced blob in turn, each with one seeded corruption, plus extras
        let gen_how = |rng: &mut Rng| match rng.below(6) {
            0 | 1 => Corrupt::Withhold,
            2 => Corrupt::Flip { pos: rng.below(4000) as u32, mask: *rng.pick(&[1u8, 0x80, 0xFF]) },
            3 => Corrupt::Truncate(match rng.below(3) {
                0 => 0,
                _ => rng.below(4000) as u32,
            }),
            4 => Corrupt::Extend(rng.range(1, 16) as u8),
            _ => Corrupt::Swap(rng.below(8) as u8),
        };
        let mut faults: Vec<BlobFault> = (0..n_refs).map(|t| BlobFault { target: t as u8, how: gen_how(rng) }).collect();
        for _ in 0..rng.urange(0, 3) {
            faults.push(BlobFault { target: rng.below(n_refs as u64) as u8, how: gen_how(rng) });
        }
        rng.shuffle(&mut faults);
        ExportScenario { salt: rng.below(4) as u8, entries, rotate_after, faults, via_fs_store: rng.chance(1, 3) }
    }

    pub fn shrink(&self) -> Vec<Self> {
        let mut out = Vec::new();
        for i in 0..self.faults.len() {
            let mut s = self.clone();
            s.faults.remove(i);
            out.push(s);
        }
        if self.entries.len() > 1 {
            for i in 0..self.entries.len() {
                let mut s = self.clone();
                s.entries.remove(i);
                s.rotate_after = None;
                out.push(s);
            }
        }
        if self.rotate_after.is_some() {
            let mut s = self.clone();
            s.rotate_after = None;
            out.push(s);
        }
        for i in 0..self.entries.len() {
            if self.entries[i].tick.is_some() {
                let mut s = self.clone();
                s.entries[i].tick = None;
                out.push(s);
            }
            if let Some(r) = &self.entries[i].reading {
                let mut s = self.clone();
                s.entries[i].reading = None;
                out.push(s);
                for j in 0..r.len() {
                    let mut s = self.clone();
                    if let Some(r) = s.entries[i].reading.as_mut() {
                        r.remove(j);
                    }
                    out.push(s);
                    if r[j].blob.len > 0 {
                        let mut s = self.clone();
                        if let Some(r) = s.entries[i].reading.as_mut() {
                            r[j].blob.len /= 2;
                        }
                        out.push(s);
                    }
                }
            }
        }
        if self.via_fs_store {
            let mut s = self.clone();
            s.via_fs_store = false;
            out.push(s);
        }
        out
    }

    fn build_log(&self, dir: &PathBuf) -> Result<BuiltLog, BuildFail> {
        let skip = |what: &str, e: &dyn Debug| BuildFail::Skip(format!("{what}: {e:?}"));
        let seg1 = WalSegmentId::from_raw(1);
        let mut store = FilesystemWalStore::open(dir, seg1).map_err(|e| skip("wal open", &e))?;
        let epoch = store
            .acquire_writer_epoch(WriterEpochRequest {
                epoch_id: epoch_id(),
                storage_fencing_token: digest("c20:fencing"),
                process_identity: digest("c20:process"),
                host_identity: digest("c20:host"),
                started_at_lsn: Lsn::from_raw(0),
                previous_epoch_id: None,
                previous_epoch_final_commit_digest: None,
                lease_or_lock_evidence: digest("c20:lease"),
            })
            .map_err(|e| skip("acquire epoch", &e))?;

        let mut originals = Originals { acceptances: vec![], receipts: vec![], correlations: vec![], materials: vec![], readings: vec![] };
        let mut payloads: Vec<(RetainedMaterialRecord, Vec<u8>)> = Vec::new();
        let mut next_lsn = Lsn::from_raw(0);
        let mut seg = seg1;
        let mut seg_paths: Vec<(WalSegmentId, PathBuf)> = vec![(seg1, store.segment_path())];
        let mut last_commit: Option<(Lsn, H)> = None;

        let append = |store: &mut FilesystemWalStore, tx: WalCommittedTransaction, next_lsn: &mut Lsn, last_commit: &mut Option<(Lsn, H)>| -> Result<(), BuildFail> {
            let last = tx.commit.last_lsn;
            let cd = tx.commit.commit_digest;
            store.append_transaction(tx).map_err(|e| skip("append", &e))?;
            *next_lsn = last.checked_next().ok_or_else(|| BuildFail::Skip("lsn overflow".to_owned()))?;
            *last_commit = Some((last, cd));
            Ok(())
        };

        for (i, entry) in self.entries.iter().enumerate() {
            if self.rotate_after.map(usize::from) == Some(i) && i > 0 && seg == seg1 {
                store.rotate_segment(epoch_id()).map_err(|e| skip("rotate", &e))?;
                seg = store.active_segment_id();
                seg_paths.push((seg, store.segment_path()));
            }
            let label = format!("c20:{}:{i}", self.salt);
            let acceptance = SubmissionAcceptanceRecord {
                submission_id: digest(&format!("submission:{label}")),
                canonical_envelope_digest: digest(&format!("envelope:{label}")),
                idempotency_key_digest: if i % 2 == 1 { Some(digest(&format!("idem:{label}"))) } else { None },
                acceptance_evidence_digest: digest(&format!("accepted-evidence:{label}")),
            };
            let tx = build_submission_acceptance_transaction(
                builder(seg, &format!("tx:submission:{label}"), next_lsn, WalAppendAuthority::SubmissionIntake, WalTransactionKind::SubmissionIntake),
                acceptance,
                vec![frontier(AffectedFrontierKind::SubmissionQueue, &format!("queue:{label}"))],
            )
            .map_err(|e| skip("build submission", &e))?;
            append(&mut store, tx, &mut next_lsn, &mut last_commit)?;
            originals.acceptances.push(acceptance);

            if let Some(d) = entry.tick {
                let receipt_ref = CausalTickReceiptRef {
                    worldline_id: WorldlineId::from_bytes(digest(&format!("worldline:{}", self.salt))),
                    worldline_tick_after: WorldlineTick::from_raw(i as u64 + 1),
                    commit_global_tick: GlobalTick::from_raw(i as u64 + 1),
                    commit_hash: digest(&format!("commit:{label}")),
                    submission_id: acceptance.submission_id,
                    ticket_digest: digest(&format!("ticket:{label}")),
                    receipt_content_digest: digest(&format!("receipt:{label}")),
                };
                let decision = match d % 3 {
                    0 => WalTickDecision::Applied,
                    1 => WalTickDecision::RejectedFootprintConflict,
                    _ => WalTickDecision::Obstructed,
                };
                let receipt = TickReceiptRecord { receipt_ref, decision };
                // cite the previous receipt as causal parent when there is one
                let parents = originals.receipts.last().map(|r| vec![r.receipt_ref]).unwrap_or_default();
                let correlation = WalReceiptCorrelationRecord { receipt_ref, causal_parent_receipts: parents };
                let tx = build_tick_transaction(
                    builder(seg, &format!("tx:tick:{label}"), next_lsn, WalAppendAuthority::TrustedScheduler, WalTransactionKind::SchedulerTick),
                    receipt,
                    correlation.clone(),
                    digest(&format!("state-delta:{label}")),
                    vec![frontier(AffectedFrontierKind::RuntimeState, &format!("state:{label}")), frontier(AffectedFrontierKind::ReceiptIndex, &format!("receipt:{label}"))],
                )
                .map_err(|e| skip("build tick", &e))?;
                append(&mut store, tx, &mut next_lsn, &mut last_commit)?;
                originals.receipts.push(receipt);
                originals.correlations.push(correlation);
            }

            if let Some(mats) = &entry.reading {
                let mut records = Vec::new();
                for (j, m) in mats.iter().enumerate() {
                    // unique content per material so that equal digests never name different records
                    let mut payload = vec![self.salt, i as u8, j as u8];
                    payload.extend(m.blob.bytes());
                    let posture = POSTURES[usize::from(m.posture) % POSTURES.len()];
                    let record = RetainedMaterialRecord {
                        material_digest: blake(&payload),
                        semantic_coordinate_digest: digest(&format!("coordinate:{}:{}", self.salt, m.coord % 8)),
                        kind: KINDS[usize::from(m.kind) % KINDS.len()],
                        posture,
                    };
                    if posture == EvidenceMaterialPosture::Present {
                        payloads.push((record, payload));
                    }
                    records.push(record);
                }
                let reading = ReadingRefRecord {
                    reading_id: digest(&format!("reading:{label}")),
                    semantic_coordinate_digest: records.first().map_or(digest(&format!("coordinate:{label}")), |r| r.semantic_coordinate_digest),
                    payload_digest: records.first().map_or(digest(&format!("payload:{label}")), |r| r.material_digest),
                    envelope_digest: digest(&format!("reading-envelope:{label}")),
                    posture: records.first().map_or(EvidenceMaterialPosture::Missing, |r| r.posture),
                };
                let tx = build_retained_reading_transaction(
                    builder(seg, &format!("tx:reading:{label}"), next_lsn, WalAppendAuthority::TrustedScheduler, WalTransactionKind::SchedulerTick),
                    &records,
                    reading,
                    vec![frontier(AffectedFrontierKind::ReadingIndex, &format!("reading:{label}"))],
                )
                .map_err(|e| skip("build reading", &e))?;
                append(&mut store, tx, &mut next_lsn, &mut last_commit)?;
                originals.materials.extend(records);
                originals.readings.push(reading);
            }
        }
        store.seal_segment(epoch_id(), seg).map_err(|e| skip("seal", &e))?;
        let (last_lsn, last_digest) = last_commit.ok_or_else(|| BuildFail::Skip("empty log".to_owned()))?;
        store
            .publish_manifest(
                epoch_id(),
                WalManifest {
                    manifest_digest: digest(&format!("c20:manifest:{}", self.salt)),
                    last_committed_lsn: Some(last_lsn),
                    last_commit_digest: Some(last_digest),
                    sealed_segment_count: seg_paths.len() as u64,
                },
            )
            .map_err(|e| skip("manifest", &e))?;

        let report = recover_filesystem_store(dir, RecoveryAccessMode::ReadOnly).map_err(|e| skip("recover", &e))?;
        let certificate = build_recovery_certificate(&report, None, 0, digest("c20:frontier"), digest("c20:indexes"));
        let writer_epoch = WalWriterEpoch::from_writer_epoch(&epoch);
        let projection = project_filesystem_wal_recovery(dir, &report, std::slice::from_ref(&writer_epoch), Some(&certificate));
        let Some(root) = projection.root else {
            return Err(BuildFail::Skip(format!("projection {:?}: {:?}", projection.posture, projection.obstructions)));
        };
        let mut segments = Vec::new();
        for (id, path) in seg_paths {
            let bytes = fs::read(&path).map_err(|e| skip("read segment", &e))?;
            segments.push((id, bytes));
        }
        drop(store);
        Ok(BuiltLog { root, segments, originals, payloads })
    }

    pub fn execute(&self, ctx: &mut RunCtx) -> (Outcome, bool) {
        if self.entries.is_empty() {
            return (Outcome::Ok, false);
        }
        let scratch = ctx.scratch_dir();
        let wal_dir = scratch.join("wal");
        let log = match catch(|| self.build_log(&wal_dir)) {
            Ok(Ok(l)) => l,
            Ok(Err(BuildFail::Skip(why))) => {
                // The fault-free log could not be produced: nothing to export. Counted, not a violation.
                // (`why` may contain host paths: it is never traced.)
                let _ = why;
                ctx.hit("reach.export_log_unavailable");
                ctx.trace_str("export_log_unavailable");
                return (Outcome::Ok, false);
            }
            Err(p) => return (Outcome::violation(panic_class("wal_log_production"), p), false),
        };
        ctx.count("time.wal_transactions", (log.originals.acceptances.len() + log.originals.receipts.len() + log.originals.readings.len()) as u64);
        if log.segments.len() > 1 {
            ctx.hit("reach.export_two_segments");
        }
        ctx.trace(&log.root.identity_digest());
        let o = &log.originals;
        let mut faults_fired = 0u64;

        macro_rules! bail {
            ($class:expr, $($fmt:tt)*) => {
                return (Outcome::violation($class, format!($($fmt)*)), true)
            };
        }
        macro_rules! caught {
            ($at:expr, $e:expr) => {
                match catch(|| $e) {
                    Ok(r) => r,
                    Err(p) => bail!(panic_class($at), "{p}"),
                }
            };
        }

        // ---------------- reference-only
        let ref_only = match caught!("ref_only_export", wsc_ref_only_wal_export(&log.root, o.records())) {
            Ok(e) => e,
            Err(e) => bail!("export_failed", "ref-only export of a consistent record set failed: {e:?}"),
        };
        match caught!("ref_only_import", validate_wsc_ref_only_wal_export(&ref_only, &log.root)) {
            Ok(imp) => {
                if let Err(d) = o.compare("ref-only", &imp.accepted_submissions, &imp.receipts, &imp.correlations, &imp.retention.materials, &imp.retention.readings) {
                    bail!("export_roundtrip_mismatch", "{d}");
                }
                if imp.root_identity_digest != log.root.identity_digest() || imp.segment_dependencies.len() != log.segments.len() {
                    bail!("export_roundtrip_mismatch", "ref-only: root identity or segment dependency count differs");
                }
                ctx.hit("reach.roundtrip_ref_only");
            }
            Err(e) => bail!("export_roundtrip_failed", "ref-only import of an untouched export failed: {e:?}"),
        }

        // ---------------- self-contained
        let seg_materials: Vec<WscSelfContainedWalSegmentMaterial> =
            log.segments.iter().map(|(id, b)| WscSelfContainedWalSegmentMaterial { segment_id: *id, segment_bytes: b.clone() }).collect();
        let ret_materials: Vec<WscSelfContainedRetainedMaterial> =
            log.payloads.iter().map(|(m, b)| WscSelfContainedRetainedMaterial { material: *m, material_bytes: b.clone() }).collect();
        let sc = match caught!("self_contained_export", wsc_self_contained_wal_export(&log.root, &seg_materials, &ret_materials, o.records())) {
            Ok(e) => e,
            Err(e) => bail!("export_failed", "self-contained export of a consistent record set failed: {e:?}"),
        };
        let sc_clean = match caught!("self_contained_import", validate_wsc_self_contained_wal_export(&sc, &log.root)) {
            Ok(imp) => {
                if let Err(d) = o.compare("self-contained", &imp.accepted_submissions, &imp.receipts, &imp.correlations, &imp.retention.materials, &imp.retention.readings) {
                    bail!("export_roundtrip_mismatch", "{d}");
                }
                if canon(&imp.retained_payloads) != canon(&ret_materials) {
                    bail!("export_roundtrip_mismatch", "self-contained: embedded retained payloads differ after import");
                }
                let segs: Vec<(WalSegmentId, H)> = imp.segment_recoveries.iter().map(|r| (r.segment_id, r.segment_digest)).collect();
                let mut want: Vec<(WalSegmentId, H)> = log.root.segments.iter().map(|s| (s.segment_id, s.segment_digest)).collect();
                want.sort();
                if segs != want || imp.root_identity_digest != log.root.identity_digest() {
                    bail!("export_roundtrip_mismatch", "self-contained: recovered segments {segs:?} differ from the root's {want:?}");
                }
                ctx.hit("reach.roundtrip_self_contained");
                imp
            }
            Err(e) => bail!("export_roundtrip_failed", "self-contained import of an untouched export failed: {e:?}"),
        };

        // ---------------- CAS-addressed
        let mut cas = FaultyBlobStore { blobs: BTreeMap::new(), fault: None };
        let mut cas_segments = Vec::new();
        for (id, b) in &log.segments {
            let h = blake(b);
            cas.blobs.insert(h, b.clone());
            cas_segments.push(WscCasAddressedWalSegmentMaterial {
                segment_id: *id,
                content_hash: h,
                semantic_coordinate_digest: digest(&format!("c20:segment:{}", id.as_u64())),
                byte_len: b.len() as u64,
            });
        }
        let mut cas_retained = Vec::new();
        for (m, b) in &log.payloads {
            cas.blobs.insert(m.material_digest, b.clone());
            cas_retained.push(WscCasAddressedRetainedMaterialReference {
                material_kind: m.kind,
                content_hash: m.material_digest,
                semantic_coordinate_digest: m.semantic_coordinate_digest,
                byte_len: b.len() as u64,
            });
        }
        // CAS references are keyed by (material kind, semantic coordinate): two different contents under
        // one such coordinate are a coordinate conflict, which the export may only answer with a typed error.
        let mut by_coord: BTreeMap<String, H> = BTreeMap::new();
        let mut coordinate_conflict = false;
        for (m, _) in &log.payloads {
            let key = format!("{:?}/{}", m.kind, short(&m.semantic_coordinate_digest));
            if let Some(prev) = by_coord.insert(key, m.material_digest) {
                if prev != m.material_digest {
                    coordinate_conflict = true;
                }
            }
        }
        let ca = match caught!("cas_addressed_export", wsc_cas_addressed_wal_export(&log.root, &cas_segments, &cas_retained, o.records())) {
            Ok(e) => Some(e),
            Err(e) if coordinate_conflict => {
                ctx.hit("reach.cas_export_rejects_coordinate_conflict");
                ctx.trace_str(&variant(&e));
                None
            }
            Err(e) => bail!("export_failed", "CAS-addressed export of a consistent record set failed: {e:?}"),
        };
        let ca_clean = match &ca {
            None => None,
            Some(ca) => match caught!("cas_addressed_import", validate_wsc_cas_addressed_wal_export(ca, &log.root, &cas)) {
            Ok(imp) => {
                if let Err(d) = o.compare("CAS-addressed", &imp.accepted_submissions, &imp.receipts, &imp.correlations, &imp.retention.materials, &imp.retention.readings) {
                    bail!("export_roundtrip_mismatch", "{d}");
                }
                let got_refs: Vec<String> = canon(&imp.cas_references.retained_materials);
                if got_refs != canon(&cas_retained) || imp.cas_references.segments.len() != cas_segments.len() || imp.root_identity_digest != log.root.identity_digest() {
                    bail!("export_roundtrip_mismatch", "CAS-addressed: imported CAS references differ from the exported ones");
                }
                for (s, m) in imp.cas_references.segments.iter().zip(cas_segments.iter()) {
                    if s.segment_id != m.segment_id || s.content_hash != m.content_hash || s.byte_len != m.byte_len || s.semantic_coordinate_digest != m.semantic_coordinate_digest {
                        bail!("export_roundtrip_mismatch", "CAS-addressed: segment reference {s:?} differs from exported material {m:?}");
                    }
                }
                ctx.hit("reach.roundtrip_cas_addressed");
                Some(imp)
            }
            Err(e) => bail!("export_roundtrip_failed", "CAS-addressed import of an untouched export with all blobs present failed: {e:?}"),
            },
        };
        if let Some(ca) = &ca {
            ctx.trace(ca.projection_envelope.wsc_digest());
            ctx.trace(ca.cas_reference_envelope.wsc_digest());
        }
        ctx.trace(sc.segment_material_envelope.wsc_digest());

        // ---------------- each referenced blob withheld / corrupted in turn
        // referenced blobs: segments first, then present retained payloads
        let mut refs: Vec<(H, Vec<u8>)> = log.segments.iter().map(|(_, b)| (blake(b), b.clone())).collect();
        refs.extend(log.payloads.iter().map(|(m, b)| (m.material_digest, b.clone())));
        let all_bytes: Vec<Vec<u8>> = refs.iter().map(|(_, b)| b.clone()).collect();
        for (fi, f) in self.faults.iter().enumerate() {
            let t = usize::from(f.target) % refs.len();
            let (h, bytes) = &refs[t];
            let replacement = corrupt(bytes, &f.how, &all_bytes);
            if replacement.as_deref() == Some(bytes.as_slice()) {
                continue;
            }
            let withheld = replacement.is_none();
            ctx.hit(if withheld { "fault.withheld_blob" } else { "fault.corrupt_blob" });
            faults_fired += 1;

            // CAS-addressed: the store withholds / corrupts the blob
            if let (Some(ca), Some(ca_clean)) = (&ca, &ca_clean) {
                cas.fault = Some((*h, replacement.clone()));
                let r = caught!("cas_addressed_import_faulty", validate_wsc_cas_addressed_wal_export(ca, &log.root, &cas));
                cas.fault = None;
                match r {
                    Ok(imp) => {
                        let class = if withheld { "withheld_blob_import_ok" } else { "corrupt_blob_import_ok" };
                        let same = imp == *ca_clean;
                        bail!(class, "fault#{fi} {f:?} on referenced blob #{t} ({}): CAS-addressed import returned Ok (equal to clean import: {same})", short(h));
                    }
                    Err(e) => {
                        ctx.hit(&format!("reach.cas_import_err.{}", variant(&e)));
                        ctx.trace_str(&variant(&e));
                    }
                }
            }

            // self-contained: the embedded material is missing / corrupt
            let mut segs = seg_materials.clone();
            let mut rets = ret_materials.clone();
            if t < segs.len() {
                match &replacement {
                    None => {
                        segs.remove(t);
                    }
                    Some(b) => segs[t].segment_bytes = b.clone(),
                }
            } else {
                let k = t - seg_materials.len();
                match &replacement {
                    None => {
                        rets.remove(k);
                    }
                    Some(b) => rets[k].material_bytes = b.clone(),
                }
            }
            match caught!("self_contained_export_faulty", wsc_self_contained_wal_export(&log.root, &segs, &rets, o.records())) {
                Err(e) => {
                    ctx.hit(&format!("reach.sc_export_err.{}", variant(&e)));
                    ctx.trace_str(&variant(&e));
                }
                Ok(bad) => match caught!("self_contained_import_faulty", validate_wsc_self_contained_wal_export(&bad, &log.root)) {
                    Err(e) => {
                        ctx.hit(&format!("reach.sc_import_err.{}", variant(&e)));
                        ctx.trace_str(&variant(&e));
                    }
                    Ok(imp) => {
                        if imp == sc_clean {
                            // the damage did not change any imported record or material
                            ctx.hit("reach.sc_corruption_without_effect");
                        } else {
                            let class = if withheld { "withheld_blob_import_ok" } else { "corrupt_blob_import_ok" };
                            bail!(class, "fault#{fi} {f:?} on embedded material #{t} ({}): self-contained import returned Ok with different content", short(h));
                        }
                    }
                },
            }
        }

        // ---------------- the export's envelopes survive a filesystem WSC store
        if self.via_fs_store {
            let mut envs: Vec<&WscStoreEnvelope> = vec![
                &sc.projection_envelope,
                &sc.accepted_submission_envelope,
                &sc.receipt_correlation_envelope,
                &sc.causal_anchor_envelope,
                &sc.retention_envelope,
                &sc.segment_material_envelope,
                &sc.retained_material_envelope,
            ];
            if let Some(ca) = &ca {
                envs.push(&ca.cas_reference_envelope);
            }
            let dir = scratch.join("export-store");
            let r = catch(|| -> Result<(), String> {
                let mut st = FilesystemWscStore::open(&dir).map_err(|o| format!("open: {:?}", o.kind))?;
                for e in &envs {
                    st.write_envelope((*e).clone()).map_err(|o| format!("write: {:?}", o.kind))?;
                }
                let st = FilesystemWscStore::open(&dir).map_err(|o| format!("reopen: {:?}", o.kind))?;
                let listed = st.list_envelopes();
                for e in &envs {
                    let back = st.read_envelope(e.id()).map_err(|o| format!("read: {:?}", o.kind))?;
                    if back != **e {
                        return Err("envelope read back differs".to_owned());
                    }
                    if !listed.contains(&e.id()) {
                        return Err("written envelope not listed".to_owned());
                    }
                }
                Ok(())
            });
            match r {
                Ok(Ok(())) => ctx.hit("reach.export_via_fs_store"),
                Ok(Err(d)) => bail!("export_roundtrip_mismatch", "export envelopes through FilesystemWscStore: {d}"),
                Err(p) => bail!(panic_class("export_via_fs_store"), "{p}"),
            }
        }
        (Outcome::Ok, faults_fired > 0)
    }
}
