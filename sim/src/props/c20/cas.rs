//! C20 surfaces 1–2: `MemoryTier` / `DiskTier` op histories against `RefCas`, with file faults
//! applied to the disk tier's directory between operations.
//!
//! Layout knowledge (read from echo-cas/src/disk.rs): `<root>/blobs/<hex[0..2]>/<hex>`; temp files
//! `<shard>/.<hex>.<counter>.tmp`, renamed over the final path. Paths and temp names never enter
//! the trace.

use std::collections::{BTreeMap, BTreeSet};
use std::fs;
use std::path::PathBuf;

use echo_cas::{BlobHash, BlobStore, CasError, DiskTier, DiskTierError, MemoryTier};
use serde::{Deserialize, Serialize};

use super::{blake, gen_pool, panic_class, short, BlobSpec};
use crate::kernel::{catch, Outcome, Rng, RunCtx, Tier};

type H = [u8; 32];

#[derive(Clone, Debug, Serialize, Deserialize, PartialEq, Eq)]
pub enum TierKind {
    Memory { limit: Option<u32> },
    Disk,
}

#[derive(Clone, Debug, Serialize, Deserialize, PartialEq, Eq)]
pub enum WrongHash {
    /// The hash of another pool blob (possibly stored already).
    OfBlob(usize),
    /// The right hash with one bit flipped.
    FlipBit(u8),
    /// A constant hash.
    Const(u8),
}

#[derive(Clone, Debug, Serialize, Deserialize, PartialEq, Eq)]
pub enum FileFault {
    Flip { b: usize, pos: u32, mask: u8 },
    Truncate { b: usize, keep: u32 },
    Extend { b: usize, extra: u8, fill: u8 },
    Delete { b: usize },
    ReplaceByDir { b: usize },
    /// Crash between temp write and rename: a dot-prefixed temp file holding a prefix of the blob.
    LeftoverTemp { b: usize, keep: u32, style: u8 },
    /// Rename happened, content only partly there.
    TornBlob { b: usize, keep: u32 },
}

#[derive(Clone, Debug, Serialize, Deserialize, PartialEq, Eq)]
pub enum CasOp {
    Put(usize),
    PutVerified(usize),
    PutWrong { b: usize, wrong: WrongHash },
    Get(usize),
    Has(usize),
    GetAbsent(u8),
    Pin(usize),
    Unpin(usize),
    List,
    Reopen,
    Fault(FileFault),
}

#[derive(Clone, Debug, Serialize, Deserialize)]
pub struct CasScenario {
    pub tier: TierKind,
    pub pool: Vec<BlobSpec>,
    pub ops: Vec<CasOp>,
}

// ---------------------------------------------------------------------------------------------
// Observations of the store under test
// ---------------------------------------------------------------------------------------------

#[derive(Clone, Debug, PartialEq, Eq)]
enum GetRes {
    Some(Vec<u8>),
    None,
    Err(String),
}

#[derive(Clone, Debug, PartialEq, Eq)]
enum BoolRes {
    Ok(bool),
    Err(String),
}

#[derive(Clone, Debug, PartialEq, Eq)]
enum ListRes {
    NotApplicable,
    Ok(Vec<H>),
    Err(String),
}

fn err_kind(e: &DiskTierError) -> String {
    match e {
        DiskTierError::Cas(CasError::HashMismatch { .. }) => "cas_hash_mismatch".to_owned(),
        DiskTierError::Io { operation, source, .. } => format!("io:{operation}:{:?}", source.kind()),
        DiskTierError::InvalidBlobPath { .. } => "invalid_blob_path".to_owned(),
    }
}

enum Sut {
    Mem(MemoryTier),
    Disk(DiskTier),
}

impl Sut {
    fn put(&mut self, bytes: &[u8]) -> Result<H, String> {
        match self {
            Sut::Mem(m) => Ok(*m.put(bytes).as_bytes()),
            Sut::Disk(d) => d.put(bytes).map(|h| *h.as_bytes()).map_err(|e| err_kind(&e)),
        }
    }
    fn put_verified(&mut self, h: &H, bytes: &[u8]) -> Result<(), String> {
        let bh = BlobHash::from_bytes(*h);
        match self {
            Sut::Mem(m) => m.put_verified(bh, bytes).map_err(|e| match e {
                CasError::HashMismatch { .. } => "cas_hash_mismatch".to_owned(),
            }),
            Sut::Disk(d) => d.put_verified(bh, bytes).map_err(|e| err_kind(&e)),
        }
    }
    fn get(&self, h: &H) -> GetRes {
        let bh = BlobHash::from_bytes(*h);
        match self {
            Sut::Mem(m) => match m.get(&bh) {
                Some(b) => GetRes::Some(b.to_vec()),
                None => GetRes::None,
            },
            Sut::Disk(d) => match d.get(&bh) {
                Ok(Some(b)) => GetRes::Some(b.to_vec()),
                Ok(None) => GetRes::None,
                Err(e) => GetRes::Err(err_kind(&e)),
            },
        }
    }
    fn has(&self, h: &H) -> BoolRes {
        let bh = BlobHash::from_bytes(*h);
        match self {
            Sut::Mem(m) => BoolRes::Ok(m.has(&bh)),
            Sut::Disk(d) => match d.has(&bh) {
                Ok(b) => BoolRes::Ok(b),
                Err(e) => BoolRes::Err(err_kind(&e)),
            },
        }
    }
    fn pin(&mut self, h: &H) {
        let bh = BlobHash::from_bytes(*h);
        match self {
            Sut::Mem(m) => m.pin(&bh),
            Sut::Disk(d) => d.pin(&bh),
        }
    }
    fn unpin(&mut self, h: &H) {
        let bh = BlobHash::from_bytes(*h);
        match self {
            Sut::Mem(m) => m.unpin(&bh),
            Sut::Disk(d) => d.unpin(&bh),
        }
    }
    fn is_pinned(&self, h: &H) -> bool {
        let bh = BlobHash::from_bytes(*h);
        match self {
            Sut::Mem(m) => m.is_pinned(&bh),
            Sut::Disk(d) => d.is_pinned(&bh),
        }
    }
    fn pinned_count(&self) -> usize {
        match self {
            Sut::Mem(m) => m.pinned_count(),
            Sut::Disk(d) => d.pinned_count(),
        }
    }
    fn list(&self) -> ListRes {
        match self {
            Sut::Mem(_) => ListRes::NotApplicable,
            Sut::Disk(d) => match d.list() {
                Ok(v) => ListRes::Ok(v.iter().map(|h| *h.as_bytes()).collect()),
                Err(e) => ListRes::Err(err_kind(&e)),
            },
        }
    }
    fn mem_counts(&self) -> Option<(usize, usize, bool, bool)> {
        match self {
            Sut::Mem(m) => Some((m.len(), m.byte_count(), m.is_over_budget(), m.is_empty())),
            Sut::Disk(_) => None,
        }
    }
}

/// Full observable state over the hash universe of the scenario.
#[derive(Clone, Debug, PartialEq, Eq)]
struct Obs {
    per: Vec<(GetRes, BoolRes, bool)>,
    list: ListRes,
    pinned_count: usize,
    mem: Option<(usize, usize, bool, bool)>,
}

impl Obs {
    /// Content part only (pins removed), for "pin/unpin never change content".
    fn content(&self) -> (Vec<(GetRes, BoolRes)>, ListRes, Option<(usize, usize, bool, bool)>) {
        (self.per.iter().map(|(g, h, _)| (g.clone(), h.clone())).collect(), self.list.clone(), self.mem)
    }
}

fn observe(sut: &Sut, universe: &[H]) -> Result<Obs, String> {
    catch(|| Obs {
        per: universe.iter().map(|h| (sut.get(h), sut.has(h), sut.is_pinned(h))).collect(),
        list: sut.list(),
        pinned_count: sut.pinned_count(),
        mem: sut.mem_counts(),
    })
}

// ---------------------------------------------------------------------------------------------
// Reference model
// ---------------------------------------------------------------------------------------------

#[derive(Clone, Copy, Debug, PartialEq, Eq)]
enum FileState {
    /// File bytes equal the blob and a put of it was acknowledged.
    Intact,
    /// File bytes equal the blob but no put was ever acknowledged (completed-but-unacked write).
    IntactUnacked,
    /// A regular file whose bytes differ from the blob.
    Damaged,
    /// No file (after one existed).
    Gone,
    /// A directory sits at the blob path.
    IsDir,
}

struct RefCas {
    disk: bool,
    /// Hashes whose put was acknowledged (memory tier: exactly the stored set).
    acked: BTreeSet<H>,
    pins: BTreeSet<H>,
    /// Disk tier: state of the file of every hash that ever had one.
    file: BTreeMap<H, FileState>,
    limit: Option<usize>,
    /// Some non-temp damage currently exists on disk.
    temps: u64,
}

#[derive(Clone, Copy, PartialEq, Eq)]
enum Ctx {
    AfterOp,
    AfterFault(Option<H>),
    AfterReopen,
    AfterPin,
    AfterWrongPut,
}

impl std::fmt::Debug for Ctx {
    fn fmt(&self, f: &mut std::fmt::Formatter<'_>) -> std::fmt::Result {
        match self {
            Ctx::AfterOp => f.write_str("after op"),
            Ctx::AfterFault(Some(h)) => write!(f, "after fault on {}", short(h)),
            Ctx::AfterFault(None) => f.write_str("after leftover temp"),
            Ctx::AfterReopen => f.write_str("after reopen"),
            Ctx::AfterPin => f.write_str("after pin/unpin"),
            Ctx::AfterWrongPut => f.write_str("after refused write"),
        }
    }
}

struct Run<'a> {
    universe: Vec<H>,
    known: BTreeMap<H, Vec<u8>>,
    model: RefCas,
    root: Option<PathBuf>,
    ctx: &'a mut RunCtx,
    faults_fired: u64,
    read_after_fault: bool,
    special_case: bool,
}

type V = (String, String);

fn v(class: &str, detail: String) -> V {
    (class.to_owned(), detail)
}

impl Run<'_> {
    fn blob_path(&self, h: &H) -> Option<PathBuf> {
        let hex = hex::encode(h);
        self.root.as_ref().map(|r| r.join("blobs").join(&hex[..2]).join(&hex))
    }

    /// Re-derive the file state of `h` from the actual directory (used after every fault).
    fn reclassify(&mut self, h: &H) {
        let Some(path) = self.blob_path(h) else { return };
        let st = match fs::symlink_metadata(&path) {
            Err(_) => {
                if self.model.file.contains_key(h) {
                    Some(FileState::Gone)
                } else {
                    None
                }
            }
            Ok(md) if md.is_dir() => Some(FileState::IsDir),
            Ok(_) => {
                let bytes = fs::read(&path).unwrap_or_default();
                if self.known.get(h) == Some(&bytes) {
                    if self.model.acked.contains(h) {
                        Some(FileState::Intact)
                    } else {
                        Some(FileState::IntactUnacked)
                    }
                } else {
                    Some(FileState::Damaged)
                }
            }
        };
        if let Some(st) = st {
            self.model.file.insert(*h, st);
        }
    }

    fn any_damage(&self) -> bool {
        self.model.file.values().any(|s| matches!(s, FileState::Damaged | FileState::IsDir))
    }

    /// Check one full observation against the reference model.
    fn check(&mut self, obs: &Obs, cx: Ctx) -> Result<(), V> {
        let m = &self.model;
        for (i, h) in self.universe.iter().enumerate() {
            let (g, has, pinned) = &obs.per[i];
            let state = if m.disk { m.file.get(h).copied() } else if m.acked.contains(h) { Some(FileState::Intact) } else { None };
            let is_target = matches!(cx, Ctx::AfterFault(Some(t)) if t == *h);
            // ---- get
            match g {
                GetRes::Some(x) => {
                    let right = blake(x) == *h && self.known.get(h) == Some(x);
                    if !right {
                        let class = if matches!(state, Some(FileState::Damaged | FileState::IsDir | FileState::Gone)) || is_target {
                            "corruption_undetected"
                        } else {
                            "wrong_bytes_returned"
                        };
                        return Err(v(class, format!("get({}) returned {} bytes hashing to {} (state {state:?}, ctx {cx:?})", short(h), x.len(), short(&blake(x)))));
                    }
                    if state.is_none() {
                        let class = if m.temps > 0 { "temp_file_became_visible" } else { "phantom_blob" };
                        return Err(v(class, format!("get({}) returned content although no put was acknowledged and no blob file was ever written (ctx {cx:?})", short(h))));
                    }
                }
                GetRes::None | GetRes::Err(_) => {
                    if state == Some(FileState::Intact) {
                        let class = match cx {
                            Ctx::AfterReopen => "reopen_lost_intact_blob",
                            Ctx::AfterFault(_) if !is_target => "fault_affected_other_hash",
                            Ctx::AfterPin => "pin_changed_content",
                            Ctx::AfterWrongPut => "wrong_hash_write_mutated_store",
                            _ => "stored_blob_not_returned",
                        };
                        return Err(v(class, format!("get({}) = {g:?} although its content is stored intact (ctx {cx:?})", short(h))));
                    }
                    if let GetRes::Err(e) = g {
                        if state.is_none() {
                            let class = if m.temps > 0 { "temp_file_broke_op" } else { "op_failed_without_fault" };
                            return Err(v(class, format!("get({}) of a never-written hash failed: {e}", short(h))));
                        }
                        self.ctx.hit("reach.get_typed_error");
                    } else if matches!(state, Some(FileState::Damaged | FileState::Gone | FileState::IsDir)) {
                        self.ctx.hit("reach.get_none_after_damage");
                    }
                }
            }
            // ---- has
            match (state, has) {
                (Some(FileState::Intact), BoolRes::Ok(true)) => {}
                (Some(FileState::Intact), other) => {
                    let class = match cx {
                        Ctx::AfterReopen => "reopen_lost_intact_blob",
                        Ctx::AfterFault(_) if !is_target => "fault_affected_other_hash",
                        Ctx::AfterPin => "pin_changed_content",
                        _ => "stored_blob_not_returned",
                    };
                    return Err(v(class, format!("has({}) = {other:?} although stored intact (ctx {cx:?})", short(h))));
                }
                (None, BoolRes::Ok(false)) => {}
                (None, other) => {
                    let class = if m.temps > 0 { "temp_file_became_visible" } else { "phantom_blob" };
                    return Err(v(class, format!("has({}) = {other:?} for a never-written hash", short(h))));
                }
                (Some(FileState::Damaged), BoolRes::Ok(true)) => self.ctx.hit("reach.has_true_on_damaged"),
                _ => {}
            }
            // ---- pins
            if *pinned != m.pins.contains(h) {
                return Err(v("pin_state_mismatch", format!("is_pinned({}) = {pinned}, reference {}", short(h), m.pins.contains(h))));
            }
        }
        if obs.pinned_count != m.pins.len() {
            return Err(v("pin_state_mismatch", format!("pinned_count {} != reference {}", obs.pinned_count, m.pins.len())));
        }
        // ---- list (disk)
        match &obs.list {
            ListRes::NotApplicable => {}
            ListRes::Ok(l) => {
                if l.windows(2).any(|w| w[0] >= w[1]) {
                    return Err(v("list_not_sorted", "list() is not strictly ascending".to_owned()));
                }
                for (h, st) in &m.file {
                    if *st == FileState::Intact && !l.contains(h) {
                        let class = match cx {
                            Ctx::AfterReopen => "reopen_lost_intact_blob",
                            Ctx::AfterFault(t) if t != Some(*h) => "fault_affected_other_hash",
                            Ctx::AfterPin => "pin_changed_content",
                            _ => "stored_blob_not_returned",
                        };
                        return Err(v(class, format!("list() misses intact blob {} (ctx {cx:?})", short(h))));
                    }
                }
                for h in l {
                    match m.file.get(h) {
                        Some(FileState::Intact | FileState::IntactUnacked) => {}
                        Some(FileState::Damaged | FileState::IsDir) => self.ctx.hit("reach.list_includes_damaged"),
                        Some(FileState::Gone) => return Err(v("phantom_blob", format!("list() contains deleted blob {}", short(h)))),
                        None => {
                            let class = if m.temps > 0 { "temp_file_became_visible" } else { "phantom_blob" };
                            return Err(v(class, format!("list() contains {} which was never written", short(h))));
                        }
                    }
                }
            }
            ListRes::Err(e) => {
                if !self.any_damage() {
                    let class = if m.temps > 0 { "temp_file_broke_op" } else { "op_failed_without_fault" };
                    return Err(v(class, format!("list() failed without blob damage: {e}")));
                }
                self.ctx.hit("reach.list_typed_error");
            }
        }
        // ---- memory counters
        if let Some((len, bytes, over, empty)) = obs.mem {
            let want_len = m.acked.len();
            let want_bytes: usize = m.acked.iter().map(|h| self.known.get(h).map_or(0, Vec::len)).sum();
            let want_over = m.limit.is_some_and(|l| want_bytes > l);
            if len != want_len || bytes != want_bytes || over != want_over || empty != (want_len == 0) {
                let class = if cx == Ctx::AfterWrongPut { "wrong_hash_write_mutated_store" } else { "memory_counters_mismatch" };
                return Err(v(class, format!("len/bytes/over/empty = {len}/{bytes}/{over}/{empty}, reference {want_len}/{want_bytes}/{want_over}/{}", want_len == 0)));
            }
        }
        Ok(())
    }

    /// Apply one file fault; returns the hash whose file content may have changed.
    fn apply_fault(&mut self, f: &FileFault, pool: &[(H, Vec<u8>)]) -> Option<H> {
        let pick = |b: usize| pool.get(b % pool.len().max(1)).cloned();
        match f {
            FileFault::Flip { b, pos, mask } => {
                let (h, _) = pick(*b)?;
                let path = self.blob_path(&h)?;
                if !path.is_file() {
                    return None;
                }
                let mut bytes = fs::read(&path).ok()?;
                if bytes.is_empty() {
                    return None;
                }
                let p = *pos as usize % bytes.len();
                bytes[p] ^= if *mask == 0 { 1 } else { *mask };
                fs::write(&path, &bytes).ok()?;
                self.ctx.hit("fault.flip");
                Some(h)
            }
            FileFault::Truncate { b, keep } => {
                let (h, _) = pick(*b)?;
                let path = self.blob_path(&h)?;
                if !path.is_file() {
                    return None;
                }
                let bytes = fs::read(&path).ok()?;
                if bytes.is_empty() {
                    return None;
                }
                let k = *keep as usize % bytes.len();
                fs::write(&path, &bytes[..k]).ok()?;
                self.ctx.hit("fault.truncate");
                Some(h)
            }
            FileFault::Extend { b, extra, fill } => {
                let (h, _) = pick(*b)?;
                let path = self.blob_path(&h)?;
                if !path.is_file() {
                    return None;
                }
                let mut bytes = fs::read(&path).ok()?;
                bytes.extend(std::iter::repeat(*fill).take(usize::from(*extra).max(1)));
                fs::write(&path, &bytes).ok()?;
                self.ctx.hit("fault.extend");
                Some(h)
            }
            FileFault::Delete { b } => {
                let (h, _) = pick(*b)?;
                let path = self.blob_path(&h)?;
                if !path.is_file() {
                    return None;
                }
                fs::remove_file(&path).ok()?;
                self.ctx.hit("fault.delete");
                Some(h)
            }
            FileFault::ReplaceByDir { b } => {
                let (h, _) = pick(*b)?;
                let path = self.blob_path(&h)?;
                if !path.is_file() {
                    return None;
                }
                fs::remove_file(&path).ok()?;
                fs::create_dir(&path).ok()?;
                self.ctx.hit("fault.replace_by_dir");
                Some(h)
            }
            FileFault::LeftoverTemp { b, keep, style } => {
                let (h, bytes) = pick(*b)?;
                let path = self.blob_path(&h)?;
                let shard = path.parent()?.to_path_buf();
                fs::create_dir_all(&shard).ok()?;
                let hex = hex::encode(h);
                let name = match style % 3 {
                    0 => format!(".{hex}.{}.tmp", u64::MAX - u64::from(*keep)),
                    1 => ".stale-write.tmp".to_owned(),
                    _ => format!(".{hex}.tmp"),
                };
                let k = *keep as usize % (bytes.len() + 1);
                fs::write(shard.join(name), &bytes[..k]).ok()?;
                self.model.temps += 1;
                self.ctx.hit("fault.leftover_temp");
                if k == bytes.len() {
                    self.ctx.hit("reach.leftover_temp_complete_content");
                }
                // No blob file changed: the caller checks that *every* hash is unaffected.
                self.faults_fired += 1;
                None
            }
            FileFault::TornBlob { b, keep } => {
                let (h, bytes) = pick(*b)?;
                let path = self.blob_path(&h)?;
                if path.is_dir() {
                    return None;
                }
                let shard = path.parent()?.to_path_buf();
                fs::create_dir_all(&shard).ok()?;
                let k = *keep as usize % (bytes.len() + 1);
                let before = fs::read(&path).ok();
                if before.as_deref() == Some(&bytes[..k]) {
                    return None;
                }
                fs::write(&path, &bytes[..k]).ok()?;
                self.ctx.hit("fault.torn_blob");
                if k == bytes.len() {
                    self.ctx.hit("reach.torn_blob_complete_content");
                }
                Some(h)
            }
        }
    }
}

/// Every pool index an op carries (for structure-aware shrinking).
fn op_indices(op: &mut CasOp) -> Vec<&mut usize> {
    match op {
        CasOp::Put(b) | CasOp::PutVerified(b) | CasOp::Get(b) | CasOp::Has(b) | CasOp::Pin(b) | CasOp::Unpin(b) => vec![b],
        CasOp::PutWrong { b, wrong: WrongHash::OfBlob(x) } => vec![b, x],
        CasOp::PutWrong { b, .. } => vec![b],
        CasOp::Fault(
            FileFault::Flip { b, .. }
            | FileFault::Truncate { b, .. }
            | FileFault::Extend { b, .. }
            | FileFault::Delete { b }
            | FileFault::ReplaceByDir { b }
            | FileFault::LeftoverTemp { b, .. }
            | FileFault::TornBlob { b, .. },
        ) => vec![b],
        CasOp::GetAbsent(_) | CasOp::List | CasOp::Reopen => vec![],
    }
}

fn resolve_wrong(w: &WrongHash, right: &H, pool: &[(H, Vec<u8>)]) -> H {
    match w {
        WrongHash::OfBlob(x) => pool[*x % pool.len()].0,
        WrongHash::FlipBit(bit) => {
            let mut h = *right;
            h[usize::from(*bit) / 8] ^= 1 << (bit % 8);
            h
        }
        WrongHash::Const(c) => [*c; 32],
    }
}

fn absent_hash(seed: u8) -> H {
    let mut h = [seed; 32];
    h[0] = 0xAB;
    h[31] = seed.wrapping_mul(7);
    h
}

impl CasScenario {
    pub fn generate(rng: &mut Rng, tier: Tier, avoid_known: bool) -> Self {
        let disk = rng.chance(7, 10);
        let kind = if disk {
            TierKind::Disk
        } else {
            TierKind::Memory { limit: if rng.chance(1, 2) { Some(rng.range(0, 300) as u32) } else { None } }
        };
        let pool = gen_pool(rng, 2, 7);
        let np = pool.len();
        let max_ops = if tier == Tier::Thorough && rng.chance(1, 4) { 90 } else { 36 };
        let n_ops = rng.urange(4, max_ops);
        // swarm: per-run op mix
        let mut w: [u32; 11] = [6, 3, 3, 4, 2, 1, 2, 2, 2, 2, 9];
        for x in w.iter_mut().skip(1) {
            if rng.chance(1, 5) {
                *x = 0;
            }
        }
        if !disk {
            w[9] = 0;
            w[10] = 0;
            w[8] = 0;
        }
        let mut fw: [u32; 7] = [3, 3, 2, 2, 1, 3, 3];
        for x in fw.iter_mut() {
            if rng.chance(1, 4) {
                *x = 0;
            }
        }
        if fw.iter().all(|x| *x == 0) {
            fw[rng.usize_below(7)] = 1;
        }
        let mut put_so_far: Vec<usize> = Vec::new();
        let mut ops = Vec::with_capacity(n_ops);
        for i in 0..n_ops {
            let stored_pick = |rng: &mut Rng, put: &Vec<usize>| -> usize {
                if !put.is_empty() && rng.chance(3, 4) {
                    *rng.pick(put)
                } else {
                    rng.usize_below(np)
                }
            };
            let k = if i < 2 && rng.chance(3, 4) { 0 } else { rng.weighted(&w) };
            let op = match k {
                0 => {
                    let b = rng.usize_below(np);
                    put_so_far.push(b);
                    CasOp::Put(b)
                }
                1 => {
                    let b = rng.usize_below(np);
                    put_so_far.push(b);
                    CasOp::PutVerified(b)
                }
                2 => {
                    let b = rng.usize_below(np);
                    let wrong = match rng.below(4) {
                        0 | 1 => WrongHash::OfBlob(stored_pick(rng, &put_so_far)),
                        2 => WrongHash::FlipBit(rng.below(256) as u8),
                        _ => WrongHash::Const(*rng.pick(&[0u8, 0xFF, 0x55])),
                    };
                    // (The memory tier once accepted any bytes for an already stored hash; repaired by a
                    // `fix:` commit, so no avoidance mode remains: every run may aim at a stored hash.)
                    let _ = (avoid_known, disk);
                    CasOp::PutWrong { b, wrong }
                }
                3 => CasOp::Get(stored_pick(rng, &put_so_far)),
                4 => CasOp::Has(stored_pick(rng, &put_so_far)),
                5 => CasOp::GetAbsent(rng.below(4) as u8),
                6 => CasOp::Pin(stored_pick(rng, &put_so_far)),
                7 => CasOp::Unpin(stored_pick(rng, &put_so_far)),
                8 => CasOp::List,
                9 => CasOp::Reopen,
                _ => {
                    let b = stored_pick(rng, &put_so_far);
                    let len = u32::from(pool[b].len);
                    let pos = match rng.below(4) {
                        0 => 0,
                        1 => len.saturating_sub(1),
                        _ => rng.below(u64::from(len.max(1))) as u32,
                    };
                    CasOp::Fault(match rng.weighted(&fw) {
                        0 => FileFault::Flip { b, pos, mask: *rng.pick(&[1u8, 0x80, 0xFF, 0x20]) },
                        1 => FileFault::Truncate { b, keep: pos },
                        2 => FileFault::Extend { b, extra: rng.range(1, 40) as u8, fill: *rng.pick(&[0u8, 0xFF, 0x41]) },
                        3 => FileFault::Delete { b },
                        4 => FileFault::ReplaceByDir { b },
                        5 => FileFault::LeftoverTemp { b: rng.usize_below(np), keep: if rng.chance(1, 4) { len } else { pos }, style: rng.below(3) as u8 },
                        _ => FileFault::TornBlob { b: rng.usize_below(np), keep: if rng.chance(1, 6) { len } else { pos } },
                    })
                }
            };
            ops.push(op);
        }
        CasScenario { tier: kind, pool, ops }
    }

    pub fn shrink(&self) -> Vec<Self> {
        let mut out = Vec::new();
        for i in 0..self.ops.len() {
            let mut s = self.clone();
            s.ops.remove(i);
            out.push(s);
        }
        for i in 0..self.pool.len() {
            if self.pool[i].len > 0 {
                let mut s = self.clone();
                s.pool[i].len /= 2;
                out.push(s);
                let mut s = self.clone();
                s.pool[i].len -= 1;
                out.push(s);
            }
        }
        if let TierKind::Memory { limit: Some(_) } = self.tier {
            let mut s = self.clone();
            s.tier = TierKind::Memory { limit: None };
            out.push(s);
        }
        // drop a pool blob that no op refers to (indices above it shift down)
        if self.pool.len() > 1 {
            for r in 0..self.pool.len() {
                let mut s = self.clone();
                let np = s.pool.len();
                let mut used = false;
                for op in s.ops.iter_mut() {
                    for x in op_indices(op) {
                        *x %= np;
                        if *x == r {
                            used = true;
                        } else if *x > r {
                            *x -= 1;
                        }
                    }
                }
                if !used {
                    s.pool.remove(r);
                    out.push(s);
                }
            }
        }
        for (i, op) in self.ops.iter().enumerate() {
            let simpler = match op {
                CasOp::Fault(FileFault::Flip { b, pos, mask }) if *pos != 0 || *mask != 1 => Some(CasOp::Fault(FileFault::Flip { b: *b, pos: 0, mask: 1 })),
                CasOp::Fault(FileFault::Truncate { b, keep }) if *keep != 0 => Some(CasOp::Fault(FileFault::Truncate { b: *b, keep: 0 })),
                CasOp::Fault(FileFault::Extend { b, extra, fill }) if *extra != 1 || *fill != 0 => Some(CasOp::Fault(FileFault::Extend { b: *b, extra: 1, fill: 0 })),
                CasOp::Fault(FileFault::TornBlob { b, keep }) if *keep != 0 => Some(CasOp::Fault(FileFault::TornBlob { b: *b, keep: 0 })),
                CasOp::Fault(FileFault::LeftoverTemp { b, keep, style }) if *keep != 0 || *style != 0 => Some(CasOp::Fault(FileFault::LeftoverTemp { b: *b, keep: 0, style: 0 })),
                CasOp::PutVerified(b) => Some(CasOp::Put(*b)),
                _ => None,
            };
            if let Some(op) = simpler {
                let mut s = self.clone();
                s.ops[i] = op;
                out.push(s);
            }
        }
        out
    }

    pub fn execute(&self, ctx: &mut RunCtx) -> (Outcome, bool) {
        if self.pool.is_empty() {
            return (Outcome::Ok, false);
        }
        let pool: Vec<(H, Vec<u8>)> = self
            .pool
            .iter()
            .map(|b| {
                let bytes = b.bytes();
                (blake(&bytes), bytes)
            })
            .collect();
        let np = pool.len();
        // Hash universe: pool hashes, every wrong hash used, absent probes.
        let mut known: BTreeMap<H, Vec<u8>> = BTreeMap::new();
        let mut uni: BTreeSet<H> = BTreeSet::new();
        for (h, b) in &pool {
            known.insert(*h, b.clone());
            uni.insert(*h);
        }
        for op in &self.ops {
            match op {
                CasOp::PutWrong { b, wrong } => {
                    uni.insert(resolve_wrong(wrong, &pool[*b % np].0, &pool));
                }
                CasOp::GetAbsent(s) => {
                    uni.insert(absent_hash(*s));
                }
                _ => {}
            }
        }
        let universe: Vec<H> = uni.into_iter().collect();

        let disk = self.tier == TierKind::Disk;
        let root = if disk { Some(ctx.scratch_dir().join("cas")) } else { None };
        let mut sut = match &self.tier {
            TierKind::Memory { limit: None } => Sut::Mem(MemoryTier::new()),
            TierKind::Memory { limit: Some(l) } => Sut::Mem(MemoryTier::with_limits(*l as usize)),
            TierKind::Disk => {
                let r = root.clone().unwrap_or_default();
                match catch(|| DiskTier::open(&r)) {
                    Ok(Ok(d)) => Sut::Disk(d),
                    Ok(Err(e)) => return (Outcome::violation("open_failed", err_kind(&e)), false),
                    Err(p) => return (Outcome::violation(panic_class("disk_open"), p), false),
                }
            }
        };
        let limit = match &self.tier {
            TierKind::Memory { limit } => limit.map(|l| l as usize),
            TierKind::Disk => None,
        };
        let mut run = Run {
            universe,
            known,
            model: RefCas { disk, acked: BTreeSet::new(), pins: BTreeSet::new(), file: BTreeMap::new(), limit, temps: 0 },
            root,
            ctx,
            faults_fired: 0,
            read_after_fault: false,
            special_case: false,
        };

        macro_rules! bail {
            ($class:expr, $($fmt:tt)*) => {
                return (Outcome::violation($class, format!($($fmt)*)), run.faults_fired > 0 || run.special_case)
            };
        }
        macro_rules! obs {
            ($at:expr) => {
                match observe(&sut, &run.universe) {
                    Ok(o) => o,
                    Err(p) => bail!(panic_class($at), "{p}"),
                }
            };
        }
        macro_rules! chk {
            ($obs:expr, $cx:expr, $i:expr) => {
                if let Err((class, detail)) = run.check($obs, $cx) {
                    bail!(class, "op#{} {:?}: {detail}", $i, self.ops[$i]);
                }
            };
        }

        let mut last = obs!("observe");
        if let Err((class, detail)) = run.check(&last, Ctx::AfterOp) {
            bail!(class, "fresh store: {detail}");
        }

        for (i, op) in self.ops.iter().enumerate() {
            run.ctx.count("time.ops", 1);
            match op {
                CasOp::Put(b) | CasOp::PutVerified(b) => {
                    let (h, bytes) = &pool[*b % np];
                    let verified = matches!(op, CasOp::PutVerified(_));
                    let was_intact = if disk { run.model.file.get(h) == Some(&FileState::Intact) } else { run.model.acked.contains(h) };
                    let was_state = run.model.file.get(h).copied();
                    let r = catch(|| if verified { sut.put_verified(h, bytes).map(|()| *h) } else { sut.put(bytes) });
                    let r = match r {
                        Ok(r) => r,
                        Err(p) => bail!(panic_class("put"), "op#{i} {op:?}: {p}"),
                    };
                    match r {
                        Ok(rh) => {
                            if rh != *h {
                                bail!("put_returned_wrong_hash", "op#{i} {op:?}: returned {} for content hashing to {}", short(&rh), short(h));
                            }
                            run.model.acked.insert(*h);
                            if disk {
                                run.model.file.insert(*h, FileState::Intact);
                            }
                            run.ctx.trace(&[1, u8::from(verified)]);
                            run.ctx.trace(h);
                            if matches!(was_state, Some(FileState::Damaged | FileState::Gone)) {
                                run.ctx.hit("reach.put_repairs_damaged");
                            }
                        }
                        Err(e) => {
                            if disk && was_state == Some(FileState::IsDir) {
                                run.ctx.hit("reach.put_typed_error_on_dir");
                                run.ctx.trace(&[2]);
                                run.ctx.trace_str(&e);
                            } else {
                                let class = if run.model.temps > 0 { "temp_file_broke_op" } else { "op_failed_without_fault" };
                                bail!(class, "op#{i} {op:?}: put failed with {e} (file state {was_state:?})");
                            }
                        }
                    }
                    let after = obs!("observe_after_put");
                    if was_intact {
                        run.ctx.hit("reach.idempotent_put");
                        run.special_case = true;
                        if after != last {
                            bail!("put_not_idempotent", "op#{i} {op:?}: observable state changed on re-put of stored content\n before {last:?}\n after  {after:?}");
                        }
                    } else {
                        for (k, hh) in run.universe.iter().enumerate() {
                            if hh != h && after.per[k] != last.per[k] {
                                bail!("put_affected_other_hash", "op#{i} {op:?}: entry of {} changed: {:?} -> {:?}", short(hh), last.per[k], after.per[k]);
                            }
                        }
                    }
                    chk!(&after, Ctx::AfterOp, i);
                    last = after;
                }
                CasOp::PutWrong { b, wrong } => {
                    let (right, bytes) = &pool[*b % np];
                    let wh = resolve_wrong(wrong, right, &pool);
                    if wh == *right {
                        // Degenerate after shrinking / duplicate content: not a wrong hash at all.
                        continue;
                    }
                    let target_stored = if disk { run.model.file.contains_key(&wh) } else { run.model.acked.contains(&wh) };
                    let r = match catch(|| sut.put_verified(&wh, bytes)) {
                        Ok(r) => r,
                        Err(p) => bail!(panic_class("put_verified_wrong_hash"), "op#{i} {op:?}: {p}"),
                    };
                    run.special_case = true;
                    match r {
                        Ok(()) => {
                            let class = if !disk && target_stored { "wrong_hash_write_accepted:memory_tier_hash_already_present" } else { "wrong_hash_write_accepted" };
                            bail!(class, "op#{i} {op:?}: put_verified(expected={}, bytes hashing to {}) returned Ok", short(&wh), short(right));
                        }
                        Err(e) => {
                            run.ctx.hit("reach.wrong_hash_refused");
                            if target_stored {
                                run.ctx.hit("reach.wrong_hash_refused_for_stored_hash");
                            }
                            run.ctx.trace(&[3]);
                            run.ctx.trace_str(&e);
                        }
                    }
                    let after = obs!("observe_after_wrong_put");
                    if after != last {
                        bail!("wrong_hash_write_mutated_store", "op#{i} {op:?}: observable state changed by a refused write\n before {last:?}\n after  {after:?}");
                    }
                    chk!(&after, Ctx::AfterWrongPut, i);
                    last = after;
                }
                CasOp::Get(_) | CasOp::Has(_) | CasOp::GetAbsent(_) | CasOp::List => {
                    // Reads: the full sweep *is* the read; reads must not change anything.
                    let after = obs!("observe_read");
                    if after != last {
                        bail!("read_mutated_store", "op#{i} {op:?}: two consecutive full reads differ\n first  {last:?}\n second {after:?}");
                    }
                    chk!(&after, Ctx::AfterOp, i);
                    let k = match op {
                        CasOp::Get(b) | CasOp::Has(b) => run.universe.iter().position(|x| *x == pool[*b % np].0),
                        CasOp::GetAbsent(s) => run.universe.iter().position(|x| *x == absent_hash(*s)),
                        _ => None,
                    };
                    if let Some(k) = k {
                        let tag = match &after.per[k].0 {
                            GetRes::Some(x) => {
                                run.ctx.trace(x);
                                10
                            }
                            GetRes::None => 11,
                            GetRes::Err(e) => {
                                run.ctx.trace_str(e);
                                12
                            }
                        };
                        run.ctx.trace(&[tag]);
                    }
                    if let ListRes::Ok(l) = &after.list {
                        run.ctx.trace(&(l.len() as u32).to_le_bytes());
                    }
                    last = after;
                }
                CasOp::Pin(b) | CasOp::Unpin(b) => {
                    let h = pool[*b % np].0;
                    let pin = matches!(op, CasOp::Pin(_));
                    if let Err(p) = catch(|| if pin { sut.pin(&h) } else { sut.unpin(&h) }) {
                        bail!(panic_class("pin"), "op#{i} {op:?}: {p}");
                    }
                    if pin {
                        run.model.pins.insert(h);
                    } else {
                        run.model.pins.remove(&h);
                    }
                    let after = obs!("observe_after_pin");
                    if after.content() != last.content() {
                        bail!("pin_changed_content", "op#{i} {op:?}: content changed\n before {:?}\n after  {:?}", last.content(), after.content());
                    }
                    run.ctx.hit("reach.pin_unpin");
                    chk!(&after, Ctx::AfterPin, i);
                    run.ctx.trace(&[4, u8::from(pin)]);
                    last = after;
                }
                CasOp::Reopen => {
                    if !disk {
                        continue;
                    }
                    let r = run.root.clone().unwrap_or_default();
                    drop(sut);
                    sut = match catch(|| DiskTier::open(&r)) {
                        Ok(Ok(d)) => Sut::Disk(d),
                        Ok(Err(e)) => bail!("reopen_failed", "op#{i}: {}", err_kind(&e)),
                        Err(p) => bail!(panic_class("reopen"), "op#{i}: {p}"),
                    };
                    run.model.pins.clear();
                    run.ctx.hit("reach.reopen");
                    if run.model.file.values().any(|s| *s == FileState::Intact) {
                        run.ctx.hit("reach.reopen_with_intact_content");
                    }
                    let after = obs!("observe_after_reopen");
                    // content must be the same as before the reopen (pins are process-local)
                    if after.content() != last.content() {
                        bail!("reopen_changed_content", "op#{i}: content differs across reopen\n before {:?}\n after  {:?}", last.content(), after.content());
                    }
                    chk!(&after, Ctx::AfterReopen, i);
                    run.ctx.trace(&[5]);
                    last = after;
                }
                CasOp::Fault(f) => {
                    if !disk {
                        continue;
                    }
                    let fired_before = run.faults_fired;
                    let target = run.apply_fault(f, &pool);
                    if let Some(t) = target {
                        run.faults_fired += 1;
                        run.reclassify(&t);
                    }
                    if run.faults_fired == fired_before {
                        run.ctx.hit("reach.fault_not_applicable");
                        continue;
                    }
                    let after = obs!("observe_after_fault");
                    run.read_after_fault = true;
                    run.ctx.hit("reach.get_after_fault");
                    for (k, hh) in run.universe.iter().enumerate() {
                        if Some(*hh) != target && after.per[k] != last.per[k] {
                            let class = if target.is_none() && matches!(after.per[k].0, GetRes::Err(_)) {
                                "temp_file_broke_op"
                            } else if target.is_none() && matches!(f, FileFault::LeftoverTemp { b, .. } if pool[*b % np].0 == *hh) {
                                "temp_file_became_visible"
                            } else {
                                "fault_affected_other_hash"
                            };
                            bail!(class, "op#{i} {op:?}: entry of untouched hash {} changed: {:?} -> {:?}", short(hh), last.per[k], after.per[k]);
                        }
                    }
                    if target.is_none() && after != last {
                        let broke = matches!(after.list, ListRes::Err(_)) || after.per.iter().any(|(g, h, _)| matches!(g, GetRes::Err(_)) || matches!(h, BoolRes::Err(_)));
                        let class = if broke { "temp_file_broke_op" } else { "temp_file_became_visible" };
                        bail!(class, "op#{i} {op:?}: observable state changed by a leftover temp file\n before {last:?}\n after  {after:?}");
                    }
                    chk!(&after, Ctx::AfterFault(target), i);
                    run.ctx.trace(&[6]);
                    if let Some(t) = target {
                        run.ctx.trace(&t);
                        let k = run.universe.iter().position(|x| *x == t).unwrap_or(0);
                        run.ctx.trace_str(&format!("{:?}", after.per[k].0).chars().take(24).collect::<String>());
                    }
                    last = after;
                }
            }
        }
        let nontrivial = (run.faults_fired > 0 && run.read_after_fault) || run.special_case;
        (Outcome::Ok, nontrivial)
    }
}
