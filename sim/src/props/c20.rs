//! C20 — retained content is returned intact or not at all.
//!
//! One scenario type over five sub-surfaces (one surface per run, swarm style):
//!
//! * `Cas`      — `MemoryTier` / `DiskTier` op histories (put, verified put with right and wrong
//!                hash, get, has, pin, unpin, list, reopen) against `RefCas`; on the disk tier the
//!                *disk* is the fault-bearing party: byte flips, truncation, extension, deletion,
//!                replace-by-directory, leftover temp files, torn blobs between operations.
//! * `Retain`   — `RetainedBlobIndex` over colliding / distinct semantic coordinates, byte ranges
//!                and budgets, on `MemoryTier` and on the simulator-owned `EvictingBlobStore`.
//! * `WscStore` — `FilesystemWscStore` through `WscStorePort`: stage → crash → reopen → commit,
//!                torn envelope / marker files, leftover temp files.
//! * `Export`   — record sets written to a real filesystem WAL, exported through the three
//!                causal-history export profiles and re-imported, with the simulator-owned
//!                `FaultyBlobStore` withholding or corrupting each referenced blob in turn.
//!
//! Oracle: small reference models (a map hash → bytes + pin set; a map coordinate → content;
//! "file bytes equal the reference encoding"), checked after every operation.
//!
//! Violation classes: `wrong_bytes_returned`, `corruption_undetected`, `wrong_hash_write_accepted[:…]`,
//! `wrong_hash_write_mutated_store`, `put_not_idempotent`, `pin_changed_content`,
//! `reopen_lost_intact_blob`, `fault_affected_other_hash`, `temp_file_became_visible`,
//! `temp_file_broke_op`, `staged_envelope_visible`, `torn_envelope_not_obstructed`,
//! `torn_marker_not_obstructed`, `coordinate_alias`, `same_coordinate_different_content_accepted`,
//! `export_roundtrip_mismatch`, `withheld_blob_import_ok`, `corrupt_blob_import_ok`, `panic:<where>`, …
//!
//! History: `wrong_hash_write_accepted:memory_tier_hash_already_present` (`MemoryTier::put_verified`
//! returned `Ok` for arbitrary bytes when the expected hash was already stored) was found by this
//! module on the original tree and repaired by a `fix:` commit; it is listed as fixed in
//! known_findings.json and its scenario is re-executed on every run.

mod cas;
mod export;
mod reading;
mod retain;
mod wscstore;

use serde::{Deserialize, Serialize};

use crate::kernel::{Outcome, PropertySpec, Rng, RunCtx, Scenario, Tier};

pub const SPEC: PropertySpec = PropertySpec {
    id: "C20",
    level: "fault_enumeration",
    rule: "scenario = one of {CAS tier history (memory|disk) with file faults between ops, RetainedBlobIndex history over a small coordinate alphabet on MemoryTier|EvictingBlobStore, FilesystemWscStore stage/commit/crash/tear history, WAL record set pushed through the 3 export profiles with each referenced blob withheld/corrupted in turn, RetainedReadingCache retain/reveal history with exact / other / field-edited-hash-kept identities and unknown keys}; non-trivial = at least one fault fired and a read happened after it, or an aliasing / idempotence / wrong-hash case was exercised; distinct = hash of the scenario",
    quick_runs: 100_000,
    thorough_runs: 1_200_000,
    real_components: &[
        "echo_cas::MemoryTier",
        "echo_cas::DiskTier (real files on tmpfs)",
        "echo_cas::RetainedBlobIndex",
        "warp_core::wsc::FilesystemWscStore / WscStorePort / WscStoreEnvelope",
        "warp_core::causal_wal::FilesystemWalStore + recover_filesystem_store + project_filesystem_wal_recovery (log production)",
        "wsc_{ref_only,self_contained,cas_addressed}_wal_export + validate_wsc_*_wal_export",
    ],
    stub_components: &[
        "EvictingBlobStore: echo_cas::BlobStore (honest map that loses unpinned / on command pinned blobs)",
        "FaultyBlobStore: WscCasBlobStorePort (honest map that withholds or corrupts one blob)",
        "the disk: file damage applied between operations by the simulator",
    ],
    assumptions: &[
        "file faults are applied between operations (DiskTier and FilesystemWscStore do all I/O synchronously inside a call); crash = drop + reopen on the same directory; a torn blob / leftover temp is the directory image a crash inside put_verified / write_atomic can leave",
        "leftover temp files use the dot-prefixed names echo-cas itself produces (a non-dot stray file in a shard directory is not a crash artifact of the tier)",
        "has()/list() on a damaged blob file are unconstrained (they do not read bytes); get() is constrained",
        "a lying BlobStore (returns wrong bytes) under RetainedBlobIndex is out of scope: integrity on read is the store's duty and is checked on the tiers themselves",
        "export record sets are generated, written to a real filesystem WAL (submission / tick / retained-reading transactions, optional segment rotation), recovered and projected with the public causal_wal API; causal-anchor admissions are not generated (their builder is crate-private)",
    ],
    fault_kinds: &[
        "fault.flip",
        "fault.truncate",
        "fault.extend",
        "fault.delete",
        "fault.replace_by_dir",
        "fault.leftover_temp",
        "fault.torn_blob",
        "fault.evict",
        "fault.crash_before_commit_marker",
        "fault.torn_envelope",
        "fault.torn_marker",
        "fault.withheld_blob",
        "fault.corrupt_blob",
    ],
};

/// A blob from a tiny alphabet: content is a pure function of (sym, index), so equal
/// (sym, len) recur as identical content and equal sym with shorter len is a strict prefix.
#[derive(Clone, Copy, Debug, Serialize, Deserialize, PartialEq, Eq)]
pub struct BlobSpec {
    pub sym: u8,
    pub len: u16,
}

impl BlobSpec {
    pub fn bytes(&self) -> Vec<u8> {
        const SEED: [u8; 4] = [0x00, 0x41, 0xA5, 0xFF];
        let s = SEED[usize::from(self.sym) % SEED.len()];
        (0..usize::from(self.len)).map(|i| s ^ (i as u8).wrapping_mul(29).wrapping_add((i / 64) as u8)).collect()
    }
}

pub fn gen_blob(rng: &mut Rng, max_len: u16) -> BlobSpec {
    let len = match rng.below(12) {
        0 | 1 => 0,
        2 => 1,
        3 => *rng.pick(&[31u16, 32, 33, 63, 64, 65]),
        4 => max_len,
        _ => rng.range(2, u64::from(max_len.max(3))) as u16,
    };
    BlobSpec { sym: rng.below(4) as u8, len: len.min(max_len) }
}

pub fn gen_pool(rng: &mut Rng, lo: usize, hi: usize) -> Vec<BlobSpec> {
    let n = rng.urange(lo, hi);
    let max_len = *rng.pick(&[8u16, 40, 200, 200]);
    let mut pool: Vec<BlobSpec> = (0..n).map(|_| gen_blob(rng, max_len)).collect();
    // make a prefix pair and an exact duplicate likely
    if n >= 2 && rng.chance(1, 3) {
        let a = pool[0];
        pool[1] = BlobSpec { sym: a.sym, len: a.len / 2 };
    }
    if n >= 3 && rng.chance(1, 4) {
        pool[2] = pool[0];
    }
    pool
}

pub fn blake(bytes: &[u8]) -> [u8; 32] {
    *blake3::hash(bytes).as_bytes()
}

pub fn short(h: &[u8; 32]) -> String {
    hex::encode(&h[..6])
}

pub fn panic_class(at: &str) -> String {
    format!("panic:{at}")
}

#[derive(Clone, Debug, Serialize, Deserialize)]
pub enum C20 {
    Cas(cas::CasScenario),
    Retain(retain::RetainScenario),
    WscStore(wscstore::WscStoreScenario),
    Export(export::ExportScenario),
    Reading(reading::ReadingScenario),
}

impl Scenario for C20 {
    fn generate(rng: &mut Rng, tier: Tier, avoid_known: bool) -> Self {
        match rng.weighted(&[50, 20, 16, 14, 8]) {
            0 => C20::Cas(cas::CasScenario::generate(rng, tier, avoid_known)),
            1 => C20::Retain(retain::RetainScenario::generate(rng, tier)),
            2 => C20::WscStore(wscstore::WscStoreScenario::generate(rng, tier)),
            3 => C20::Export(export::ExportScenario::generate(rng, tier)),
            _ => C20::Reading(reading::ReadingScenario::generate(rng, tier)),
        }
    }

    fn execute(&self, ctx: &mut RunCtx) -> Outcome {
        let sig = serde_json::to_vec(self).unwrap_or_default();
        let (out, nontrivial) = match self {
            C20::Cas(s) => {
                ctx.hit("reach.surface_cas");
                s.execute(ctx)
            }
            C20::Retain(s) => {
                ctx.hit("reach.surface_retain");
                s.execute(ctx)
            }
            C20::WscStore(s) => {
                ctx.hit("reach.surface_wsc_store");
                s.execute(ctx)
            }
            C20::Export(s) => {
                ctx.hit("reach.surface_export");
                s.execute(ctx)
            }
            C20::Reading(s) => {
                ctx.hit("reach.surface_reading_cache");
                s.execute(ctx)
            }
        };
        if nontrivial {
            ctx.nontrivial(&sig);
        }
        out
    }

    fn shrink_candidates(&self) -> Vec<Self> {
        match self {
            C20::Cas(s) => s.shrink().into_iter().map(C20::Cas).collect(),
            C20::Retain(s) => s.shrink().into_iter().map(C20::Retain).collect(),
            C20::WscStore(s) => s.shrink().into_iter().map(C20::WscStore).collect(),
            C20::Export(s) => s.shrink().into_iter().map(C20::Export).collect(),
            C20::Reading(s) => s.shrink().into_iter().map(C20::Reading).collect(),
        }
    }
}
